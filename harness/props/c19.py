"""C19 — ill-formed requests are rejected, not answered; the receiver is left unchanged.

Every case is one call of one public operation on operands described by their SHAPES (the
values are filled in deterministically from the case).  A well-formed base request is drawn,
then each stated precondition is violated separately (`bad` names the violated clause), over
shapes chosen so that the violation could broadcast or divide by accident (extents 1, equal
extents, equal products, transposed matrices, lists one too short / too long, modes repeated /
negative / = N / > N).  The implementation's raise / no-raise and the receiver's state before
and after (bitwise) are compared with the decidable precondition `Pre_<op>` and with the
model of the validation prefix `validate_<op>` evaluated by the Lean driver.

A second family (`unsupported`) hands every public binary operation / method that takes a tensor
operand an operand of a TYPE it does not take (str, None, list, dict, complex / float ndarray, the
other pyttb classes) and demands an exception; its specification is the table `SUPPORTED` below
(no Lean model).  A third family (`sparse_read`) reads a sparse tensor with keys whose index list has an
out-of-range entry; its reference is the same key applied to the dense array by NumPy.
"""
from __future__ import annotations

import contextlib
import inspect
import io
import itertools
import logging
import os
import random
import tempfile
import warnings

import numpy as np
import pyttb as ttb
from pyttb import pyttb_utils as U

from harness import gen
from harness.lib import Family, Verdict, call, case_hash, drive

RULE = ("one call per case; operands given by shape, values small integers derived from the case; a base "
        "well-formed request per (operation, representation, shape, argument convention) and one mutant per "
        "stated precondition (wrong length / size / column count / list length, mode = N, > N, negative, "
        "repeated, non-permutation, element count changed, inconsistent constructor components, inadmissible "
        "option) over shapes with singleton, equal and multiple extents and empty sparse operands; "
        "non-trivial = an ill-formed request (the implementation must raise and leave the receiver bitwise "
        "unchanged) or its accepted well-formed twin with more than one cell; distinct = distinct case hash. "
        "Structural classes added after the mutation study: out-of-range subscripts whose value is zero or whose "
        "duplicates cancel, zero / negative extents with and without entries, multiplicands of ttsv that are 2-d "
        "arrays or nested lists, a sumtensor whose FIRST part differs, a ttensor given one component only, "
        "non-float factor matrices / weights, initial guesses of a class the algorithm does not take (a ttensor "
        "with fitting factors), contract of non-square matrices, larger masks whose nonzeros lie inside the data, "
        "S[region] = sptensor with an index list of another length, subdims with a region of another length. "
        "Second list: sizes wrong mode by mode with EQUAL PRODUCTS (mttkrp factor rows, ttt contracted extents), "
        "multiplicands of ttv / arguments of khatrirao / data of from_vector / shape arrays of another ORDER (incl. "
        "matrices that would broadcast and singleton axes in every position), constructors given one of two coupled "
        "arguments, one reconstruct sample for several modes, tenfun handle arity against operand count, S[subs] = v "
        "with fewer subscript columns than modes (receiver compared). "
        "Family `sparse_read`: S[key] with an out-of-range entry (first / middle / last) in an index list against the "
        "same key on the dense array with NumPy; demanded where the in-range part of the region holds a nonzero. "
        "Family `unsupported`: every public binary operation / method taking a tensor operand is handed operands "
        "of a TYPE it does not take (str, None, list, dict, complex / float ndarray, each other pyttb class; "
        "receivers with and without nonzeros) and must raise - the specification is the table SUPPORTED written "
        "from the signatures and class documentation, there is NO Lean theorem behind this family")
ASSUMPTIONS = [
    "any Python exception is a rejection; a returned value (or None from an in-place operation) is an answer",
    "family malformed: operands are described by shape: matrices are 2-d arrays, vectors 1-d arrays, modes "
    "integers; arrays of another order are generated for ttv / ttsv multiplicands, khatrirao arguments, from_vector "
    "data and shape arguments only; float modes are outside the property",
    "a row / column / stacked vector of the right length counts as a vector for ttv (ktensor.ttv drops singleton "
    "axes on purpose); the other holders' refusal of it is over-rejection",
    "family sparse_read: an out-of-range index-list entry must be refused where the region named by the in-range "
    "entries holds a stored nonzero; on an all-zero region pyttb answers zeros (reads by key: property C04)",
    "family unsupported: an operand kind counts as taken by an operation when the signature / documentation names "
    "it or the operation converts it on purpose (tenfun: arrays of any dtype and every class with to_tensor/full, "
    "hence also a tenmat; scale: anything with to_tenmat; dense __setitem__: NumPy's assignment conventions); "
    "NumPy scalar types that pyttb refuses (np.int64 divisor) are over-rejection, not demanded either way",
    "only the preconditions named in the property are demanded; rejections beyond them are counted as "
    "over-rejection tags, never as violations",
]
EXHAUSTIVE = {"quick": False, "thorough": False}

warnings.simplefilter("ignore")

# ---------------------------------------------------------------------------------------------
# building real operands from shapes
# ---------------------------------------------------------------------------------------------
SHAPES = [[2, 3, 4], [3, 3, 3], [1, 3, 2], [2, 1, 1], [1, 1], [2, 2], [4, 2], [2, 4, 2], [3], [1], [1, 1, 1], [3, 1, 3]]


def _rng(case):
    return random.Random(int(case_hash(case), 16))


def mk_dense(r, s):
    return gen.mk_tensor(ttb, s, [r.choice([-3, -2, -1, 1, 2, 3, 4]) for _ in range(gen.numel(s))])


def mk_sparse(r, s, nnz=None):
    cells = gen.all_subs(s)
    k = len(cells) if nnz is None else min(nnz, len(cells))
    if nnz is None:
        k = max(1, (len(cells) + 1) // 2)
    subs = r.sample(cells, k)
    return gen.mk_sptensor(ttb, s, subs, [r.choice([-2, -1, 1, 2, 3]) for _ in subs])


def mk_mat(r, rows, cols):
    return np.array([[r.choice([-2, -1, 1, 2, 3]) for _ in range(cols)] for _ in range(rows)], dtype=float).reshape(rows, cols)


def mk_vec(r, n):
    return np.array([r.choice([-2, -1, 1, 2, 3]) for _ in range(n)], dtype=float)


def mk_kt(r, s, R=2):
    return ttb.ktensor([mk_mat(r, m, R) for m in s], np.array([r.choice([1, 2, 3]) for _ in range(R)], dtype=float))


def mk_tt(r, s, core=None):
    core = core or [min(2, m) for m in s]
    return ttb.ttensor(mk_dense(r, core), [mk_mat(r, m, c) for m, c in zip(s, core)])


def mk_holder(r, rep, s, nnz=None):
    if rep == "dense":
        return mk_dense(r, s)
    if rep == "sparse":
        return mk_sparse(r, s, nnz)
    if rep == "ktensor":
        return mk_kt(r, s)
    if rep == "ttensor":
        return mk_tt(r, s)
    if rep == "sumtensor":
        return ttb.sumtensor([mk_dense(r, s), mk_kt(r, s)])
    raise ValueError(rep)


def snap(o):
    """Bitwise state of a pyttb object (None for anything else)."""
    if isinstance(o, ttb.tensor):
        return ("t", tuple(o.shape), o.data.tobytes())
    if isinstance(o, ttb.sptensor):
        return ("s", tuple(o.shape), np.asarray(o.subs).tobytes(), np.asarray(o.vals).tobytes())
    if isinstance(o, ttb.ktensor):
        return ("k", o.weights.tobytes(), [(f.shape, f.tobytes()) for f in o.factor_matrices])
    if isinstance(o, ttb.ttensor):
        return ("tt", snap(o.core), [(f.shape, f.tobytes()) for f in o.factor_matrices])
    if isinstance(o, ttb.tenmat):
        return ("tm", tuple(o.tshape), o.data.tobytes(), np.asarray(o.rindices).tobytes(), np.asarray(o.cindices).tobytes())
    if isinstance(o, ttb.sptenmat):
        return ("sm", tuple(o.tshape), np.asarray(o.subs).tobytes(), np.asarray(o.vals).tobytes())
    if isinstance(o, ttb.sumtensor):
        return ("sum", [snap(p) for p in o.parts])
    return None


def arr(x):
    return None if x is None else np.array(x, dtype=int)


DTYPES = {"int": np.int64, "bool": np.bool_, "float32": np.float32, "complex": np.complex128, "float": np.float64}


# ---------------------------------------------------------------------------------------------
# mutation helpers
# ---------------------------------------------------------------------------------------------
def bad_lengths(n, others=()):
    """lengths different from n that could broadcast / divide: 1, n+1, another extent, 0, 2n."""
    out = []
    for c in [1, n + 1, *others, 0, 2 * n, n - 1]:
        if c != n and c >= 0 and c not in out:
            out.append(c)
    return out


def equal_products(a, b):
    """pairs (x, y) other than (a, b) with the same product: sizes that differ mode by mode while every count
    computed from their product (rows of a Khatri-Rao product, columns of a matricization) still agrees"""
    n = a * b
    return [(x, n // x) for x in range(1, n + 1) if n % x == 0 and (x, n // x) != (a, b)]


def squeezed(vs):
    """shape of np.atleast_1d(np.ones(vs).squeeze())"""
    t = [e for e in vs if e != 1]
    return t or [1]


def mk_nd(r, shape):
    """array of any order (0-d included) with small nonzero integer values"""
    n = gen.numel(shape) if shape else 1
    return np.array([r.choice([-2, -1, 1, 2, 3]) for _ in range(n)], dtype=float).reshape(tuple(shape))


def bad_mode_lists(N, base):
    """ways of spoiling a list of modes `base` (all entries valid, distinct)."""
    out = []
    if base:
        out.append(("mode=N", base[:-1] + [N]))
        out.append(("mode>N", base[:-1] + [N + 2]))
        out.append(("mode<0", base[:-1] + [-1]))
        out.append(("mode=-N", base[:-1] + [-N]))
        out.append(("mode repeated", base + [base[0]]))
        if len(base) >= 2:
            out.append(("mode repeated", [base[0]] * len(base)))
    return out


def bad_perms(N):
    out = [("repeat", [1] * N if N > 1 else [1]), ("repeat", [0] * N) if N > 1 else ("range", [1]),
           ("long", list(range(N)) + [N]), ("short", list(range(N - 1))), ("shifted", list(range(1, N + 1))),
           ("negative", [k - N for k in range(N)]), ("negative", [-1] + list(range(1, N)))]
    if N >= 2:
        out.append(("repeat", list(range(N - 1)) + [N - 2]))
    return [(w, p) for w, p in out if sorted(p) != list(range(N))]


# ---------------------------------------------------------------------------------------------
# operations
# ---------------------------------------------------------------------------------------------
class Op:
    """One public operation: `covers` names the (class, method) pairs it exercises."""
    name = ""
    covers: tuple = ()

    def gen(self, rng, tier):
        raise NotImplementedError

    def run(self, c, r):  # -> (thunk, receiver)
        raise NotImplementedError

    def req(self, c):  # driver request (without "op")
        return {k: v for k, v in c.items() if k not in ("bad", "opname", "pending")}


def sel_modes(N, dims, excl):
    if dims is not None:
        return list(dims)
    if excl is not None:
        return [k for k in range(N) if k not in excl]
    return list(range(N))


def dims_conventions(rng, N):
    """(dims, excl) conventions: all, one mode, several modes in scrambled order, exclude."""
    out = [(None, None)]
    for k in range(N):
        out.append(([k], None))
    if N >= 2:
        a = rng.sample(range(N), 2)
        out.append((a, None))
        out.append((None, [rng.randrange(N)]))
    if N >= 3:
        out.append((gen.perm(rng, N), None))
        out.append((None, rng.sample(range(N), 2)))
    return out


class Ttv(Op):
    name = "ttv"
    covers = (("tensor", "ttv"), ("sptensor", "ttv"), ("ktensor", "ttv"), ("ttensor", "ttv"), ("sumtensor", "ttv"))
    reps = ("dense", "sparse", "ktensor", "ttensor", "sumtensor")

    def gen(self, rng, tier):
        out = []
        shapes = SHAPES if tier == "thorough" else rng.sample(SHAPES, 6)
        for s in shapes:
            N = len(s)
            for rep in self.reps:
                convs = dims_conventions(rng, N)
                if tier == "quick":
                    convs = rng.sample(convs, min(3, len(convs)))
                for dims, excl in convs:
                    sel = sel_modes(N, dims, excl)
                    if not sel:
                        continue
                    for full in ((False, True) if len(sel) < N else (False,)):
                        vecs = [s[k] for k in range(N)] if full else [s[k] for k in sel]
                        base = {"rep": rep, "shape": s, "vecs": vecs, "dims": dims, "excl": excl, "nnz": None}
                        out.append(dict(base, bad=None))
                        if rep == "sparse":
                            out.append(dict(base, nnz=0, bad=None))
                        # wrong length of one multiplicand that is used
                        j = sel[0] if full else 0
                        for L in bad_lengths(vecs[j], [x for x in s if x != vecs[j]][:1]):
                            v2 = list(vecs)
                            v2[j] = L
                            out.append(dict(base, vecs=v2, bad="vector length"))
                            if rep == "sparse":
                                out.append(dict(base, vecs=v2, nnz=0, bad="vector length"))
                        # list too long / too short
                        if len(vecs) + 1 != N or True:
                            v2 = vecs + [vecs[-1]]
                            if len(v2) not in (N, len(sel)):
                                out.append(dict(base, vecs=v2, bad="list length"))
                        if len(vecs) >= 2 and len(vecs) - 1 not in (N, len(sel)):
                            out.append(dict(base, vecs=vecs[:-1], bad="list length"))
                        # modes
                        if dims is not None:
                            for what, d2 in bad_mode_lists(N, dims):
                                v2 = vecs if full else (vecs + [vecs[0]] * (len(d2) - len(vecs)))[:len(d2)]
                                out.append(dict(base, dims=d2, vecs=v2, bad=what))
                        if excl is not None:
                            for what, e2 in bad_mode_lists(N, excl):
                                out.append(dict(base, excl=e2, bad="exclude " + what))
                        if dims is not None and not full:
                            out.append(dict(base, excl=[0], bad="dims and exclude_dims"))
                        # a multiplicand that is an array of another order: a column / row / stacked vector of the
                        # right length is a vector once its singleton axes are dropped (ktensor.ttv does so; the
                        # other holders refuse it, which is not demanded either way); a MATRIX with the right number
                        # of rows (1, 2, R = 2, n columns - it would broadcast against the weights) is not
                        n = vecs[j]
                        for vs in ([n, 1], [1, n], [n, 1, 1], [n, 2], [n, 3], [n, n], [2, n], [n, 1, 2], [1, n, 2]):
                            vsh = [[m] for m in vecs]
                            vsh[j] = vs
                            out.append(dict(base, vshapes=vsh, bad=None if squeezed(vs) == [n] else "multiplicand not a vector"))
        return out

    def run(self, c, r):
        X = mk_holder(r, c["rep"], c["shape"], c.get("nnz"))
        vecs = [mk_nd(r, vs) for vs in c["vshapes"]] if c.get("vshapes") else [mk_vec(r, n) for n in c["vecs"]]
        return (lambda: X.ttv(vecs, arr(c["dims"]), arr(c["excl"]))), X


class Ttm(Op):
    name = "ttm"
    covers = (("tensor", "ttm"), ("sptensor", "ttm"), ("ttensor", "ttm"))
    reps = ("dense", "sparse", "ttensor")

    def gen(self, rng, tier):
        out = []
        shapes = [s for s in SHAPES] if tier == "thorough" else rng.sample(SHAPES, 6)
        for s in shapes:
            N = len(s)
            for rep in self.reps:
                convs = dims_conventions(rng, N)
                if tier == "quick":
                    convs = rng.sample(convs, min(3, len(convs)))
                for dims, excl in convs:
                    sel = sel_modes(N, dims, excl)
                    if not sel:
                        continue
                    for tr in (False, True):
                        for full in ((False, True) if len(sel) < N else (False,)):
                            modes = list(range(N)) if full else sel
                            p = [rng.choice([1, 2, 3]) for _ in modes]
                            mats = [[s[k], q] if tr else [q, s[k]] for k, q in zip(modes, p)]
                            base = {"rep": rep, "shape": s, "mats": mats, "dims": dims, "excl": excl, "tr": tr,
                                    "single": False, "nnz": None}
                            out.append(dict(base, bad=None))
                            if len(sel) == 1 and not full:
                                out.append(dict(base, single=True, bad=None))
                            j = sel[0] if full else 0
                            n = mats[j][0] if tr else mats[j][1]
                            for L in bad_lengths(n, [x for x in s if x != n][:1]):
                                if L == 0:
                                    continue
                                m2 = [list(m) for m in mats]
                                m2[j] = [L, m2[j][1]] if tr else [m2[j][0], L]
                                out.append(dict(base, mats=m2, bad="matrix size"))
                                if len(sel) == 1 and not full:
                                    out.append(dict(base, mats=m2, single=True, bad="matrix size"))
                            # the matrix given for the other orientation
                            if mats[j][0] != mats[j][1]:
                                m2 = [list(m) for m in mats]
                                m2[j] = m2[j][::-1]
                                out.append(dict(base, mats=m2, bad="matrix transposed"))
                            m2 = mats + [mats[-1]]
                            if len(m2) not in (N, len(sel)):
                                out.append(dict(base, mats=m2, bad="list length"))
                            if len(mats) >= 2 and len(mats) - 1 not in (N, len(sel)):
                                out.append(dict(base, mats=mats[:-1], bad="list length"))
                            if dims is not None:
                                for what, d2 in bad_mode_lists(N, dims):
                                    m2 = mats if full else (mats + [mats[0]] * (len(d2) - len(mats)))[:len(d2)]
                                    out.append(dict(base, dims=d2, mats=m2, bad=what))
                                    if len(d2) == 1:
                                        out.append(dict(base, dims=d2, mats=m2, single=True, bad=what))
                            if excl is not None:
                                for what, e2 in bad_mode_lists(N, excl):
                                    out.append(dict(base, excl=e2, bad="exclude " + what))
                            if len(sel) >= 2 and not full:
                                out.append(dict(base, mats=mats[:1], single=True, bad="one matrix, several modes"))
        return out

    def run(self, c, r):
        X = mk_holder(r, c["rep"], c["shape"], c.get("nnz"))
        mats = [mk_mat(r, a, b) for a, b in c["mats"]]
        m = mats[0] if c["single"] else mats
        return (lambda: X.ttm(m, arr(c["dims"]), arr(c["excl"]), transpose=c["tr"])), X


class Mttkrp(Op):
    name = "mttkrp"
    covers = (("tensor", "mttkrp"), ("sptensor", "mttkrp"), ("ktensor", "mttkrp"), ("ttensor", "mttkrp"),
              ("sumtensor", "mttkrp"))
    reps = ("dense", "sparse", "ktensor", "ttensor", "sumtensor")

    def gen(self, rng, tier):
        out = []
        shapes = SHAPES if tier == "thorough" else rng.sample(SHAPES, 6)
        for s in shapes:
            N = len(s)
            for rep in self.reps:
                R = rng.choice([1, 2, 3])
                for n in range(N):
                    Us = [[m, R] for m in s]
                    base = {"rep": rep, "shape": s, "U": Us, "n": n, "nnz": None}
                    out.append(dict(base, bad=None if N >= 2 else "order < 2"))
                    if N < 2:
                        continue
                    if rep == "sparse":
                        out.append(dict(base, nnz=0, bad=None))
                    for k in range(N):
                        if k == n:
                            continue
                        for L in bad_lengths(s[k], [x for x in s if x != s[k]][:1]):
                            if L == 0:
                                continue
                            u2 = [list(u) for u in Us]
                            u2[k][0] = L
                            out.append(dict(base, U=u2, bad="factor rows"))
                        for C in bad_lengths(R)[:2]:
                            if C == 0:
                                continue
                            u2 = [list(u) for u in Us]
                            u2[k][1] = C
                            # with two modes the only other factor is the skipped one: nothing to disagree with
                            if N >= 3:
                                out.append(dict(base, U=u2, bad="factor columns"))
                    out.append(dict(base, U=Us[:-1], bad="list length"))
                    out.append(dict(base, U=Us + [Us[-1]], bad="list length"))
                    out += self.equal_product_rows(base, s, n, rep)
                for n, what in ((N, "mode=N"), (N + 1, "mode>N"), (-1, "mode<0"), (-N, "mode=-N")):
                    if N >= 2:
                        out.append({"rep": rep, "shape": s, "U": [[m, R] for m in s], "n": n, "nnz": None, "bad": what})
        # the same class on shapes that are always there (pairwise distinct extents, four modes)
        for s in ([2, 3, 4], [2, 2, 2, 3], [3, 2, 2]):
            for rep in self.reps:
                R = rng.choice([1, 2, 3])
                for n in range(len(s)):
                    base = {"rep": rep, "shape": s, "U": [[m, R] for m in s], "n": n, "nnz": None}
                    out.append(dict(base, bad=None))
                    out += self.equal_product_rows(base, s, n, rep)
        return out

    @staticmethod
    def equal_product_rows(base, s, n, rep):
        """the row counts of TWO factors other than the n-th are wrong while their product is right (sizes swapped,
        or refactored): the Khatri-Rao product of the factors still has as many rows as the matricized tensor has
        columns, so nothing but the per-factor test sees it"""
        out = []
        others = [k for k in range(len(s)) if k != n]
        for ka, kb in itertools.combinations(others, 2):
            for x, y in equal_products(s[ka], s[kb]):
                u2 = [list(u) for u in base["U"]]
                u2[ka][0], u2[kb][0] = x, y
                out.append(dict(base, U=u2, bad="factor rows, equal product"))
                if rep == "sparse":
                    out.append(dict(base, U=u2, nnz=0, bad="factor rows, equal product"))
        return out

    def run(self, c, r):
        X = mk_holder(r, c["rep"], c["shape"], c.get("nnz"))
        Us = [mk_mat(r, a, b) for a, b in c["U"]]
        return (lambda: X.mttkrp(Us, c["n"])), X


def mismatched_shapes(s):
    """shapes different from s that could broadcast against it or have the same element count."""
    out = []
    N = len(s)
    for k in range(N):
        if s[k] != 1:
            out.append(s[:k] + [1] + s[k + 1:])
        out.append(s[:k] + [s[k] + 1] + s[k + 1:])
    out.append(s + [1])
    out.append([1] + s)
    if N >= 2:
        out.append(s[1:])
        out.append(s[:-1])
        if s != s[::-1]:
            out.append(s[::-1])
        out.append([gen.numel(s)])
    out.append([1] * N)
    out.append([1])
    res = []
    for t in out:
        if t != s and t and t not in res and gen.numel(t) <= 64:
            res.append(t)
    return res


class Innerprod(Op):
    name = "innerprod"
    covers = (("tensor", "innerprod"), ("sptensor", "innerprod"), ("ktensor", "innerprod"), ("ttensor", "innerprod"),
              ("sumtensor", "innerprod"))
    reps = ("dense", "sparse", "ktensor", "ttensor")

    def gen(self, rng, tier):
        out = []
        shapes = SHAPES if tier == "thorough" else rng.sample(SHAPES, 5)
        for s in shapes:
            for a in self.reps + ("sumtensor",):
                for b in self.reps:
                    for na in ((None, 0) if a == "sparse" else (None,)):
                        for nb in ((None, 0) if b == "sparse" else (None,)):
                            base = {"a": a, "b": b, "sa": s, "sb": s, "na": na, "nb": nb}
                            out.append(dict(base, bad=None))
                            ms = mismatched_shapes(s)
                            if tier == "quick":
                                ms = rng.sample(ms, min(3, len(ms)))
                            for t in ms:
                                out.append(dict(base, sb=t, bad="shape mismatch"))
        return out

    def run(self, c, r):
        A = mk_holder(r, c["a"], c["sa"], c["na"])
        B = mk_holder(r, c["b"], c["sb"], c["nb"])
        return (lambda: A.innerprod(B)), A


ELEM = {
    "add": lambda a, b: a + b, "sub": lambda a, b: a - b, "mul": lambda a, b: a * b, "div": lambda a, b: a / b,
    "eq": lambda a, b: a == b, "ne": lambda a, b: a != b, "lt": lambda a, b: a < b, "le": lambda a, b: a <= b,
    "gt": lambda a, b: a > b, "ge": lambda a, b: a >= b,
    "and": lambda a, b: a.logical_and(b), "or": lambda a, b: a.logical_or(b), "xor": lambda a, b: a.logical_xor(b),
}
ELEM_METHOD = {"add": "__add__", "sub": "__sub__", "mul": "__mul__", "div": "__truediv__", "eq": "__eq__",
               "ne": "__ne__", "lt": "__lt__", "le": "__le__", "gt": "__gt__", "ge": "__ge__",
               "and": "logical_and", "or": "logical_or", "xor": "logical_xor"}


class Elementwise(Op):
    """element-wise binary operations between tensors of (supposedly) equal shape"""
    name = "elementwise"
    covers = tuple((cls, m) for cls in ("tensor", "sptensor") for m in ELEM_METHOD.values()) + (
        ("ktensor", "__add__"), ("ktensor", "__sub__"), ("tenmat", "__add__"), ("tenmat", "__sub__"),
        ("tenmat", "__rsub__"), ("tenmat", "__radd__"), ("tensor", "tenfun"), ("tensor", "tenfun_binary"),
        ("tensor", "__radd__"), ("tensor", "__rmul__"))

    def gen(self, rng, tier):
        out = []
        shapes = SHAPES if tier == "thorough" else rng.sample(SHAPES, 5)
        pairs = [("dense", "dense"), ("dense", "sparse"), ("sparse", "sparse"), ("sparse", "dense"),
                 ("ktensor", "ktensor"), ("tenmat", "tenmat")]
        for s in shapes:
            for a, b in pairs:
                ops = list(ELEM)
                if a == "ktensor" or a == "tenmat":
                    ops = ["add", "sub"]
                if tier == "quick":
                    ops = rng.sample(ops, min(4, len(ops)))
                for op in ops:
                    for na in ((None, 0) if a == "sparse" else (None,)):
                        base = {"a": a, "b": b, "fn": op, "sa": s, "sb": s, "na": na, "nb": None}
                        out.append(dict(base, bad=None))
                        ms = mismatched_shapes(s)
                        if a == "tenmat":
                            # matricized along mode 0: compare matrix shapes
                            ms = [t for t in ms if [t[0], gen.numel(t[1:])] != [s[0], gen.numel(s[1:])]]
                        if tier == "quick":
                            ms = rng.sample(ms, min(3, len(ms)))
                        for t in ms:
                            out.append(dict(base, sb=t, bad="shape mismatch"))
        return out

    @staticmethod
    def _mk(r, rep, s, nnz):
        if rep == "tenmat":
            return mk_dense(r, s).to_tenmat(np.array([0]))
        return mk_holder(r, rep, s, nnz)

    def run(self, c, r):
        A = self._mk(r, c["a"], c["sa"], c["na"])
        B = self._mk(r, c["b"], c["sb"], c["nb"])
        f = ELEM[c["fn"]]
        return (lambda: f(A, B)), A


class TenmatMul(Op):
    name = "tenmat_mul"
    covers = (("tenmat", "__mul__"), ("tenmat", "__rmul__"))

    def gen(self, rng, tier):
        out = []
        for _ in range(10 if tier == "quick" else 60):
            m, k, n = (rng.choice([1, 2, 3, 4]) for _ in range(3))
            base = {"a": [m, k], "b": [k, n]}
            out.append(dict(base, bad=None))
            for L in bad_lengths(k, [m, n])[:3]:
                if L > 0:
                    out.append(dict(base, b=[L, n], bad="inner dimension"))
        return out

    def run(self, c, r):
        A = ttb.tenmat(mk_mat(r, *c["a"]), np.array([0]), np.array([1]), tuple(c["a"]))
        B = ttb.tenmat(mk_mat(r, *c["b"]), np.array([0]), np.array([1]), tuple(c["b"]))
        return (lambda: A * B), A


class Ttt(Op):
    name = "ttt"
    covers = (("tensor", "ttt"),)

    def gen(self, rng, tier):
        out = []
        shapes = SHAPES if tier == "thorough" else rng.sample(SHAPES, 6)
        for s in shapes:
            N = len(s)
            for k in range(0, min(N, 2) + 1):
                xd = rng.sample(range(N), k)
                # the other tensor: the contracted extents in some positions + extra modes
                extra = [rng.choice([1, 2, 3]) for _ in range(rng.randint(0 if k else 1, 2))]
                t = extra + [s[d] for d in xd]
                pos = list(range(len(extra), len(extra) + k))
                perm = gen.perm(rng, len(t))
                t2 = [t[p] for p in perm]
                yd = [perm.index(p) for p in pos]
                if not t2:
                    continue
                base = {"sa": s, "sb": t2, "xd": xd, "yd": yd}
                out.append(dict(base, bad=None))
                if k:
                    j = yd[0]
                    for L in bad_lengths(t2[j])[:2]:
                        if L > 0:
                            out.append(dict(base, sb=t2[:j] + [L] + t2[j + 1:], bad="extent mismatch"))
                    for what, d2 in bad_mode_lists(N, xd):
                        y2 = (yd + [yd[0]] * (len(d2) - len(yd)))[:len(d2)]
                        out.append(dict(base, xd=d2, yd=y2, bad="self " + what))
                    for what, d2 in bad_mode_lists(len(t2), yd):
                        x2 = (xd + [xd[0]] * (len(d2) - len(xd)))[:len(d2)]
                        out.append(dict(base, xd=x2, yd=d2, bad="other " + what))
                    if k == 2:
                        out.append(dict(base, yd=yd[:1], bad="number of modes"))
                        out += self.equal_product_extents(base)
        # contracted extents that differ mode by mode while their products agree, on shapes that are always there
        for sa, sb, xd, yd in (([2, 3, 4], [2, 3, 5], [0, 1], [0, 1]), ([2, 3, 4], [5, 4, 2], [0, 2], [2, 1]),
                               ([4, 2, 2, 3], [3, 2, 4], [3, 1, 0], [0, 1, 2]), ([3, 3], [3, 3], [0, 1], [1, 0])):
            base = {"sa": sa, "sb": sb, "xd": xd, "yd": yd}
            out.append(dict(base, bad=None))
            out += self.equal_product_extents(base)
        return out

    @staticmethod
    def equal_product_extents(base):
        """two contracted extents of the other tensor swapped / refactored: the matricized product still conforms"""
        out = []
        t2, yd = base["sb"], base["yd"]
        for ja, jb in itertools.combinations(yd, 2):
            for x, y in equal_products(t2[ja], t2[jb]):
                t3 = list(t2)
                t3[ja], t3[jb] = x, y
                out.append(dict(base, sb=t3, bad="extent mismatch, equal product"))
        return out

    def run(self, c, r):
        A, B = mk_dense(r, c["sa"]), mk_dense(r, c["sb"])
        return (lambda: A.ttt(B, np.array(c["xd"], dtype=int), np.array(c["yd"], dtype=int))), A


class Contract(Op):
    name = "contract"
    covers = (("tensor", "contract"), ("sptensor", "contract"))

    def gen(self, rng, tier):
        out = []
        for s in [[2, 2], [3, 3, 2], [2, 3, 2], [2, 2, 2], [1, 1], [1, 1, 1], [1, 3, 1], [2, 3, 2, 3], [4, 2, 4],
                  [2, 3], [4, 2], [1, 2], [3, 1]]:
            N = len(s)
            for rep in ("dense", "sparse"):
                for nnz in ((None, 0) if rep == "sparse" else (None,)):
                    for i, j in itertools.permutations(range(N), 2):
                        base = {"rep": rep, "shape": s, "i": i, "j": j, "nnz": nnz}
                        if s[i] == s[j]:
                            out.append(dict(base, bad=None))
                            out.append(dict(base, j=i, bad="mode repeated"))
                            out.append(dict(base, j=j - N, bad="mode<0"))
                            out.append(dict(base, i=i - N, bad="mode<0"))
                            out.append(dict(base, j=i - N, bad="mode<0"))
                            out.append(dict(base, j=N, bad="mode=N"))
                            out.append(dict(base, i=N + 1, bad="mode>N"))
                        else:
                            out.append(dict(base, bad="extent mismatch"))
        if tier == "quick":
            # matrices (the trace path) are few: keep them all, sample the rest
            two = [c for c in out if len(c["shape"]) == 2]
            rest = [c for c in out if len(c["shape"]) != 2]
            out = two + rng.sample(rest, min(len(rest), 100))
        return out

    def run(self, c, r):
        X = mk_holder(r, c["rep"], c["shape"], c["nnz"])
        return (lambda: X.contract(c["i"], c["j"])), X


class Collapse(Op):
    name = "collapse"
    covers = (("tensor", "collapse"), ("sptensor", "collapse"))

    def gen(self, rng, tier):
        out = []
        shapes = SHAPES if tier == "thorough" else rng.sample(SHAPES, 6)
        for s in shapes:
            N = len(s)
            for rep in ("dense", "sparse"):
                for nnz in ((None, 0) if rep == "sparse" else (None,)):
                    for dims, _ in dims_conventions(rng, N):
                        base = {"rep": rep, "shape": s, "dims": dims, "nnz": nnz}
                        out.append(dict(base, bad=None))
                        if dims is not None:
                            for what, d2 in bad_mode_lists(N, dims):
                                out.append(dict(base, dims=d2, bad=what))
        return out

    def run(self, c, r):
        X = mk_holder(r, c["rep"], c["shape"], c["nnz"])
        return (lambda: X.collapse(arr(c["dims"]))), X


class Scale(Op):
    name = "scale"
    covers = (("tensor", "scale"), ("sptensor", "scale"))

    def gen(self, rng, tier):
        out = []
        shapes = [s for s in SHAPES if len(s) >= 2]
        if tier == "quick":
            shapes = rng.sample(shapes, 5)
        for s in shapes:
            N = len(s)
            for rep in ("dense", "sparse"):
                for nnz in ((None, 0) if rep == "sparse" else (None,)):
                    # one mode, factor = vector
                    for k in range(N):
                        base = {"rep": rep, "shape": s, "dims": [k], "fshape": [s[k]], "fkind": "array", "nnz": nnz}
                        out.append(dict(base, bad=None))
                        for L in bad_lengths(s[k], [x for x in s if x != s[k]][:1]):
                            if L > 0:
                                out.append(dict(base, fshape=[L], bad="factor length"))
                        out.append(dict(base, fshape=[s[k], 1], bad="factor is a column"))
                        out.append(dict(base, fshape=[s[k], 2], bad="factor is a matrix"))
                        for what, d2 in bad_mode_lists(N, [k]):
                            if len(d2) == 1:
                                out.append(dict(base, dims=d2, bad=what))
                    # several modes, factor = tensor / sptensor
                    for fk in ("tensor", "sptensor"):
                        ds = sorted(rng.sample(range(N), 2))
                        fs = [s[d] for d in ds]
                        base = {"rep": rep, "shape": s, "dims": ds, "fshape": fs, "fkind": fk, "nnz": nnz}
                        if rep == "dense" and fk == "sptensor":
                            continue
                        out.append(dict(base, bad=None))
                        for t in mismatched_shapes(fs)[:4]:
                            out.append(dict(base, fshape=t, bad="factor shape"))
                        for what, d2 in bad_mode_lists(N, ds):
                            if len(d2) == 2:
                                f2 = [s[d] if 0 <= d < N else 2 for d in d2]
                                out.append(dict(base, dims=d2, fshape=f2, bad=what))
        return out

    def run(self, c, r):
        X = mk_holder(r, c["rep"], c["shape"], c["nnz"])
        fs = c["fshape"]
        if c["fkind"] == "array":
            F = mk_vec(r, fs[0]) if len(fs) == 1 else mk_mat(r, fs[0], fs[1])
        elif c["fkind"] == "tensor":
            F = mk_dense(r, fs)
        else:
            F = mk_sparse(r, fs, gen.numel(fs))
        d = c["dims"]
        return (lambda: X.scale(F, np.array(d, dtype=int))), X


class Permute(Op):
    name = "permute"
    covers = (("tensor", "permute"), ("sptensor", "permute"), ("ktensor", "permute"), ("ttensor", "permute"))

    def gen(self, rng, tier):
        out = []
        shapes = SHAPES if tier == "thorough" else rng.sample(SHAPES, 7)
        for s in shapes:
            N = len(s)
            for rep in ("dense", "sparse", "ktensor", "ttensor"):
                for nnz in ((None, 0) if rep == "sparse" else (None,)):
                    base = {"rep": rep, "shape": s, "nnz": nnz}
                    out.append(dict(base, order=gen.perm(rng, N), bad=None))
                    for what, p in bad_perms(N):
                        out.append(dict(base, order=p, bad="not a permutation: " + what))
        return out

    def run(self, c, r):
        X = mk_holder(r, c["rep"], c["shape"], c["nnz"])
        return (lambda: X.permute(np.array(c["order"], dtype=int))), X


def factorizations(n, maxlen=3):
    out = []

    def rec(prefix, rem):
        if prefix and rem == 1:
            out.append(list(prefix))
        if len(prefix) == maxlen:
            return
        for d in range(1, rem + 1):
            if rem % d == 0 and not (d == 1 and 1 in prefix):
                rec(prefix + [d], rem // d)
    rec([], n)
    return out


class Reshape(Op):
    name = "reshape"
    covers = (("tensor", "reshape"), ("sptensor", "reshape"))

    def gen(self, rng, tier):
        out = []
        shapes = SHAPES if tier == "thorough" else rng.sample(SHAPES, 7)
        for s in shapes:
            N = len(s)
            n = gen.numel(s)
            for rep in ("dense", "sparse"):
                for nnz in ((None, 0) if rep == "sparse" else (None,)):
                    base = {"rep": rep, "shape": s, "old": None, "nnz": nnz}
                    out.append(dict(base, target=rng.choice(factorizations(n)), bad=None))
                    for t in ([n + 1], s + [2], [max(1, n - 1)] if n > 1 else [2], [n, 2], s[:-1] if N > 1 and s[-1] != 1 else [n + 2],
                              [2 * n], [1]):
                        if gen.numel(t) != n:
                            out.append(dict(base, target=t, bad="element count"))
                    if rep == "sparse":
                        for k in range(1, N + 1):
                            om = rng.sample(range(N), k)
                            m = gen.numel([s[d] for d in om])
                            b2 = dict(base, old=om)
                            out.append(dict(b2, target=rng.choice(factorizations(m)), bad=None))
                            out.append(dict(b2, target=[m + 1], bad="element count"))
                            for what, d2 in bad_mode_lists(N, om):
                                m2 = gen.numel([s[d] if 0 <= d < N else 1 for d in d2])
                                out.append(dict(b2, old=d2, target=[m2], bad="old_modes " + what))
        return out

    def run(self, c, r):
        X = mk_holder(r, c["rep"], c["shape"], c["nnz"])
        t = tuple(c["target"])
        if c["rep"] == "dense":
            return (lambda: X.reshape(t)), X
        return (lambda: X.reshape(t, arr(c["old"]))), X


class ToMat(Op):
    """tensor.to_tenmat / sptensor.to_sptenmat / ktensor.to_tenmat"""
    name = "to_mat"
    covers = (("tensor", "to_tenmat"), ("sptensor", "to_sptenmat"), ("ktensor", "to_tenmat"))

    def gen(self, rng, tier):
        out = []
        shapes = SHAPES if tier == "thorough" else rng.sample(SHAPES, 6)
        for s in shapes:
            N = len(s)
            for rep in ("dense", "sparse", "ktensor"):
                for nnz in ((None, 0) if rep == "sparse" else (None,)):
                    base = {"rep": rep, "shape": s, "rdims": None, "cdims": None, "cyc": None, "nnz": nnz}
                    p = gen.perm(rng, N)
                    k = rng.randint(0, N)
                    out.append(dict(base, rdims=p[:k], cdims=p[k:], bad=None))
                    out.append(dict(base, rdims=p[:k], bad=None))
                    out.append(dict(base, cdims=p[k:], bad=None))
                    for cyc in ("fc", "bc", "t"):
                        out.append(dict(base, rdims=[rng.randrange(N)], cyc=cyc, bad=None))
                    out.append(dict(base, bad="neither rdims nor cdims"))
                    for what, d2 in bad_mode_lists(N, p[:max(k, 1)]):
                        out.append(dict(base, rdims=d2, bad="rdims " + what))
                        out.append(dict(base, cdims=d2, bad="cdims " + what))
                    if N >= 2:
                        out.append(dict(base, rdims=p[:1], cdims=p[2:], bad="a mode is missing"))
                        out.append(dict(base, rdims=p[:2], cdims=p[1:], bad="a mode is in both"))
                    for cyc in ("fc", "bc", "t"):
                        for what, d2 in bad_mode_lists(N, [0]):
                            if len(d2) == 1:
                                out.append(dict(base, rdims=d2, cyc=cyc, bad="rdims " + what))
        return out

    def run(self, c, r):
        X = mk_holder(r, c["rep"], c["shape"], c["nnz"])
        kw = dict(rdims=arr(c["rdims"]), cdims=arr(c["cdims"]), cdims_cyclic=c["cyc"])
        if c["rep"] == "sparse":
            return (lambda: X.to_sptenmat(**kw)), X
        return (lambda: X.to_tenmat(**kw)), X


class Constructors(Op):
    name = "construct"
    covers = (("tensor", "__init__"), ("sptensor", "__init__"), ("sptensor", "from_aggregator"), ("ktensor", "__init__"),
              ("ttensor", "__init__"), ("sumtensor", "__init__"), ("tenmat", "__init__"), ("sptenmat", "__init__"),
              ("sumtensor", "__add__"), ("sumtensor", "__radd__"), ("ktensor", "from_vector"))

    def gen(self, rng, tier):
        out = []
        shapes = SHAPES if tier == "thorough" else rng.sample(SHAPES, 6)
        for s in shapes:
            N = len(s)
            n = gen.numel(s)
            # tensor(data, shape)
            for ds in factorizations(n)[:3]:
                out.append({"k": "tensor", "dshape": ds, "shape": s, "bad": None})
            for t in ([n + 1], s + [2], [2 * n], s[:-1] if N > 1 and s[-1] > 1 else [n + 2]):
                out.append({"k": "tensor", "dshape": s, "shape": t, "bad": "element count"})
            # sptensor(subs, vals, shape): number of subscripts, of values, subscript width, range
            cells = gen.all_subs(s)
            k = min(len(cells), 3)
            subs = rng.sample(cells, k)
            base = {"k": "sptensor", "shape": s, "subs": subs, "nvals": k, "agg": False}
            for agg in (False, True):
                b = dict(base, agg=agg)
                out.append(dict(b, bad=None))
                for L in (k + 1, k - 1, 1, 0, 2 * k):
                    if L != k and L >= 0 and not (agg and L == 0):
                        out.append(dict(b, nvals=L, bad="number of values"))
                j = rng.randrange(N)
                s2 = [list(x) for x in subs]
                s2[0][j] = s[j]
                out.append(dict(b, subs=s2, bad="subscript = extent"))
                # ... whose value is zero, or (aggregator) whose duplicates sum to zero: the entry would not survive
                out.append(dict(b, subs=s2, zero=[0], bad="subscript = extent"))
                if agg:
                    out.append(dict(b, subs=s2 + [s2[0]], nvals=k + 1, cancel=[0, k], bad="subscript = extent"))
                    s3 = [list(x) for x in subs]
                    s3[-1][j] = s[j] + 1
                    out.append(dict(b, subs=s3 + [s3[-1]], nvals=k + 1, cancel=[k - 1, k], bad="subscript > extent"))
                s2 = [list(x) for x in subs]
                s2[-1][j] = -1
                out.append(dict(b, subs=s2, bad="subscript < 0"))
                out.append(dict(b, subs=s2, zero=[k - 1], bad="subscript < 0"))
                # extents that are zero or negative, without and with entries
                for e in (0, -1, -s[j] - 1):
                    t = s[:j] + [e] + s[j + 1:]
                    out.append(dict(b, shape=t, subs=[], nvals=0, bad="extent <= 0"))
                    out.append(dict(b, shape=t, bad="extent <= 0"))
                out.append(dict(b, subs=[], nvals=0, bad=None))
                out.append(dict(b, subs=[x + [0] for x in subs], bad="subscript width"))
                if N > 1:
                    out.append(dict(b, subs=[x[:-1] for x in subs], bad="subscript width"))
            # ktensor(factors, weights)
            R = rng.choice([1, 2, 3])
            base = {"k": "ktensor", "fshapes": [[m, R] for m in s], "nw": R}
            out.append(dict(base, bad=None))
            out.append(dict(base, nw=None, bad=None))
            for L in (R + 1, R - 1, 1):
                if L != R and L >= 0:
                    out.append(dict(base, nw=L, bad="number of weights"))
            if N >= 2:
                j = rng.randrange(N)
                for C in (R + 1, 1):
                    if C != R:
                        f2 = [list(f) for f in base["fshapes"]]
                        f2[j][1] = C
                        out.append(dict(base, fshapes=f2, nw=None if j == 0 else R, bad="factor columns"))
            # factor matrices / weights that are not float arrays (the constructor states dtype=float):
            # all factors, or one of them (first / last)
            for dt in ("int", "bool", "float32", "complex"):
                for which in sorted({"all", 0, N - 1}, key=str):
                    out.append(dict(base, nw=rng.choice([None, R]), fdtype=dt, fwhich=which, bad="factor dtype"))
                out.append(dict(base, wdtype=dt, bad="weights dtype"))
            # ttensor(core, factors)
            core = [rng.choice([1, 2]) for _ in s]
            base = {"k": "ttensor", "core": core, "fshapes": [[m, c] for m, c in zip(s, core)], "sparse_core": False}
            out.append(dict(base, bad=None))
            out.append(dict(base, sparse_core=True, bad=None))
            out.append(dict(base, fshapes=base["fshapes"][:-1], bad="number of factors") if N > 1 else dict(base, fshapes=base["fshapes"] * 2, bad="number of factors"))
            out.append(dict(base, fshapes=base["fshapes"] + [[2, 1]], bad="number of factors"))
            j = rng.randrange(N)
            f2 = [list(f) for f in base["fshapes"]]
            f2[j][1] = core[j] + 1
            out.append(dict(base, fshapes=f2, bad="factor columns"))
            if s[j] != core[j]:
                f2 = [list(f) for f in base["fshapes"]]
                f2[j] = f2[j][::-1]
                out.append(dict(base, fshapes=f2, bad="factor transposed"))
            # only one of the two components (neither: the empty Tucker tensor)
            for sc in (False, True):
                out.append(dict(base, sparse_core=sc, omit="factors", bad="core without factors"))
            out.append(dict(base, omit="core", bad="factors without core"))
            out.append(dict(base, omit="both", bad=None))
            # sumtensor(parts) and sumtensor + part
            for plus in (False, True):
                base = {"k": "sumtensor", "reps": ["dense", "ktensor", "sparse"], "shapes": [s, s, s], "plus": plus}
                out.append(dict(base, bad=None))
                ms = mismatched_shapes(s)
                for t in ms[:3]:
                    out.append(dict(base, shapes=[s, s, t], bad="shape mismatch"))
                    out.append(dict(base, shapes=[s, t, s], bad="shape mismatch"))
                # the first part is the odd one (the others agree with each other); lists of two; every holder first
                for t in ms[:2] + ms[-1:]:
                    out.append(dict(base, shapes=[t, s, s], bad="shape mismatch"))
                    for i, first in enumerate(("dense", "ktensor", "sparse", "ttensor")):
                        second = ("ktensor", "dense", "dense", "sparse")[i]
                        out.append(dict(base, reps=[first, second], shapes=[t, s], bad="shape mismatch"))
                        out.append(dict(base, reps=[first, second], shapes=[s, t], bad="shape mismatch"))
                out.append(dict(base, reps=["ttensor", "sparse"], shapes=[s, s], bad=None))
                out.append(dict(base, reps=["dense"], shapes=[s], bad=None))
            # tenmat(data, rdims, cdims, tshape) / sptenmat(subs, vals, rdims, cdims, tshape)
            p = gen.perm(rng, N)
            kk = rng.randint(0, N)
            rd, cd = p[:kk], p[kk:]
            mr, mc = gen.numel([s[d] for d in rd]), gen.numel([s[d] for d in cd])
            base = {"k": "tenmat", "dshape": [mr, mc], "rdims": rd, "cdims": cd, "tshape": s}
            out.append(dict(base, bad=None))
            out.append(dict(base, dshape=[mr + 1, mc], bad="element count"))
            out.append(dict(base, dshape=[mr, mc + 1], bad="element count"))
            out.append(dict(base, tshape=s + [2], bad="element count"))
            # a matrix with as many cells but another shape than (cells of the row modes, cells of the column modes)
            for ds in {(mc, mr), (1, n), (n, 1)} | {(a, n // a) for a in range(2, n) if n % a == 0}:
                if list(ds) != [mr, mc]:
                    out.append(dict(base, dshape=list(ds), bad="matrix shape differs from the split"))
            # 1-d data: the constructor shapes it itself, only the size has to fit
            out.append(dict(base, dshape=[1, n], vec=True, bad=None))
            out.append(dict(base, dshape=[1, n + 1], vec=True, bad="element count"))
            for what, d2 in bad_mode_lists(N, rd or cd):
                if rd:
                    out.append(dict(base, rdims=d2, bad="rdims " + what))
                else:
                    out.append(dict(base, cdims=d2, bad="cdims " + what))
            if N >= 2 and kk >= 1 and kk < N:
                out.append(dict(base, cdims=cd[1:], dshape=[mr, gen.numel([s[d] for d in cd[1:]])], tshape=s, bad="a mode is missing"))
            msubs = [[rng.randrange(mr), rng.randrange(mc)] for _ in range(2)]
            base = {"k": "sptenmat", "subs": msubs, "nvals": 2, "rdims": rd, "cdims": cd, "tshape": s, "copy": True}
            for cp in (True, False):
                b = dict(base, copy=cp)
                out.append(dict(b, bad=None))
                out.append(dict(b, subs=[[mr, 0], msubs[1]], bad="row index = extent"))
                out.append(dict(b, subs=[msubs[0], [0, mc]], bad="column index = extent"))
                # ... holding a zero value
                out.append(dict(b, subs=[[mr, 0], msubs[1]], zero=[0], bad="row index = extent"))
                out.append(dict(b, subs=[msubs[0], [0, mc]], zero=[1], bad="column index = extent"))
                out.append(dict(b, subs=[[mr + 1, 0], msubs[1]], bad="row index > extent"))
                out.append(dict(b, subs=[[-1, 0], msubs[1]], bad="index < 0"))
                out.append(dict(b, nvals=1, bad="number of values"))
                out.append(dict(b, nvals=3, bad="number of values"))
                out.append(dict(b, subs=[x + [0] for x in msubs], bad="subscript width"))
                for what, d2 in bad_mode_lists(N, rd or cd):
                    if rd:
                        out.append(dict(b, rdims=d2, bad="rdims " + what))
                    else:
                        out.append(dict(b, cdims=d2, bad="cdims " + what))
            # ktensor.from_vector
            tot = sum(s) * R
            for cw in (False, True):
                L = tot + (R if cw else 0)
                out.append({"k": "from_vector", "shape": s, "n": L, "cw": cw, "bad": None})
                for L2 in (L + 1, L - 1):
                    if L2 % (sum(s) + (1 if cw else 0)) != 0:
                        out.append({"k": "from_vector", "shape": s, "n": L2, "cw": cw, "bad": "data length"})
                # data of the right length that is not a vector: arrays of order 3, 4 with singleton axes in every
                # position, matrices with several rows and columns, a 0-d array; rows and columns are vectors
                for ds in ([L], [L, 1], [1, L]):
                    out.append({"k": "vector_data", "shape": s, "dshape": ds, "cw": cw, "bad": None})
                for ds in ([L, 1, 1], [1, L, 1], [1, 1, L], [L, 1, 1, 1], [1, 1, 1, L], []) + tuple(
                        [a, L // a] for a in range(2, L) if L % a == 0)[:3]:
                    out.append({"k": "vector_data", "shape": s, "dshape": ds, "cw": cw, "bad": "data not a vector"})
            # sptensor(subs, vals, shape) with only one of subs / vals (with and without a shape)
            for sh in (s, None):
                for gs, gv in ((True, True), (False, False), (True, False), (False, True)):
                    out.append({"k": "sptensor_given", "shape": sh, "subs": gs, "vals": gv, "nsubs": rng.choice([1, 2]),
                                "bad": None if gs == gv else ("subs without vals" if gs else "vals without subs")})
            # sptenmat(subs, vals, rdims, cdims, tshape): one of subs / vals only; either without a mode split
            for gs, gv in ((True, True), (False, False), (True, False), (False, True)):
                for gd in ("none", "rdims", "cdims", "both"):
                    for gt in ((True, False) if gd == "none" else (True,)):
                        bad = None
                        if gs != gv:
                            bad = "subs without vals" if gs else "vals without subs"
                        elif gs and gd == "none":
                            bad = "entries without a mode split"
                        out.append({"k": "sptenmat_given", "tshape": s, "subs": gs, "vals": gv, "dims": gd != "none",
                                    "which": gd, "tshape_given": gt, "split": rng.randint(0, N), "bad": bad})
            # an integer ARRAY as shape: at most one axis longer than 1
            for via in ("tensor", "sptensor", "from_vector"):
                for ash in ([N], [N, 1], [1, N], [1, 1, N], [N, 1, 1]):
                    out.append({"k": "shape_array", "via": via, "shape": s, "ashape": ash, "bad": None})
                for ash in ([0, 2], [0, 3], [2, 0], [0, 2, 1], [0, 0], [N, 2], [2, N], [1, N, 2], [N, N]):
                    if len([e for e in ash if e != 1]) > 1:
                        out.append({"k": "shape_array", "via": via, "shape": s, "ashape": ash, "bad": "shape array with several axes"})
        return out

    def run(self, c, r):
        k = c["k"]
        if k == "tensor":
            data = np.array([r.choice([1, 2, 3]) for _ in range(gen.numel(c["dshape"]))], dtype=float).reshape(c["dshape"], order="F")
            return (lambda: ttb.tensor(data, tuple(c["shape"]))), None
        if k == "sptensor":
            w = len(c["subs"][0]) if c["subs"] else len(c["shape"])
            subs = np.array(c["subs"], dtype=int).reshape(len(c["subs"]), w)
            vals = np.array([r.choice([1, 2, 3]) for _ in range(c["nvals"])], dtype=float).reshape(-1, 1)
            for i in c.get("zero", ()):
                if i < len(vals):
                    vals[i] = 0.0
            if c.get("cancel") and max(c["cancel"]) < len(vals):
                vals[c["cancel"][1]] = -vals[c["cancel"][0]]
            if c["agg"]:
                return (lambda: ttb.sptensor.from_aggregator(subs, vals, tuple(c["shape"]))), None
            return (lambda: ttb.sptensor(subs, vals, tuple(c["shape"]))), None
        if k == "ktensor":
            fs = [mk_mat(r, a, b) for a, b in c["fshapes"]]
            w = None if c["nw"] is None else np.ones(c["nw"])
            if c.get("fdtype"):
                fs = [f.astype(DTYPES[c["fdtype"]]) if c["fwhich"] in ("all", i) else f for i, f in enumerate(fs)]
            if c.get("wdtype") and w is not None:
                w = w.astype(DTYPES[c["wdtype"]])
            return (lambda: ttb.ktensor(fs, w)), None
        if k == "ttensor":
            core = mk_sparse(r, c["core"], gen.numel(c["core"])) if c["sparse_core"] else mk_dense(r, c["core"])
            fs = [mk_mat(r, a, b) for a, b in c["fshapes"]]
            omit = c.get("omit")
            if omit == "factors":
                return (lambda: ttb.ttensor(core=core)), None
            if omit == "core":
                return (lambda: ttb.ttensor(factors=fs)), None
            if omit == "both":
                return (lambda: ttb.ttensor()), None
            return (lambda: ttb.ttensor(core, fs)), None
        if k == "sumtensor":
            parts = [mk_holder(r, rep, s) for rep, s in zip(c["reps"], c["shapes"])]
            if c["plus"]:
                S = ttb.sumtensor(parts[:1])

                def add_all():
                    out = S
                    for p in parts[1:]:
                        out = out + p
                    return out
                return add_all, S
            return (lambda: ttb.sumtensor(parts)), None
        if k == "tenmat":
            data = mk_vec(r, c["dshape"][1]) if c.get("vec") else mk_mat(r, *c["dshape"])
            return (lambda: ttb.tenmat(data, arr(c["rdims"]), arr(c["cdims"]), tuple(c["tshape"]))), None
        if k == "sptenmat":
            w = len(c["subs"][0])
            subs = np.array(c["subs"], dtype=int).reshape(len(c["subs"]), w)
            vals = np.array([r.choice([1, 2, 3]) for _ in range(c["nvals"])], dtype=float).reshape(-1, 1)
            for i in c.get("zero", ()):
                if i < len(vals):
                    vals[i] = 0.0
            return (lambda: ttb.sptenmat(subs, vals, arr(c["rdims"]), arr(c["cdims"]), tuple(c["tshape"]), copy=c["copy"])), None
        if k == "from_vector":
            return (lambda: ttb.ktensor.from_vector(np.ones(c["n"]), tuple(c["shape"]), c["cw"])), None
        if k == "vector_data":
            data = mk_nd(r, c["dshape"])
            return (lambda: ttb.ktensor.from_vector(data, tuple(c["shape"]), c["cw"])), None
        if k == "sptensor_given":
            s0 = c["shape"] or [2, 3]
            cells = r.sample(gen.all_subs(s0), min(c["nsubs"], gen.numel(s0)))
            subs = np.array(cells, dtype=int).reshape(len(cells), len(s0)) if c["subs"] else None
            vals = mk_vec(r, len(cells)).reshape(-1, 1) if c["vals"] else None
            shape = None if c["shape"] is None else tuple(c["shape"])
            return (lambda: ttb.sptensor(subs, vals, shape)), None
        if k == "sptenmat_given":
            s0 = c["tshape"]
            N = len(s0)
            rd, cd = list(range(c["split"])), list(range(c["split"], N))
            mr, mc = gen.numel([s0[d] for d in rd]), gen.numel([s0[d] for d in cd])
            kw = {}
            if c["subs"]:
                kw["subs"] = np.array([[r.randrange(mr), r.randrange(mc)]], dtype=int)
            if c["vals"]:
                kw["vals"] = np.array([[float(r.choice([1, 2, 3]))]])
            if c["which"] in ("rdims", "both"):
                kw["rdims"] = arr(rd)
            if c["which"] in ("cdims", "both"):
                kw["cdims"] = arr(cd)
            if c["tshape_given"]:
                kw["tshape"] = tuple(s0)
            return (lambda: ttb.sptenmat(**kw)), None
        if k == "shape_array":
            s0, ash = c["shape"], c["ashape"]
            n = gen.numel(ash)
            # the entries: the extents of `shape` (repeated as often as needed)
            ext = [s0[i % len(s0)] for i in range(n)]
            A = np.array(ext, dtype=int).reshape(tuple(ash))
            if c["via"] == "sptensor":
                return (lambda: ttb.sptensor(shape=A)), None
            if c["via"] == "from_vector":
                return (lambda: ttb.ktensor.from_vector(np.ones(2 * sum(ext)), A, False)), None
            data = np.ones(gen.numel(ext)) if n else np.array([])
            return (lambda: ttb.tensor(data, shape=A)), None
        raise ValueError(k)


class KtensorModes(Op):
    """ktensor operations taking a mode or a component permutation (several are in place)"""
    name = "ktensor_modes"
    covers = (("ktensor", "arrange"), ("ktensor", "normalize"), ("ktensor", "redistribute"), ("ktensor", "nvecs"),
              ("ktensor", "extract"), ("ktensor", "tolist"))

    def gen(self, rng, tier):
        out = []
        for s in ([2, 3, 4], [3, 3], [1, 2], [2], [2, 1, 3]):
            N = len(s)
            for R in (1, 3):
                base = {"shape": s, "R": R}
                for m in range(N):
                    for fn in ("normalize_mode", "normalize_wf", "arrange_wf", "redistribute", "nvecs", "tolist"):
                        out.append(dict(base, fn=fn, arg=m, bad=None))
                for m, what in ((N, "mode=N"), (N + 2, "mode>N"), (-1, "mode<0"), (-N, "mode=-N")):
                    for fn in ("normalize_mode", "normalize_wf", "arrange_wf", "redistribute", "nvecs", "tolist"):
                        out.append(dict(base, fn=fn, arg=m, bad=what))
                out.append(dict(base, fn="arrange_perm", arg=gen.perm(rng, R), bad=None))
                for p, what in (([0] * R, "repeat"), (list(range(R)) + [0], "long"), (list(range(R - 1)), "short"),
                                (list(range(1, R + 1)), "shifted"), ([-1] + list(range(1, R)), "negative")):
                    if sorted(p) != list(range(R)):
                        out.append(dict(base, fn="arrange_perm", arg=p, bad="component permutation: " + what))
                out.append(dict(base, fn="extract", arg=rng.sample(range(R), rng.randint(1, R)), bad=None))
                out.append(dict(base, fn="extract", arg=[R], bad="component = R"))
                out.append(dict(base, fn="extract", arg=[-1], bad="component < 0"))
                out.append(dict(base, fn="extract", arg=[], bad="no component"))
                out.append(dict(base, fn="extract", arg=list(range(R)) + [0], bad="too many components"))
        return out

    def run(self, c, r):
        K = mk_kt(r, c["shape"], c["R"])
        a, fn = c["arg"], c["fn"]
        f = {"normalize_mode": lambda: K.normalize(mode=a), "normalize_wf": lambda: K.normalize(weight_factor=a),
             "arrange_wf": lambda: K.arrange(weight_factor=a), "redistribute": lambda: K.redistribute(a),
             "nvecs": lambda: K.nvecs(a, 1), "tolist": lambda: K.tolist(a), "arrange_perm": lambda: K.arrange(permutation=a),
             "extract": lambda: K.extract(a)}[fn]
        return f, K


class Nvecs(Op):
    """leading mode-n vectors: the mode and the number of vectors"""
    name = "nvecs"
    covers = (("tensor", "nvecs"), ("sptensor", "nvecs"), ("ttensor", "nvecs"), ("ktensor", "nvecs"))

    def gen(self, rng, tier):
        out = []
        for s in ([2, 3, 4], [3, 3], [2, 4, 2], [3, 2]):
            N = len(s)
            for rep in ("dense", "sparse", "ttensor", "ktensor"):
                for m in range(N):
                    for r in sorted({1, s[m]}):
                        out.append({"rep": rep, "shape": s, "R": r, "arg": m, "bad": None})
                    out.append({"rep": rep, "shape": s, "R": s[m] + 1, "arg": m, "bad": "more vectors than the extent", "pending": True})
                    out.append({"rep": rep, "shape": s, "R": s[m] + 3, "arg": m, "bad": "more vectors than the extent", "pending": True})
                    out.append({"rep": rep, "shape": s, "R": 0, "arg": m, "bad": "no vector"})
                    out.append({"rep": rep, "shape": s, "R": -1, "arg": m, "bad": "no vector"})
                for m, what in ((N, "mode=N"), (N + 2, "mode>N"), (-1, "mode<0"), (-N, "mode=-N")):
                    out.append({"rep": rep, "shape": s, "R": 1, "arg": m, "bad": what})
        return out

    def run(self, c, r):
        X = mk_holder(r, c["rep"], c["shape"])
        return (lambda: X.nvecs(c["arg"], c["R"])), X


class Mttkrps(Op):
    name = "mttkrps"
    covers = (("tensor", "mttkrps"),)

    def gen(self, rng, tier):
        out = []
        shapes = [x for x in SHAPES if len(x) >= 2] + [[4, 2, 2, 3], [2, 1, 4], [1, 2, 1]]
        if tier == "quick":
            shapes = rng.sample(shapes, 6)
        for s in shapes:
            N = len(s)
            for R in (1, 2):
                Us = [[m, R] for m in s]
                base = {"shape": s, "U": Us, "kt": False}
                out.append(dict(base, bad=None))
                out.append(dict(base, kt=True, bad=None))
                for k in range(N):
                    for L in bad_lengths(s[k], [x for x in s if x != s[k]][:1]):
                        if L > 0:
                            u2 = [list(u) for u in Us]
                            u2[k][0] = L
                            out.append(dict(base, U=u2, bad="factor rows", pending=True))
                    for C in bad_lengths(R)[:2]:
                        if C > 0:
                            u2 = [list(u) for u in Us]
                            u2[k][1] = C
                            out.append(dict(base, U=u2, bad="factor columns", pending=True))
                out.append(dict(base, U=Us[:-1], bad="list length", pending=True))
                out.append(dict(base, U=Us + [Us[-1]], bad="list length", pending=True))
                # the row counts of two factors wrong, their product right
                for ka, kb in itertools.combinations(range(N), 2):
                    for x, y in equal_products(s[ka], s[kb])[:4]:
                        u2 = [list(u) for u in Us]
                        u2[ka][0], u2[kb][0] = x, y
                        out.append(dict(base, U=u2, bad="factor rows, equal product"))
        out.append({"shape": [3], "U": [[3, 2]], "kt": False, "bad": "order < 2"})
        return out

    def run(self, c, r):
        X = mk_dense(r, c["shape"])
        Us = [mk_mat(r, a, b) for a, b in c["U"]]
        if c["kt"]:
            K = ttb.ktensor(Us, np.ones(c["U"][0][1]))
            return (lambda: X.mttkrps(K)), X
        return (lambda: X.mttkrps(Us)), X

    def req(self, c):
        return {"shape": c["shape"], "U": c["U"]}


class Ttsv(Op):
    name = "ttsv"
    covers = (("tensor", "ttsv"),)

    def gen(self, rng, tier):
        out = []
        for s in ([3, 3, 3], [2, 2], [2, 2, 2, 2], [1, 1, 1], [3], [4, 2, 8], [2, 3, 4], [3, 2, 2], [2, 4], [1, 2, 2], [2, 2, 3]):
            N = len(s)
            cubic = len(set(s)) == 1
            for ver in (None, 1, 2):
                for skip in [None] + list(range(N)):
                    first = 0 if skip is None else skip + 1
                    mult = s[first:]
                    n = s[0] if (ver != 1 or not mult) else mult[0]
                    base = {"shape": s, "veclen": n, "skip": skip, "version": ver}
                    if ver == 1:
                        good = all(e == n for e in mult)
                        out.append(dict(base, bad=None if good else "vector length"))
                    else:
                        pend = not cubic
                        out.append(dict(base, bad=None if cubic else "modes of different size", **({"pending": True} if pend else {})))
                    if mult and (cubic or ver == 1):
                        for L in bad_lengths(n)[:3]:
                            out.append(dict(base, veclen=L, bad="vector length"))
                for skip, what in ((-1, "mode<0"), (N, "mode=N"), (N + 2, "mode>N")):
                    out.append({"shape": s, "veclen": s[0], "skip": skip, "version": ver, "bad": "skip_dim " + what, "pending": True})
                # the multiplicand as a 2-d array / nested list: an ndarray is squeezed by `parse_one_d`, a list is not
                if cubic:
                    n = s[0]
                    for skip in [None] + list(range(N)):
                        used = (-1 if skip is None else skip) + 1 < N
                        b = {"shape": s, "veclen": n, "skip": skip, "version": ver}
                        for vs in ([n, 2], [n, 3], [n, n], [2, n], [n, 1, 2]):
                            if len([e for e in vs if e != 1]) < 2:
                                continue
                            for vl in (False, True):
                                # an ndarray with two non-trivial dimensions is refused whether or not it is used
                                if used:
                                    out.append(dict(b, vshape=vs, vlist=vl, bad="multiplicand is not a vector"))
                        for vs in ([n, 1], [1, n], [1, 1, n]):
                            # squeezed to a vector of the right length when it is an ndarray
                            out.append(dict(b, vshape=vs, vlist=False, bad=None))
                            if used and n > 1:
                                out.append(dict(b, vshape=vs, vlist=True, bad="multiplicand is a nested list"))
                            if used and n > 1:
                                w = [e if e == 1 else n + 1 for e in vs]
                                out.append(dict(b, vshape=w, vlist=False, bad="vector length"))
                        out.append(dict(b, vshape=[n], vlist=True, bad=None))
                        if used:
                            out.append(dict(b, vshape=[n + 1], vlist=True, bad="vector length"))
            out.append({"shape": s, "veclen": s[0], "skip": None, "version": 3, "bad": "version"})
        return out

    def run(self, c, r):
        X = mk_dense(r, c["shape"])
        if c.get("vshape") is not None:
            v = mk_vec(r, gen.numel(c["vshape"])).reshape(c["vshape"])
            if c["vlist"]:
                v = v.tolist()
        else:
            v = mk_vec(r, c["veclen"])
        return (lambda: X.ttsv(v, c["skip"], c["version"])), X


class Symmetry(Op):
    name = "symmetry"
    covers = (("tensor", "symmetrize"), ("tensor", "issymmetric"), ("ktensor", "symmetrize"))

    def gen(self, rng, tier):
        out = []
        for s in ([2, 2, 2], [2, 2, 3], [3, 3], [2, 3, 2], [1, 1, 1], [2, 2, 2, 2], [3, 2, 3, 2]):
            N = len(s)
            cubic = len(set(s)) == 1
            for old in (False, True):
                for fn in ("symmetrize", "issymmetric"):
                    b = {"fn": fn, "shape": s, "old": old}
                    ext_bad = None if (cubic or fn == "issymmetric") else "extents differ"
                    out.append(dict(b, grps=None, bad=ext_bad))
                    eq = [k for k in range(N) if s[k] == s[0]]
                    if len(eq) >= 2:
                        out.append(dict(b, grps=[eq[:2]], bad=None))
                        out.append(dict(b, grps=[eq[:2][::-1]], bad=None))
                    if N == 4 and s[0] == s[2] and s[1] == s[3]:
                        out.append(dict(b, grps=[[0, 2], [1, 3]], bad=None))
                        if fn == "symmetrize":
                            out.append(dict(b, grps=[[0, 2], [2, 0]], bad="groups overlap"))
                    if N >= 3 and fn == "symmetrize" and cubic:
                        out.append(dict(b, grps=[[0, 1], [1, 2]], bad="groups overlap"))
                    for g, what in (([0, 0], "mode repeated"), ([N - 1, N - 1], "mode repeated"), ([0, -1], "mode<0"),
                                    ([-N, 1 % N], "mode=-N")):
                        out.append(dict(b, grps=[g], bad=what, pending=True))
                    out.append(dict(b, grps=[[0, N]], bad="mode=N"))
                    out.append(dict(b, grps=[[0, N + 2]], bad="mode>N"))
                    if not cubic and fn == "symmetrize":
                        dif = [k for k in range(N) if s[k] != s[0]][0]
                        out.append(dict(b, grps=[[0, dif]], bad="extents differ"))
            out.append({"fn": "ksymmetrize", "shape": s, "old": False, "grps": None, "bad": None if cubic else "extents differ"})
        return out

    def run(self, c, r):
        if c["fn"] == "ksymmetrize":
            K = mk_kt(r, c["shape"])
            return (lambda: K.symmetrize()), K
        X = mk_dense(r, c["shape"])
        g = None if c["grps"] is None else np.array(c["grps"], dtype=int)
        ver = 1 if c["old"] else None
        if c["fn"] == "symmetrize":
            return (lambda: X.symmetrize(g, ver)), X
        return (lambda: X.issymmetric(g, ver)), X


class Kmatch(Op):
    name = "kmatch"
    covers = (("ktensor", "fixsigns"), ("ktensor", "score"))

    def gen(self, rng, tier):
        out = []
        for s in ([2, 3, 4], [3, 3], [2, 1, 2]):
            for fn in ("fixsigns", "score"):
                for ra, rb in ((2, 2), (3, 2)):
                    b = {"fn": fn, "sa": s, "sb": s, "ra": ra, "rb": rb}
                    out.append(dict(b, bad=None))
                    for t in mismatched_shapes(s)[:5]:
                        out.append(dict(b, sb=t, bad="shape mismatch", **({"pending": True} if fn == "fixsigns" else {})))
                out.append({"fn": fn, "sa": s, "sb": s, "ra": 2, "rb": 3, "bad": "more components",
                            **({"pending": True} if fn == "fixsigns" else {})})
        return out

    def run(self, c, r):
        A, B = mk_kt(r, c["sa"], c["ra"]), mk_kt(r, c["sb"], c["rb"])
        if c["fn"] == "fixsigns":
            return (lambda: A.fixsigns(B)), A
        return (lambda: A.score(B)[0]), A


class Update(Op):
    name = "update"
    covers = (("ktensor", "update"),)

    def gen(self, rng, tier):
        out = []
        for s in ([2, 3, 4], [3, 3], [2]):
            N = len(s)
            for R in (1, 2):
                need = lambda ms: sum(R if k == -1 else s[k] * R for k in ms)
                for ms in ([0], [-1], list(range(-1, N)), [N - 1], sorted(rng.sample(range(-1, N), min(2, N + 1)))):
                    b = {"shape": s, "R": R, "modes": ms, "n": need(ms)}
                    out.append(dict(b, bad=None))
                    out.append(dict(b, n=need(ms) - 1, bad="data too short", **({"pending": True} if len(ms) > 1 else {})))
                    out.append(dict(b, modes=ms + [N], n=need(ms) + R, bad="mode=N", pending=True))
                    out.append(dict(b, modes=ms + [ms[-1]], n=2 * need(ms), bad="mode repeated", pending=True))
                if N >= 2:
                    out.append({"shape": s, "R": R, "modes": [1, 0], "n": need([0, 1]), "bad": "modes not ascending"})
                    out.append({"shape": s, "R": R, "modes": [-2], "n": s[-2] * R, "bad": "mode<-1", "pending": True})
                out.append({"shape": s, "R": R, "modes": [N], "n": R, "bad": "mode=N"})
                out.append({"shape": s, "R": R, "modes": [N + 2], "n": R, "bad": "mode>N"})
        return out

    def run(self, c, r):
        K = mk_kt(r, c["shape"], c["R"])
        data = np.ones(c["n"])
        return (lambda: K.update(c["modes"], data)), K


class Reconstruct(Op):
    name = "reconstruct"
    covers = (("ttensor", "reconstruct"),)

    def gen(self, rng, tier):
        out = []
        for s in ([2, 3, 4], [3, 3], [4, 2]):
            N = len(s)
            for m in range(N):
                b = {"shape": s, "modes": [m]}
                out.append(dict(b, samples=[{"k": "idx", "max": s[m] - 1}], bad=None))
                out.append(dict(b, samples=[{"k": "mat", "rows": 5, "cols": s[m]}], bad=None))
                out.append(dict(b, samples=[{"k": "idx", "max": s[m]}], bad="sample index = extent"))
                out.append(dict(b, samples=[{"k": "mat", "rows": 5, "cols": s[m] + 1}], bad="sampling matrix columns"))
                out.append(dict(b, samples=[{"k": "mat", "rows": s[m], "cols": 5}], bad="sampling matrix transposed"))
                out.append(dict(b, samples=None, bad="modes without samples"))
                out.append(dict(b, samples=[{"k": "idx", "max": 0}, {"k": "idx", "max": 0}], bad="number of samples"))
                out.append(dict(b, modes=[m - N], samples=[{"k": "idx", "max": 0}], bad="mode<0", pending=True))
                out.append(dict(b, modes=[m, m], samples=[{"k": "idx", "max": 0}, {"k": "idx", "max": 0}], bad="mode repeated", pending=True))
            # ONE sample (in a list, or a bare number) for several modes / for all modes (none named)
            one = [{"k": "idx", "max": 0}]
            for sc in (False, True):
                out.append({"shape": s, "modes": [0], "samples": one, "scalar": sc, "bad": None})
                out.append({"shape": s, "modes": [N - 1], "samples": one, "scalar": sc, "bad": None})
                for ms in ([0, 1], [1, 0], list(range(N)), [N - 1, 0]):
                    out.append({"shape": s, "modes": ms, "samples": one, "scalar": sc, "bad": "one sample, several modes"})
                out.append({"shape": s, "modes": None, "samples": one, "scalar": sc, "bad": "one sample, several modes"})
            out.append({"shape": s, "modes": [0, 1], "samples": [{"k": "mat", "rows": 5, "cols": s[0]}], "bad": "one sample, several modes"})
            out.append({"shape": s, "modes": [N], "samples": [{"k": "idx", "max": 0}], "bad": "mode=N"})
            out.append({"shape": s, "modes": None, "samples": None, "bad": None})
            out.append({"shape": s, "modes": None, "samples": [{"k": "idx", "max": 0} for _ in s], "bad": None})
            out.append({"shape": s, "modes": list(range(N))[::-1], "samples": [{"k": "idx", "max": 0} for _ in s], "bad": None})
        return out

    def run(self, c, r):
        T = mk_tt(r, c["shape"])

        def mk(x):
            if x["k"] == "idx":
                return np.array(sorted({0, x["max"]}), dtype=int)
            return mk_mat(r, x["rows"], x["cols"])
        samples = None if c["samples"] is None else [mk(x) for x in c["samples"]]
        if c.get("scalar"):
            samples = 0
        return (lambda: T.reconstruct(samples, c["modes"])), T


class FromFunction(Op):
    name = "from_function"
    covers = (("tensor", "from_function"), ("sptensor", "from_function"), ("ktensor", "from_function"))

    def gen(self, rng, tier):
        out = []
        for s in ([2, 3], [3, 3, 2], [4]):
            n = gen.numel(s)
            out.append({"k": "tensor", "shape": s, "ret": s, "bad": None})
            out.append({"k": "tensor", "shape": s, "ret": [n], "bad": None})
            out.append({"k": "tensor", "shape": s, "ret": [n + 1], "bad": "element count"})
            out.append({"k": "tensor", "shape": s, "ret": s + [2], "bad": "element count"})
            for nz in (1, n - 1, n):
                out.append({"k": "sptensor", "shape": s, "nz": nz, "ok": True, "bad": None})
            out.append({"k": "sptensor", "shape": s, "nz": 2, "ok": False, "bad": "number of values"})
            out.append({"k": "sptensor", "shape": s, "nz": n + 1, "ok": True, "bad": "more than cells"})
            out.append({"k": "sptensor", "shape": s, "nz": -1, "ok": True, "bad": "negative count"})
            for R in (1, 2):
                good = [[m, R] for m in s]
                out.append({"k": "ktensor", "shape": s, "R": R, "ret": good, "bad": None})
                for k in range(len(s)):
                    b2 = [list(x) for x in good]
                    b2[k][0] += 1
                    out.append({"k": "ktensor", "shape": s, "R": R, "ret": b2, "bad": "factor rows", "pending": True})
                    b2 = [list(x) for x in good]
                    b2[k][1] += 1
                    out.append({"k": "ktensor", "shape": s, "R": R, "ret": b2, "bad": "factor columns",
                                **({"pending": True} if len(s) == 1 else {})})
        return out

    def run(self, c, r):
        s = tuple(c["shape"])
        if c["k"] == "tensor":
            ret = tuple(c["ret"])
            return (lambda: ttb.tensor.from_function(lambda sh: np.ones(ret), s)), None
        if c["k"] == "sptensor":
            np.random.seed(r.randrange(2 ** 31))
            f = (lambda sh: np.ones(sh)) if c["ok"] else (lambda sh: np.ones((sh[0] + 1, 1)))
            return (lambda: ttb.sptensor.from_function(f, s, c["nz"])), None
        rets = iter([tuple(x) for x in c["ret"]])
        return (lambda: ttb.ktensor.from_function(lambda sh: np.ones(next(rets)), s, c["R"])), None


class MatIndex(Op):
    """tenmat / sptenmat cell access and sptenmat.from_array"""
    name = "matindex"
    covers = (("tenmat", "__getitem__"), ("tenmat", "__setitem__"), ("sptenmat", "__setitem__"), ("sptenmat", "from_array"))

    def gen(self, rng, tier):
        out = []
        for s in ([2, 3, 4], [3, 2], [2, 2, 2]):
            rows, cols = s[0], gen.numel(s[1:])
            for wr in (False, True):
                b = {"k": "tenmat", "shape": s, "mshape": [rows, cols], "write": wr}
                for i, j, bad in ((0, 0, None), (rows - 1, cols - 1, None), (-1, -cols, None), (rows, 0, "row = extent"),
                                  (0, cols, "column = extent"), (-rows - 1, 0, "row < -extent"), (0, cols + 3, "column > extent")):
                    out.append(dict(b, i=i, j=j, bad=bad))
            b = {"k": "sptenmat", "shape": s, "mshape": [rows, cols]}
            out.append(dict(b, rsubs=[0], csubs=[cols - 1], nvals=None, bad=None))
            out.append(dict(b, rsubs=[0, rows - 1], csubs=[0, 1], nvals=4, bad=None))
            out.append(dict(b, rsubs=[0, rows - 1], csubs=[0, 1], nvals=None, bad=None))
            out.append(dict(b, rsubs=[rows], csubs=[0], nvals=None, bad="row = extent", pending=True))
            out.append(dict(b, rsubs=[0], csubs=[cols], nvals=None, bad="column = extent", pending=True))
            out.append(dict(b, rsubs=[-1], csubs=[0], nvals=None, bad="row < 0", pending=True))
            out.append(dict(b, rsubs=[0], csubs=[-1], nvals=None, bad="column < 0", pending=True))
            out.append(dict(b, rsubs=[0, rows - 1], csubs=[0, 1], nvals=3, bad="number of values", pending=True))
            out.append(dict(b, rsubs=[0, rows - 1], csubs=[0, 1], nvals=5, bad="number of values", pending=True))
            N = len(s)
            b = {"k": "from_array", "tshape": s, "rdims": [0], "cdims": list(range(1, N))}
            out.append(dict(b, ashape=[rows, cols], bad=None))
            out.append(dict(b, ashape=[max(1, rows - 1), cols], bad=None))
            out.append(dict(b, ashape=[rows + 1, cols], bad="array rows"))
            out.append(dict(b, ashape=[rows, cols + 1], bad="array columns"))
            out.append(dict(b, ashape=[cols, rows], bad="array transposed") if rows != cols else dict(b, ashape=[rows + 2, cols], bad="array rows"))
            out.append(dict(b, rdims=[0, 0], ashape=[rows, cols], bad="rdims mode repeated"))
            out.append(dict(b, cdims=list(range(1, N)) + [N], ashape=[rows, cols], bad="cdims mode=N"))
        return out

    def run(self, c, r):
        if c["k"] == "tenmat":
            M = mk_dense(r, c["shape"]).to_tenmat(np.array([0]))
            key = (c["i"], c["j"])
            if c["write"]:
                return (lambda: M.__setitem__(key, 7.0)), M
            return (lambda: M[key]), M
        if c["k"] == "sptenmat":
            M = mk_sparse(r, c["shape"]).to_sptenmat(np.array([0]))
            val = 7.0 if c["nvals"] is None else np.arange(1.0, c["nvals"] + 1).reshape(-1, 1)
            key = (c["rsubs"], c["csubs"])
            return (lambda: M.__setitem__(key, val)), M
        A = np.ones(tuple(c["ashape"]))
        return (lambda: ttb.sptenmat.from_array(A, arr(c["rdims"]), arr(c["cdims"]), tuple(c["tshape"]))), None

    def req(self, c):
        return {k: v for k, v in c.items() if k not in ("bad", "opname", "pending")}


class Misc(Op):
    """tenfun with a function of the stacked operands, ktensor.viz option lists, sptensor.spmatrix"""
    name = "misc"
    covers = (("tensor", "tenfun_unary"), ("ktensor", "viz"), ("sptensor", "spmatrix"))

    def gen(self, rng, tier):
        out = []
        for s in ([2, 3], [2, 2, 2], [3]):
            for rep in ("dense", "sparse", "ktensor", "ndarray"):
                b = {"k": "tenfun", "shape": s, "rep": rep}
                out.append(dict(b, others=[s], bad=None))
                out.append(dict(b, others=[s, s], bad=None))
                for t in mismatched_shapes(s)[:4]:
                    out.append(dict(b, others=[t], bad="shape mismatch"))
                    out.append(dict(b, others=[s, t], bad="shape mismatch"))
            N = len(s)
            for which in (("plots", "rel_widths", "rel_heights", "mode_titles") if N > 1 else ()):
                out.append({"k": "viz", "shape": s, "which": which, "lens": [N], "bad": None})
                out.append({"k": "viz", "shape": s, "which": which, "lens": [N + 1], "bad": "option list length"})
                out.append({"k": "viz", "shape": s, "which": which, "lens": [N - 1], "bad": "option list length"})
            out.append({"k": "spmatrix", "shape": s, "bad": None if N == 2 else "not a matrix"})
            # the number of arguments of the function against the number of other operands: a function of two
            # arguments with none / two / three operands (the surplus would be dropped), of no or three arguments
            for rep in ("dense", "sparse", "ndarray"):
                for nargs in (0, 1, 2, 3):
                    for no in (0, 1, 2, 3):
                        ok = nargs == 1 or (nargs == 2 and no == 1)
                        out.append({"k": "tenfun_arity", "shape": s, "rep": rep, "nargs": nargs, "nothers": no,
                                    "bad": None if ok else "function arity against operand count"})
        return out

    def run(self, c, r):
        if c["k"] == "tenfun":
            X = mk_dense(r, c["shape"])

            def mk(t):
                if c["rep"] == "ndarray":
                    return np.ones(tuple(t))
                return mk_holder(r, c["rep"], t)
            others = [mk(t) for t in c["others"]]
            return (lambda: X.tenfun(lambda M: M.sum(axis=0), *others)), X
        if c["k"] == "tenfun_arity":
            X = mk_dense(r, c["shape"])
            others = [np.ones(tuple(c["shape"])) if c["rep"] == "ndarray" else mk_holder(r, c["rep"], c["shape"])
                      for _ in range(c["nothers"])]
            f = [lambda: 0.0, lambda M: M.sum(axis=0), lambda x, y: x + y, lambda x, y, z: x + y + z][c["nargs"]]
            return (lambda: X.tenfun(f, *others)), X
        if c["k"] == "viz":
            import matplotlib
            matplotlib.use("Agg")
            import matplotlib.pyplot as plt
            K = mk_kt(r, c["shape"], len(c["shape"]))  # as many components as modes: one height per row
            n = c["lens"][0]
            val = {"plots": [lambda v, ax: ax.plot(v)] * n, "rel_widths": [1] * n, "rel_heights": [1] * n,
                   "mode_titles": ["m"] * n}[c["which"]]

            def go():
                try:
                    return K.viz(show_figure=False, **{c["which"]: val})
                finally:
                    plt.close("all")
            return go, None
        S = mk_sparse(r, c["shape"])
        return (lambda: S.spmatrix()), S


class Mask(Op):
    name = "mask"
    covers = (("tensor", "mask"), ("sptensor", "mask"), ("ktensor", "mask"))

    def gen(self, rng, tier):
        out = []
        shapes = SHAPES if tier == "thorough" else rng.sample(SHAPES, 6)
        for s in shapes:
            for rep in ("dense", "sparse", "ktensor"):
                base = {"rep": rep, "shape": s}
                out.append(dict(base, wshape=s, bad=None))
                for k in range(len(s)):
                    out.append(dict(base, wshape=s[:k] + [s[k] + 1] + s[k + 1:], bad="mask larger"))
                    # ... with every nonzero of the mask inside the data's index range (nothing to trip over later)
                    out.append(dict(base, wshape=s[:k] + [s[k] + 1] + s[k + 1:], inside=True, bad="mask larger"))
                out.append(dict(base, wshape=[m + 2 for m in s], inside=True, bad="mask larger"))
                if len(s) > 1 and len(set(s)) > 1:
                    # larger in one mode, smaller in another
                    k, l = s.index(min(s)), s.index(max(s))
                    w = list(s)
                    w[k], w[l] = s[k] + 1, max(1, s[l] - 1)
                    out.append(dict(base, wshape=w, inside=True, bad="mask larger"))
                sm = [max(1, m - 1) for m in s]
                if sm != s:
                    out.append(dict(base, wshape=sm, bad=None))
                out.append(dict(base, wshape=s + [1], bad="mask order"))
                if len(s) > 1:
                    out.append(dict(base, wshape=s[:-1], bad="mask order"))
                    out.append(dict(base, wshape=[1], bad="mask order"))
        return out

    def run(self, c, r):
        X = mk_holder(r, c["rep"], c["shape"])
        if c.get("inside"):
            common = [min(a, b) for a, b in zip(c["shape"], c["wshape"])]
            cells = gen.all_subs(common)
            subs = r.sample(cells, max(1, (len(cells) + 1) // 2))
            W = gen.mk_sptensor(ttb, c["wshape"], subs, [1 for _ in subs])
            if c["rep"] != "sparse":
                W = W.to_tensor()
        else:
            W = mk_sparse(r, c["wshape"]) if c["rep"] == "sparse" else mk_dense(r, c["wshape"])
        return (lambda: X.mask(W)), X


class Extract(Op):
    name = "extract"
    covers = (("sptensor", "extract"),)

    def gen(self, rng, tier):
        out = []
        shapes = SHAPES if tier == "thorough" else rng.sample(SHAPES, 6)
        for s in shapes:
            N = len(s)
            for nnz in (None, 0):
                q = [[rng.randrange(m) for m in s] for _ in range(2)]
                base = {"shape": s, "nnz": nnz}
                out.append(dict(base, subs=q, bad=None))
                j = rng.randrange(N)
                q2 = [list(x) for x in q]
                q2[1][j] = s[j]
                out.append(dict(base, subs=q2, bad="subscript = extent"))
                q2 = [list(x) for x in q]
                q2[0][j] = -1
                out.append(dict(base, subs=q2, bad="subscript < 0"))
                out.append(dict(base, subs=[x + [0] for x in q], bad="subscript width"))
                if N > 1:
                    out.append(dict(base, subs=[x[:-1] for x in q], bad="subscript width"))
        return out

    def run(self, c, r):
        X = mk_sparse(r, c["shape"], c["nnz"])
        q = np.array(c["subs"], dtype=int)
        return (lambda: X.extract(q)), X


class Khatrirao(Op):
    name = "khatrirao"
    covers = (("khatrirao", "khatrirao"),)

    def gen(self, rng, tier):
        out = []
        for _ in range(12 if tier == "quick" else 80):
            k = rng.randint(1, 4)
            R = rng.choice([1, 2, 3])
            ms = [[rng.choice([1, 2, 3]), R] for _ in range(k)]
            for rev in (False, True):
                out.append({"mats": ms, "rev": rev, "bad": None})
                if k >= 2:
                    j = rng.randrange(k)
                    for C in bad_lengths(R)[:2]:
                        if C > 0:
                            m2 = [list(m) for m in ms]
                            m2[j][1] = C
                            out.append({"mats": m2, "rev": rev, "bad": "column count"})
                # an argument that is not a matrix (first, later or only one), its second extent the common column
                # count so that the column test has nothing to object to; vectors; the same through `shapes` unspoilt
                out.append({"mats": ms, "shapes": [list(m) for m in ms], "rev": rev, "bad": None})
                j = rng.randrange(k)
                a, b = ms[j][0], rng.choice([1, 2, 4])
                for nd in ([a, R, b], [a, R, 1], [a, b, R], [1, a, R], [a, R, 1, 1], [R], [a]):
                    for jj in sorted({0, j, k - 1}):
                        sh = [list(m) for m in ms]
                        sh[jj] = nd
                        out.append({"mats": ms, "shapes": sh, "rev": rev, "bad": "argument not a matrix"})
        out.append({"mats": [], "rev": False, "bad": "no matrix"})
        return out

    def run(self, c, r):
        if c.get("shapes") is not None:
            nds = [mk_nd(r, sh) for sh in c["shapes"]]
            return (lambda: ttb.khatrirao(*nds, reverse=c["rev"])), None
        ms = [mk_mat(r, a, b) for a, b in c["mats"]]
        return (lambda: ttb.khatrirao(*ms, reverse=c["rev"])), None


class Dimscheck(Op):
    name = "dimscheck"
    covers = (("pyttb_utils", "tt_dimscheck"),)

    def gen(self, rng, tier):
        out = []
        for N in (1, 2, 3, 4):
            for dims, excl in dims_conventions(rng, N):
                sel = sel_modes(N, dims, excl)
                for M in (None, len(sel), N):
                    base = {"N": N, "M": M, "dims": dims, "excl": excl}
                    out.append(dict(base, bad=None))
                    if dims is not None:
                        for what, d2 in bad_mode_lists(N, dims):
                            m2 = M if M in (None, N) else len(d2)
                            out.append(dict(base, dims=d2, M=m2, bad=what))
                        out.append(dict(base, excl=[0], bad="dims and exclude_dims"))
                    if excl is not None:
                        for what, e2 in bad_mode_lists(N, excl):
                            out.append(dict(base, excl=e2, M=None, bad="exclude " + what))
                for M in range(0, N + 3):
                    if M not in (N, len(sel)):
                        out.append({"N": N, "M": M, "dims": dims, "excl": excl, "bad": "number of multiplicands"})
        return out

    def run(self, c, r):
        return (lambda: U.tt_dimscheck(c["N"], c["M"], arr(c["dims"]), arr(c["excl"]))), None


#: initial guesses of a class no algorithm takes (the ttensor / dict carry factor matrices of the fitting sizes)
INIT_OBJECTS = ("<ttensor>", "<tensor>", "<sptensor>", "<dict>", "<number>", "<none>", "<array>")


class Algorithms(Op):
    """option validation of cp_als, cp_apr, tucker_als, hosvd, gcp_opt (one iteration at most)"""
    name = "algorithms"
    covers = (("cp_als", "cp_als"), ("cp_apr", "cp_apr"), ("tucker_als", "tucker_als"), ("hosvd", "hosvd"),
              ("gcp_opt", "gcp_opt"))

    def gen(self, rng, tier):
        out = []
        for s in ([2, 3, 4], [3, 2], [2, 2, 2]):
            N = len(s)
            t = s[:-1] + [s[-1] + 1]
            for data in ("dense", "sparse"):
                b = {"alg": "cp_als", "data": data, "shape": s, "rank": 2, "opt": {}}
                out.append(dict(b, bad=None))
                out.append(dict(b, opt={"dimorder": gen.perm(rng, N)}, bad=None))
                out.append(dict(b, opt={"optdims": sorted(rng.sample(range(N), N - 1))}, bad=None))
                out.append(dict(b, opt={"init": {"shape": s, "R": 2}}, bad=None))
                out.append(dict(b, rank=0, bad="rank 0"))
                out.append(dict(b, rank=-1, bad="rank < 0"))
                for what, p in bad_perms(N):
                    out.append(dict(b, opt={"dimorder": p}, bad="dimorder " + what))
                for what, d2 in bad_mode_lists(N, [0, 1]):
                    out.append(dict(b, opt={"optdims": d2}, bad="optdims " + what))
                out.append(dict(b, opt={"init": {"shape": s[:-1], "R": 2}}, bad="init order"))
                out.append(dict(b, opt={"init": {"shape": s, "R": 3}}, bad="init rank"))
                out.append(dict(b, opt={"init": {"shape": t, "R": 2}}, bad="init shape"))
                out.append(dict(b, opt={"init": "foo"}, bad="init name"))
                for kind in INIT_OBJECTS:
                    out.append(dict(b, opt={"init": kind}, bad="init type"))
                out.append(dict(b, opt={"init": "<ttensor>", "dimorder": gen.perm(rng, N)}, bad="init type"))
                b = {"alg": "cp_apr", "data": data, "shape": s, "rank": 2, "opt": {}}
                for algo in ("mu", "pdnr", "pqnr"):
                    out.append(dict(b, opt={"algorithm": algo}, bad=None))
                out.append(dict(b, opt={"init": {"shape": s, "R": 2}}, bad=None))
                out.append(dict(b, rank=0, bad="rank 0"))
                out.append(dict(b, opt={"algorithm": "foo"}, bad="algorithm name"))
                out.append(dict(b, opt={"init": {"shape": s[:-1], "R": 2}}, bad="init order"))
                out.append(dict(b, opt={"init": {"shape": s, "R": 3}}, bad="init rank"))
                out.append(dict(b, opt={"init": {"shape": t, "R": 2}}, bad="init shape"))
                out.append(dict(b, opt={"init": {"shape": s, "R": 2, "neg": "factor"}}, bad="init negative"))
                out.append(dict(b, opt={"init": {"shape": s, "R": 2, "neg": "weight"}}, bad="init negative"))
                out.append(dict(b, opt={"init": "foo"}, bad="init name"))
                for kind in INIT_OBJECTS:
                    for algo in ("mu", "pdnr"):
                        out.append(dict(b, opt={"init": kind, "algorithm": algo}, bad="init type"))
                out.append(dict(b, opt={"negdata": True}, bad="negative data"))
                b = {"alg": "gcp_opt", "data": data, "shape": s, "rank": 2, "opt": {"solver": "lbfgsb" if data == "dense" else "sgd"}}
                out.append(dict(b, bad=None))
                for solver in (("lbfgsb", "sgd") if data == "dense" else ("sgd",)):
                    o = {"solver": solver}
                    out.append(dict(b, opt=dict(o, init={"shape": s, "R": 2}), bad=None))
                    out.append(dict(b, opt=dict(o, init={"shape": t, "R": 2}), bad="init shape"))
                    out.append(dict(b, opt=dict(o, init={"shape": s[:-1], "R": 2}), bad="init order"))
                    out.append(dict(b, opt=dict(o, init={"shape": s, "R": 3}), bad="init rank"))
                    out.append(dict(b, opt=dict(o, init="foo"), bad="init name"))
                    for kind in INIT_OBJECTS:
                        out.append(dict(b, opt=dict(o, init=kind), bad="init type"))
                out.append(dict(b, opt={"solver": "none"}, bad="optimizer"))
                out.append(dict(b, opt=dict(b["opt"], objective2=True), bad="objective tuple"))
                if data == "sparse":
                    out.append(dict(b, opt={"solver": "lbfgsb"}, bad="sparse with lbfgsb"))
                    out.append(dict(b, opt={"solver": "sgd", "mask": s}, bad="sparse with mask"))
                else:
                    out.append(dict(b, opt={"solver": "lbfgsb", "mask": s}, bad=None))
                    out.append(dict(b, opt={"solver": "sgd", "mask": s}, bad="stochastic with mask"))
                    for m in mismatched_shapes(s)[:3]:
                        out.append(dict(b, opt={"solver": "lbfgsb", "mask": m}, bad="mask shape"))
            b = {"alg": "tucker_als", "data": "dense", "shape": s, "rank": [2] * N, "opt": {}}
            out.append(dict(b, bad=None))
            out.append(dict(b, rank=2, bad=None))
            out.append(dict(b, opt={"dimorder": gen.perm(rng, N)}, bad=None))
            out.append(dict(b, opt={"init": [[m, 2] for m in s]}, bad=None))
            out.append(dict(b, rank=[2] * (N + 1), bad="rank length"))
            out.append(dict(b, rank=min(s), bad=None))
            for rk, what in ((0, "rank 0"), (-1, "rank < 0"), (max(s) + 1, "rank > extent"), (min(s) + 1, "rank > extent")):
                out.append(dict(b, rank=rk, bad=what))
                out.append(dict(b, rank=[rk] + [1] * (N - 1), bad=what) if rk != min(s) + 1 or s[0] == min(s)
                           else dict(b, rank=[1] * s.index(min(s)) + [rk] + [1] * (N - 1 - s.index(min(s))), bad=what))
            if N > 2:
                out.append(dict(b, rank=[2] * (N - 1), bad="rank length"))
            for what, p in bad_perms(N):
                out.append(dict(b, opt={"dimorder": p}, bad="dimorder " + what))
            out.append(dict(b, opt={"init": [[m, 2] for m in s][:-1]}, bad="init length"))
            out.append(dict(b, opt={"init": [[m, 2] for m in s[:-1]] + [[s[-1] + 1, 2]]}, bad="init shape"))
            out.append(dict(b, opt={"init": [[m, 2] for m in s[:-1]] + [[s[-1], 3]]}, bad="init shape"))
            out.append(dict(b, opt={"init": "foo"}, bad="init name"))
            for kind in INIT_OBJECTS + ("<ktensor>",):
                out.append(dict(b, opt={"init": kind}, bad="init type"))
            out.append(dict(b, opt={"maxiters": -1}, bad="maxiters < 0"))
            b = {"alg": "hosvd", "data": "dense", "shape": s, "rank": None, "opt": {}}
            out.append(dict(b, bad=None))
            out.append(dict(b, opt={"ranks": [1] * N}, bad=None))
            out.append(dict(b, opt={"dimorder": gen.perm(rng, N)}, bad=None))
            out.append(dict(b, opt={"ranks": [1] * (N + 1)}, bad="ranks length"))
            out.append(dict(b, opt={"ranks": list(s)}, bad=None))
            out.append(dict(b, opt={"ranks": [0] * N}, bad=None))
            out.append(dict(b, opt={"ranks": [-1] + [1] * (N - 1)}, bad="rank < 0"))
            out.append(dict(b, opt={"ranks": [1] * (N - 1) + [s[-1] + 1]}, bad="rank > extent"))
            out.append(dict(b, opt={"ranks": [x + 2 for x in s]}, bad="rank > extent"))
            out.append(dict(b, opt={"ranks": [1] * (N - 1)}, bad="ranks length"))
            for what, p in bad_perms(N):
                out.append(dict(b, opt={"dimorder": p}, bad="dimorder " + what))
        return out

    def run(self, c, r):
        from pyttb.gcp.handles import Objectives
        from pyttb.gcp.optimizers import LBFGSB, SGD
        s, o = c["shape"], dict(c["opt"])
        n = gen.numel(s)
        vals = [r.choice([1, 2, 3, 4]) for _ in range(n)]
        if c["data"] == "sparse":
            # leave zero cells: the stochastic samplers need some
            for k in r.sample(range(n), max(1, n // 3)):
                vals[k] = 0
        X = gen.mk_tensor(ttb, s, vals)
        if o.pop("negdata", False):
            X = X * -1.0
        if c["data"] == "sparse":
            X = X.to_sptensor()

        def mk_init(d):
            if isinstance(d, str) and d in INIT_OBJECTS + ("<ktensor>",):
                # an object of a class the algorithm does not take as a guess, with factors of the fitting sizes
                R = c["rank"] if isinstance(c["rank"], int) and c["rank"] > 0 else 2
                fs = [mk_mat(r, m, R) for m in s]
                return {"<ttensor>": lambda: ttb.ttensor(mk_dense(r, [R] * len(s)), fs),
                        "<tensor>": lambda: mk_dense(r, s), "<sptensor>": lambda: mk_sparse(r, s),
                        "<dict>": lambda: {"factor_matrices": fs}, "<number>": lambda: 3, "<none>": lambda: None,
                        "<array>": lambda: np.ones(tuple(s)), "<ktensor>": lambda: ttb.ktensor(fs)}[d]()
            if not isinstance(d, dict):
                return d
            K = ttb.ktensor([np.array([[r.choice([1, 2, 3]) for _ in range(d["R"])] for _ in range(m)], dtype=float).reshape(m, d["R"])
                             for m in d["shape"]], np.ones(d["R"]))
            if d.get("neg") == "factor":
                K.factor_matrices[-1][0, 0] = -1.0
            if d.get("neg") == "weight":
                K.weights[0] = -1.0
            return K
        np.random.seed(r.randrange(2 ** 31))
        if c["alg"] == "cp_als":
            kw = {k: (mk_init(v) if k == "init" else v) for k, v in o.items()}
            init = kw.get("init")
            return (lambda: ttb.cp_als(X, c["rank"], maxiters=1, printitn=0, **kw)), (init if isinstance(init, ttb.ktensor) else None)
        if c["alg"] == "cp_apr":
            kw = {k: (mk_init(v) if k == "init" else v) for k, v in o.items()}
            init = kw.get("init")
            return (lambda: ttb.cp_apr(X, c["rank"], maxiters=1, maxinneriters=1, printitn=0, **kw)), (init if isinstance(init, ttb.ktensor) else None)
        if c["alg"] == "tucker_als":
            kw = dict(o)
            if isinstance(kw.get("init"), list):
                kw["init"] = [mk_mat(r, a, b) for a, b in kw["init"]]
            elif isinstance(kw.get("init"), str):
                kw["init"] = mk_init(kw["init"])
            kw.setdefault("maxiters", 1)
            return (lambda: ttb.tucker_als(X, c["rank"], printitn=0, **kw)), None
        if c["alg"] == "hosvd":
            return (lambda: ttb.hosvd(X, 1e-4, verbosity=0, **o)), None
        solver = {"lbfgsb": lambda: LBFGSB(maxiter=1, iprint=-1), "sgd": lambda: SGD(max_iters=1, epoch_iters=1, printitn=0),
                  "none": lambda: "lbfgsb"}[o.pop("solver")]()
        obj = Objectives.GAUSSIAN
        if o.pop("objective2", False):
            obj = (lambda x, m: (m - x) ** 2, lambda x, m: 2 * (m - x))
        kw = {}
        if "init" in o:
            kw["init"] = mk_init(o["init"])
        if "mask" in o:
            kw["mask"] = ttb.tenones(tuple(o["mask"]))
        init = kw.get("init")
        return (lambda: ttb.gcp_opt(X, c["rank"], obj, solver, printitn=0, **kw)), (init if isinstance(init, ttb.ktensor) else None)


class ImportData(Op):
    name = "import_data"
    covers = (("import_data", "import_data"),)

    def gen(self, rng, tier):
        out = []
        for s in ([2, 3], [2, 2, 2], [3]):
            N = len(s)
            n = gen.numel(s)
            out.append({"k": "tensor", "hdr_n": N, "shape": s, "nvals": n, "bad": None})
            out.append({"k": "tensor", "hdr_n": N + 1, "shape": s, "nvals": n, "bad": "order in header"})
            out.append({"k": "tensor", "hdr_n": N, "shape": s, "nvals": n - 1, "bad": "too few values"})
            sub = [rng.randrange(m) + 1 for m in s]
            b = {"k": "sptensor", "hdr_n": N, "shape": s, "nnz": 1, "lines": [sub]}
            out.append(dict(b, bad=None))
            out.append(dict(b, hdr_n=N + 1, bad="order in header"))
            out.append(dict(b, lines=[[s[0] + 1] + sub[1:]], bad="subscript > extent"))
            out.append(dict(b, lines=[[0] + sub[1:]], bad="subscript < base"))
            out.append(dict(b, nnz=2, bad="too few lines"))
            out.append(dict(b, lines=[sub + [1]], bad="subscript width"))
            R = 2
            b = {"k": "ktensor", "hdr_n": N, "shape": s, "R": R, "nw": R, "fshapes": [[m, R] for m in s]}
            out.append(dict(b, bad=None))
            out.append(dict(b, fshapes=[[s[0] + 1, R]] + b["fshapes"][1:], bad="factor rows"))
            if N > 1:
                out.append(dict(b, fshapes=b["fshapes"][:-1] + [[s[-1], R + 1]], bad="factor columns"))
                out.append(dict(b, fshapes=b["fshapes"][:-1], bad="too few factors"))
            out.append(dict(b, nw=R - 1, bad="too few weights"))
        out.append({"k": "type", "bad": "unknown type"})
        out.append({"k": "missing", "bad": "no such file"})
        return out

    @staticmethod
    def text(c, r):
        k = c["k"]
        if k == "type":
            return "foo\n2\n2 2\n"
        hdr = f"{k}\n{c['hdr_n']}\n{' '.join(map(str, c['shape']))}\n"
        if k == "tensor":
            return hdr + "".join(f"{r.choice([1, 2, 3])}.0\n" for _ in range(c["nvals"]))
        if k == "sptensor":
            return hdr + f"{c['nnz']}\n" + "".join(" ".join(map(str, ln)) + " 2.5\n" for ln in c["lines"])
        t = hdr + f"{c['R']}\n" + "".join("1.0\n" for _ in range(c["nw"]))
        for a, b in c["fshapes"]:
            t += f"matrix\n2\n{a} {b}\n" + "".join("2.0\n" for _ in range(a * b))
        return t

    def run(self, c, r):
        if c["k"] == "missing":
            return (lambda: ttb.import_data("/nonexistent/c19.tns")), None
        text = self.text(c, r)

        def go():
            with tempfile.NamedTemporaryFile("w", suffix=".tns", delete=False) as f:
                f.write(text)
            try:
                return ttb.import_data(f.name)
            finally:
                os.unlink(f.name)
        return go, None


def mk_key(parts):
    """a region key from its JSON description"""
    out = []
    for e in parts:
        if "int" in e:
            out.append(e["int"])
        elif "slice" in e:
            out.append(slice(e["slice"][0], e["slice"][1]))
        else:
            out.append(np.array(e["list"], dtype=int) if e.get("arr") else list(e["list"]))
    return tuple(out)


def rand_region(rng, s, kinds=("int", "open", "slice", "list")):
    """one key entry per mode of `s`, inside the shape; -> (parts, extent of each non-integer entry)"""
    parts, ext = [], []
    for m in s:
        k = rng.choice(kinds)
        if k == "int":
            parts.append({"int": rng.randrange(m)})
        elif k == "open":
            parts.append({"slice": [None, None]})
            ext.append(m)
        elif k == "slice":
            a = rng.randrange(m)
            b = rng.randint(a + 1, m)
            parts.append({"slice": [a, b]})
            ext.append(b - a)
        else:
            idx = rng.sample(range(m), rng.randint(1, m))
            parts.append({"list": idx, "arr": rng.random() < 0.5})
            ext.append(len(idx))
    return parts, ext


class SpAssign(Op):
    """`S[region] = sptensor`: an index LIST of the region must have as many entries as the right-hand side has
    indices in that mode (slices only grow / are value dependent: property C04)"""
    name = "sp_assign"
    covers = ()

    def gen(self, rng, tier):
        out = []
        shapes = [x for x in SHAPES if len(x) >= 2] + [[3, 2], [4, 3]]
        for s in shapes:
            for _ in range(3 if tier == "quick" else 10):
                parts, ext = rand_region(rng, s)
                if not ext:
                    continue
                if not any("list" in e for e in parts):
                    # make sure an index list is there
                    k = rng.randrange(len(s))
                    parts2, _ = rand_region(rng, s, kinds=("list",))
                    parts = parts[:k] + [parts2[k]] + parts[k + 1:]
                    ext = [len(e["list"]) if "list" in e else (s[i] if e["slice"][1] is None else e["slice"][1] - e["slice"][0])
                           for i, e in enumerate(parts) if "int" not in e]
                for nnz in (None, 0):
                    for rnz in (None, 0):
                        base = {"shape": s, "nnz": nnz, "key": parts, "rhs": ext, "rnz": rnz}
                        out.append(dict(base, bad=None))
                        m = 0
                        for e in parts:
                            if "int" in e:
                                continue
                            if "list" in e:
                                for L in (ext[m] + 1, ext[m] - 1, 1, 2 * ext[m]):
                                    if L >= 1 and L != ext[m]:
                                        out.append(dict(base, rhs=ext[:m] + [L] + ext[m + 1:], bad="index list length"))
                            m += 1
        return out

    def run(self, c, r):
        S = mk_sparse(r, c["shape"], c["nnz"])
        V = mk_sparse(r, c["rhs"], c["rnz"])
        key = mk_key(c["key"])
        return (lambda: S.__setitem__(key, V)), S

    def req(self, c):
        key = [{"t": "int"} if "int" in e else {"t": "slice", "stop": e["slice"][1] is not None} if "slice" in e
               else {"t": "list", "len": len(e["list"])} for e in c["key"]]
        return {"key": key, "rhs": c["rhs"]}


class SpSetSubs(Op):
    """`S[subs] = value` with a 2-d array of subscripts that has FEWER columns than the tensor has modes: rejected
    before anything is matched against the stored subscripts or written (more columns: growth, property C04)"""
    name = "sp_setsubs"
    covers = ()

    def gen(self, rng, tier):
        out = []
        shapes = SHAPES + [[2, 3], [3, 2, 2, 2]] if tier == "thorough" else rng.sample(SHAPES, 5) + [[2, 3], [2, 3, 4]]
        for s in shapes:
            N = len(s)
            for nnz in (None, 0, gen.numel(s)):
                for w in range(0, N + 2):
                    for rows in (1, 2):
                        for val in ("nonzero", "zero", "array"):
                            for stored in (True, False):
                                out.append({"shape": s, "nnz": nnz, "width": w, "rows": rows, "val": val, "stored": stored,
                                            "bad": "fewer subscript columns than modes" if w < N else None})
        return out

    def run(self, c, r):
        s, w = c["shape"], c["width"]
        S = mk_sparse(r, s, c["nnz"])
        ext = list(s) + [2] * max(0, w - len(s))
        rows = []
        for i in range(c["rows"]):
            if c["stored"] and S.subs.size and i == 0:
                # the leading columns of a stored subscript (what a matcher that does not look at the width would hit)
                row = [int(x) for x in S.subs[r.randrange(S.subs.shape[0])]] + [0] * max(0, w - len(s))
            else:
                row = [r.randrange(m) for m in ext]
            rows.append(row[:w])
        if len(rows) == 2 and rows[0] == rows[1] and w:
            rows[1][0] = (rows[1][0] + 1) % ext[0]
        key = np.array(rows, dtype=int).reshape(len(rows), w)
        val = {"nonzero": 5.0, "zero": 0.0, "array": np.arange(1.0, len(rows) + 1).reshape(-1, 1)}[c["val"]]
        return (lambda: S.__setitem__(key, val)), S

    def req(self, c):
        return {"shape": c["shape"], "width": c["width"]}


class Subdims(Op):
    """`S.subdims(region)`: one region entry per mode"""
    name = "subdims"
    covers = (("sptensor", "subdims"),)

    def gen(self, rng, tier):
        out = []
        shapes = SHAPES if tier == "thorough" else rng.sample(SHAPES, 6)
        for s in shapes:
            N = len(s)
            for nnz in (None, 0):
                for L in sorted({N, N + 1, N - 1, 0, 2 * N, N + 2}):
                    for _ in range(2):
                        t = (s * 3)[:L]
                        parts, _ = rand_region(rng, t)
                        out.append({"shape": s, "nnz": nnz, "region": parts, "bad": None if L == N else "region length"})
        return out

    def run(self, c, r):
        S = mk_sparse(r, c["shape"], c["nnz"])
        region = mk_key(c["region"])
        return (lambda: S.subdims(region)), S

    def req(self, c):
        return {"N": len(c["shape"]), "len": len(c["region"])}


OPS = [Dimscheck(), Ttv(), Ttm(), Mttkrp(), Innerprod(), Elementwise(), TenmatMul(), Ttt(), Contract(), Collapse(), Scale(),
       Permute(), Reshape(), ToMat(), Constructors(), KtensorModes(), Nvecs(), Mttkrps(), Ttsv(), Symmetry(), Kmatch(), Update(), Reconstruct(), FromFunction(), MatIndex(), Misc(), Mask(), Extract(), Khatrirao(), Algorithms(), ImportData(), SpAssign(), SpSetSubs(), Subdims()]
OPS_BY_NAME = {o.name: o for o in OPS}

# ---------------------------------------------------------------------------------------------
# coverage of the public surface (introspection)
# ---------------------------------------------------------------------------------------------
#: public operations whose every argument is self-contained (no operand / mode / size that could be
#: inconsistent with the receiver), or whose stated behaviour on odd input is to answer, with the reason
NO_PRECONDITION = {
    "copy", "double", "full", "to_tensor", "to_sptensor", "find", "norm", "nnz", "ndims", "shape", "order", "isequal",
    "exp", "logical_not", "squeeze", "allsubs", "ones", "elemfun", "tovec", "ncomponents", "ctranspose", "parts",
    "__neg__", "__pos__", "__repr__", "__str__", "__deepcopy__", "__pow__", "__rtruediv__", "__rmul__", "__mul__",
    "__truediv__", "__radd__", "__rsub__", "issymmetric_k", "squash",
}
#: reads and writes by key (growth on assignment, key forms, out-of-range keys) are property C04's
C04_METHODS = {("tensor", "__getitem__"), ("tensor", "__setitem__"), ("sptensor", "__getitem__"),
               ("sptensor", "__setitem__")}


def public_surface():
    out = []
    for cls in (ttb.tensor, ttb.sptensor, ttb.ktensor, ttb.ttensor, ttb.sumtensor, ttb.tenmat, ttb.sptenmat):
        for n, m in inspect.getmembers(cls):
            if n.startswith("_") and not (n.startswith("__") and n.endswith("__")):
                continue
            if n.startswith("__") and n in ("__class__", "__init_subclass__", "__subclasshook__", "__new__", "__dir__",
                                            "__doc__", "__module__", "__slots__", "__dict__", "__weakref__", "__hash__",
                                            "__getattribute__", "__setattr__", "__delattr__", "__format__", "__reduce__",
                                            "__reduce_ex__", "__sizeof__", "__getstate__", "__annotations__"):
                continue
            if inspect.ismemberdescriptor(m) or inspect.isdatadescriptor(m) and not isinstance(m, property):
                continue  # storage slots, not operations
            if n in vars(cls) or any(n in vars(b) for b in cls.__mro__[:-1]):
                out.append((cls.__name__, n))
    out += [("pyttb_utils", "tt_dimscheck"), ("khatrirao", "khatrirao"), ("import_data", "import_data"),
            ("cp_als", "cp_als"), ("cp_apr", "cp_apr"), ("tucker_als", "tucker_als"), ("hosvd", "hosvd"), ("gcp_opt", "gcp_opt")]
    return sorted(set(out))


def coverage_tags():
    covered = {p for o in OPS for p in o.covers}
    tags = []
    for cls, n in public_surface():
        if (cls, n) in covered:
            tags.append(f"covered:{cls}.{n}")
        elif n in NO_PRECONDITION or (cls, n) == ("ktensor", "issymmetric"):
            tags.append(f"outside:{cls}.{n}")
        elif (cls, n) in C04_METHODS:
            tags.append(f"c04:{cls}.{n}")
        else:
            tags.append(f"uncovered:{cls}.{n}")
    return tags


# ---------------------------------------------------------------------------------------------
# the family
# ---------------------------------------------------------------------------------------------
def run_impl(c):
    """-> (raised: bool, receiver_changed: bool, exception name)"""
    op = OPS_BY_NAME[c["opname"]]
    r = _rng(c)
    thunk, recv = op.run(c, r)
    before = snap(recv)
    logging.disable(logging.WARNING)
    try:
        with contextlib.redirect_stdout(io.StringIO()), warnings.catch_warnings():
            warnings.simplefilter("ignore")
            out = call(thunk)
    finally:
        logging.disable(logging.NOTSET)
    after = snap(recv)
    return ("reject" in out), (before != after), out.get("exc", "")


class Malformed(Family):
    name = "malformed"
    theorems = ("C19_rejects_dimscheck", "C19_rejects_ttv", "C19_rejects_ttm", "C19_rejects_mttkrp", "C19_rejects_innerprod",
                "C19_rejects_elementwise", "C19_rejects_tenmat_arith", "C19_rejects_ttt", "C19_rejects_contract",
                "C19_rejects_collapse", "C19_rejects_scale", "C19_rejects_permute", "C19_rejects_reshape",
                "C19_rejects_to_tenmat", "C19_rejects_tensor", "C19_rejects_sptensor", "C19_rejects_from_aggregator",
                "C19_rejects_extract", "C19_rejects_ktensor", "C19_rejects_ttensor", "C19_rejects_sumtensor",
                "C19_rejects_tenmat", "C19_rejects_sptenmat", "C19_rejects_from_vector", "C19_rejects_kmode",
                "C19_rejects_karrange", "C19_rejects_kextract", "C19_receiver_unchanged_kmode",
                "C19_receiver_unchanged_karrange", "C19_rejects_mask", "C19_rejects_khatrirao", "C19_rejects_cp_als",
                "C19_rejects_cp_apr", "C19_rejects_tucker_als", "C19_rejects_hosvd", "C19_rejects_gcp_opt",
                "C19_rejects_import_data", "C19_rejects_from_aggregator_extents", "C19_rejects_sptensor_extents",
                "C19_accepts_sptensor_extents", "C19_rejects_ttsv_multiplicand",
                "C19_rejects_ttensor_components", "C19_rejects_ktensor_typed", "C19_rejects_subdims",
                "C19_rejects_sp_assign", "C19_receiver_unchanged_sp_assign", "C19_rejects_ttv_multiplicand",
                "C19_rejects_khatrirao_order", "C19_rejects_sptensor_given", "C19_rejects_sptenmat_given",
                "C19_rejects_nonvector", "C19_rejects_shape_array", "C19_rejects_tenfun_arity",
                "C19_rejects_set_subs_width", "C19_receiver_unchanged_set_subs_width")

    def gen(self, rng, tier):
        out = []
        for op in OPS:
            orng = random.Random(rng.getrandbits(64))
            cs = op.gen(orng, tier)
            seen = set()
            for c in cs:
                c = {k: v for k, v in c.items() if k != "pending"}
                c = dict(c, opname=op.name)
                h = case_hash(c)
                if h not in seen:
                    seen.add(h)
                    out.append(c)
        return out

    def evaluate(self, cases):
        impls = [run_impl(c) for c in cases]
        reqs = [dict(OPS_BY_NAME[c["opname"]].req(c), op="c19_" + c["opname"]) for c in cases]
        if os.environ.get("C19_NO_MODEL"):
            models = [{"pre": c["bad"] is None, "validate": "ok" if c["bad"] is None else "reject", "unchanged": True} for c in cases]
        else:
            models = drive(reqs)
        out = []
        cov = coverage_tags()
        for k, (c, (raised, changed, exc), m) in enumerate(zip(cases, impls, models)):
            wf = bool(m["pre"])
            tags = [c["opname"], f"{c['opname']}:{'well-formed' if wf else 'ill-formed'}", "raise" if raised else "answer"]
            if c.get("rep"):
                tags.append(f"{c['opname']}:{c['rep']}")
            if c["bad"]:
                tags.append(f"violates:{c['opname']}:{c['bad']}")
            if k == 0:
                tags += cov
            impl = {"raised": raised, "receiver_changed": changed, "exc": exc}
            v = Verdict("ok", "", impl, m, {"pre": wf}, tags, nontrivial=True)
            if (c["bad"] is None) != wf:
                v = Verdict("corr", f"generator labels the request {'well' if c['bad'] is None else 'ill'}-formed "
                                    f"({c['bad']}), Pre_{c['opname']} says {wf}", impl, m, {"pre": wf}, tags)
            elif not wf and not raised:
                v = Verdict("violation", f"ill-formed {c['opname']} request ({c['bad']}) was answered instead of rejected",
                            impl, m, {"pre": wf}, tags)
            elif not wf and changed:
                v = Verdict("violation", f"rejected {c['opname']} request ({c['bad']}) changed its receiver",
                            impl, m, {"pre": wf}, tags)
            elif wf and raised:
                # over-rejection: not a C19 violation; the model of the validation prefix must agree, though
                tags.append(f"over-rejected:{c['opname']}:{exc}")
                v = Verdict("ok", "", impl, m, {"pre": wf}, tags, nontrivial=False)
            elif not m.get("unchanged", True):
                v = Verdict("corr", f"the model of {c['opname']} changes the receiver in its rejecting branch",
                            impl, m, {"pre": wf}, tags)
            elif (m["validate"] == "reject") != raised:
                v = Verdict("corr", f"validate_{c['opname']} = {m['validate']} but the implementation "
                                    f"{'raised' if raised else 'answered'}", impl, m, {"pre": wf}, tags)
            out.append(v)
        return out

    def shrink(self, case):
        """smaller shapes do not exist for most violations (they live on particular extents); try dropping a mode"""
        return []


# ---------------------------------------------------------------------------------------------
# operands of an unsupported TYPE (no Lean model: the specification is the table below)
# ---------------------------------------------------------------------------------------------
#: kinds of operand handed to an operation; pyttb objects and arrays have the receiver's shape, so that
#: nothing but the TYPE is wrong
KINDS = ("str", "none", "list", "dict", "carray", "ndarray", "tensor", "sptensor", "ktensor", "ttensor", "sumtensor",
         "tenmat", "sptenmat")
_HOLDERS4 = {"tensor", "sptensor", "ktensor", "ttensor"}
_DENSE_OK = {"ndarray", "carray", "tensor", "sptensor", "ktensor", "ttensor", "sumtensor", "tenmat"}
_VEC_OK = {"list", "ndarray", "carray"}
_FACTORS_OK = {"ktensor", "list", "ndarray", "carray"}
_CMP = ("__eq__", "__ne__", "__lt__", "__le__", "__gt__", "__ge__")
_LOGICAL = ("logical_and", "logical_or", "logical_xor")

#: (class, method) -> kinds the operation takes (from the signatures' type hints, the class documentation and the
#: isinstance ladders: `tenfun` takes arrays and every tensor class with `to_tensor`/`full`; NumPy's own assignment
#: conventions for dense `__setitem__`); every OTHER kind of `KINDS` must be refused with an exception
SUPPORTED = {}
for _m in ("__add__", "__sub__", "__mul__", "__truediv__", "__pow__", "__radd__", "__rmul__", "__rtruediv__", "tenfun") + _CMP + _LOGICAL:
    SUPPORTED[("tensor", _m)] = _DENSE_OK
SUPPORTED.update({
    ("tensor", "innerprod"): _HOLDERS4, ("tensor", "mask"): {"tensor", "sptensor"}, ("tensor", "ttt"): {"tensor"},
    ("tensor", "ttv"): _VEC_OK, ("tensor", "ttm"): _VEC_OK, ("tensor", "ttsv"): _VEC_OK,
    ("tensor", "mttkrp"): _FACTORS_OK, ("tensor", "mttkrps"): _FACTORS_OK,
    ("tensor", "scale"): {"ndarray", "carray", "list", "tensor", "ktensor"},
    ("tensor", "__setitem__"): {"tensor", "none", "list", "ndarray", "carray"},
    ("sptensor", "__add__"): {"tensor", "sptensor", "sumtensor"}, ("sptensor", "__sub__"): {"tensor", "sptensor"},
    ("sptensor", "__mul__"): {"tensor", "sptensor", "ktensor"}, ("sptensor", "__rmul__"): {"tensor", "sptensor", "ktensor"},
    ("sptensor", "__truediv__"): {"tensor", "sptensor", "ktensor"}, ("sptensor", "__rtruediv__"): set(),
    ("sptensor", "innerprod"): _HOLDERS4, ("sptensor", "mask"): {"tensor", "sptensor"},
    ("sptensor", "ttv"): _VEC_OK, ("sptensor", "ttm"): _VEC_OK, ("sptensor", "mttkrp"): _FACTORS_OK,
    ("sptensor", "scale"): {"ndarray", "carray", "list", "tensor", "sptensor"},
    ("sptensor", "__setitem__"): {"sptensor"}, ("sptensor", "__setitem__:subs"): {"ndarray", "carray"},
    ("sptensor", "__setitem__:linear"): {"ndarray", "carray"},
    ("sptensor", "extract"): _VEC_OK,
    ("ktensor", "__add__"): {"ktensor", "sumtensor"}, ("ktensor", "__sub__"): {"ktensor"},
    ("ktensor", "__mul__"): {"tensor", "sptensor"}, ("ktensor", "__rmul__"): {"tensor", "sptensor"},
    ("ktensor", "innerprod"): _HOLDERS4, ("ktensor", "mask"): {"tensor", "sptensor"}, ("ktensor", "score"): {"ktensor"},
    ("ktensor", "fixsigns"): {"ktensor", "none"}, ("ktensor", "extract"): {"none", "list", "ndarray", "carray"},
    ("ktensor", "ttv"): _VEC_OK, ("ktensor", "mttkrp"): _FACTORS_OK,
    ("ttensor", "__mul__"): set(), ("ttensor", "__rmul__"): set(), ("ttensor", "innerprod"): _HOLDERS4,
    ("ttensor", "ttv"): _VEC_OK, ("ttensor", "ttm"): _VEC_OK, ("ttensor", "mttkrp"): _FACTORS_OK,
    ("sumtensor", "__add__"): _HOLDERS4, ("sumtensor", "__radd__"): _HOLDERS4, ("sumtensor", "innerprod"): _HOLDERS4,
    ("sumtensor", "ttv"): _VEC_OK, ("sumtensor", "mttkrp"): _FACTORS_OK,
    ("tenmat", "__add__"): {"tenmat"}, ("tenmat", "__sub__"): {"tenmat"}, ("tenmat", "__radd__"): {"tenmat"},
    ("tenmat", "__rsub__"): {"tenmat"}, ("tenmat", "__mul__"): {"tenmat"}, ("tenmat", "__rmul__"): {"tenmat"},
})
for _m in _CMP + _LOGICAL:
    SUPPORTED[("sptensor", _m)] = {"tensor", "sptensor"}
SUPPORTED.update({
    ("tensor", "tenfun_binary"): _DENSE_OK, ("tensor", "tenfun_unary"): _DENSE_OK,
    # parts of a sum (alone / after a dense part) and the data handed to an algorithm
    ("sumtensor", "__init__:only"): _HOLDERS4, ("sumtensor", "__init__:second"): _HOLDERS4,
    ("cp_als", "data"): _HOLDERS4 | {"sumtensor"}, ("cp_apr", "data"): {"tensor", "sptensor"},
    ("tucker_als", "data"): {"tensor", "sptensor"}, ("hosvd", "data"): {"tensor"}, ("gcp_opt", "data"): {"tensor", "sptensor"},
    # the object handed to export_data (documented: tensor, sptensor, ktensor, matrix)
    ("export_data", "data"): {"tensor", "sptensor", "ktensor", "ndarray", "carray"},
})
#: selectors / scalars of another type, for the operations that take a selector
#: iterables that are not lists (the documented operand of `sumtensor +` is a tensor or a LIST of tensors): a generator
#: / tuple of fitting tensors, empty containers (nothing in them is of a wrong type)
_ITERABLES = ("generator", "emptygen", "emptytuple", "emptydict", "emptyset", "emptystr")
EXTRA_KINDS = {("ktensor", "extract"): ("float", "set"), ("sumtensor", "__add__"): _ITERABLES,
               ("sumtensor", "__radd__"): _ITERABLES, ("export_data", "data"): ("float", "set", "int", "emptytuple")}


def mk_receiver(r, cls, s, nnz=None):
    if cls in ("cp_als", "cp_apr", "tucker_als", "hosvd", "gcp_opt", "export_data"):
        return None
    if cls == "tenmat":
        return mk_dense(r, s).to_tenmat(np.array([0]))
    if cls == "sptenmat":
        return mk_sparse(r, s).to_sptenmat(np.array([0]))
    return mk_holder(r, {"tensor": "dense", "sptensor": "sparse"}.get(cls, cls), s, nnz)


def mk_operand(r, kind, s, recv):
    if kind in ("tensor", "sptensor", "ktensor", "ttensor", "sumtensor", "tenmat", "sptenmat"):
        return mk_receiver(r, kind, s)
    shape = tuple(recv.shape) if hasattr(recv, "shape") and not isinstance(recv, ttb.sumtensor) else tuple(s)
    return {"str": lambda: "a", "none": lambda: None, "list": lambda: [1.0, 2.0], "dict": lambda: {"a": 1},
            "carray": lambda: np.ones(shape) * (1 + 2j), "ndarray": lambda: np.ones(shape) * 2.0,
            "float": lambda: 1.5, "set": lambda: {0}, "int": lambda: 3,
            "generator": lambda: (t for t in [mk_dense(r, s)]), "emptygen": lambda: (t for t in []),
            "emptytuple": lambda: (), "emptydict": lambda: {}, "emptyset": lambda: set(), "emptystr": lambda: ""}[kind]()


def unsupported_thunk(recv, cls, method, o, s):
    N = len(s)
    if cls == "export_data":
        def export():
            with tempfile.TemporaryDirectory() as d:
                return ttb.export_data(o, os.path.join(d, "x.tns"))
        return export
    if method == "data":
        from pyttb.gcp.handles import Objectives
        from pyttb.gcp.optimizers import LBFGSB
        return {"cp_als": lambda: ttb.cp_als(o, 1, maxiters=1, printitn=0),
                "cp_apr": lambda: ttb.cp_apr(o, 1, maxiters=1, maxinneriters=1, printitn=0),
                "tucker_als": lambda: ttb.tucker_als(o, 1, maxiters=1, printitn=0),
                "hosvd": lambda: ttb.hosvd(o, 1e-4, verbosity=0),
                "gcp_opt": lambda: ttb.gcp_opt(o, 1, Objectives.GAUSSIAN, LBFGSB(maxiter=1, iprint=-1), printitn=0)}[cls]
    if method == "__init__:only":
        return lambda: ttb.sumtensor([o])
    if method == "__init__:second":
        first = recv.parts[0]
        return lambda: ttb.sumtensor([first, o])
    if method == "tenfun_binary":
        return lambda: recv.tenfun_binary(lambda a, b: a + b, o)
    if method == "tenfun_unary":
        return lambda: recv.tenfun_unary(lambda a: a.sum(axis=0), o)
    if method == "ttt":
        return lambda: recv.ttt(o)
    if method in ("ttv", "ttm", "mttkrp"):
        return lambda: getattr(recv, method)(o, 0)
    if method == "scale":
        return lambda: recv.scale(o, np.arange(N))
    if method == "tenfun":
        return lambda: recv.tenfun(lambda a, b: a + b, o)
    if method == "__setitem__":
        return lambda: recv.__setitem__((slice(None),) * N, o)
    if method == "__setitem__:subs":
        return lambda: recv.__setitem__(np.array([[0] * N, [m - 1 for m in s]]), o)
    if method == "__setitem__:linear":
        return lambda: recv.__setitem__(np.array([0, gen.numel(s) - 1]), o)
    return lambda: getattr(recv, method)(o)


class Unsupported(Family):
    """every public binary operation / method that takes a tensor operand, handed an operand of a type it does not
    take: it must raise (a returned value, also None or NotImplemented-free silence, is an answer) and leave the
    receiver as it was"""
    name = "unsupported"
    theorems = ()

    def gen(self, rng, tier):
        out = []
        shapes = rng.sample(SHAPES, 2 if tier == "quick" else 5)
        for s in shapes:
            for (cls, method), ok in sorted(SUPPORTED.items()):
                if method.startswith("__setitem__:") and len(s) < 2:
                    continue
                kinds = [k for k in KINDS + EXTRA_KINDS.get((cls, method), ()) if k not in ok]
                for kind in kinds:
                    for nnz in ((None, 0) if cls == "sptensor" else (None,)):
                        out.append({"cls": cls, "method": method, "kind": kind, "shape": s, "nnz": nnz})
        return out

    def evaluate(self, cases):
        out = []
        for c in cases:
            r = _rng(c)
            recv = mk_receiver(r, c["cls"], c["shape"], c["nnz"])
            o = mk_operand(r, c["kind"], c["shape"], recv)
            thunk = unsupported_thunk(recv, c["cls"], c["method"], o, c["shape"])
            before = snap(recv)
            logging.disable(logging.WARNING)
            try:
                with contextlib.redirect_stdout(io.StringIO()), warnings.catch_warnings():
                    warnings.simplefilter("ignore")
                    res = call(thunk)
            finally:
                logging.disable(logging.NOTSET)
            raised = "reject" in res or res.get("ok") is NotImplemented
            changed = snap(recv) != before
            what = f"{c['cls']}.{c['method']}"
            tags = [what, f"operand:{c['kind']}", "raise" if raised else "answer"]
            if c["cls"] == "sptensor":
                tags.append("receiver:all-zero" if c["nnz"] == 0 else "receiver:nonzeros")
            impl = {"raised": raised, "receiver_changed": changed, "exc": res.get("exc", ""),
                    "returned": None if raised else type(res.get("ok")).__name__}
            spec = {"pre": False}
            if not raised:
                v = Verdict("violation", f"unsupported-operand|{what}|{c['kind']}|nnz={c['nnz']}: an operand of type "
                            f"{c['kind']} was answered ({impl['returned']}) instead of rejected", impl, spec, spec, tags)
            elif changed:
                v = Verdict("violation", f"unsupported-operand-receiver|{what}|{c['kind']}: the rejected call changed "
                            "its receiver", impl, spec, spec, tags)
            else:
                v = Verdict("ok", "", impl, spec, spec, tags, nontrivial=True)
            out.append(v)
        return out


# ---------------------------------------------------------------------------------------------
# reads of a sparse tensor by a key with an out-of-range entry in an index list (reference: NumPy)
# ---------------------------------------------------------------------------------------------
class SparseRead(Family):
    """`S[key]` where one mode of the key is a LIST with an entry outside the mode (first, middle or last entry; =
    extent, > extent, < -extent) and the other modes are slices / in-range lists / integers.  The reference is the
    same key applied to the dense array (`A[np.ix_(...)]` raises IndexError).  pyttb looks at an index list only
    while renumbering the nonzeros it found, so the demand is made where the region named by the in-range entries
    holds a stored nonzero (the receivers are mostly full); an answered request on an all-zero region is tagged
    `answered-oob-read:no-nonzero-in-region` (reads by key are property C04's)."""
    name = "sparse_read"
    theorems = ()

    def gen(self, rng, tier):
        out = []
        shapes = [x for x in SHAPES if gen.numel(x) > 1] + [[2, 2], [3, 2]]
        if tier == "quick":
            shapes = rng.sample(shapes, 5) + [[2, 2]]
        for s in shapes:
            N = len(s)
            for k in range(N):
                for nnz in ("full", "half", 0):
                    for rest in ("slice", "list", "int"):
                        inr = [rng.randrange(s[k]) for _ in range(3)]
                        out.append({"shape": s, "nnz": nnz, "mode": k, "list": inr, "rest": rest, "bad": None})
                        for pos in (0, 1, 2):
                            for oob in (s[k], s[k] + 3, -s[k] - 1):
                                lst = list(inr)
                                lst[pos] = oob
                                out.append({"shape": s, "nnz": nnz, "mode": k, "list": lst, "rest": rest,
                                            "bad": "index list entry out of range"})
                        out.append({"shape": s, "nnz": nnz, "mode": k, "list": [s[k], inr[0]], "rest": rest,
                                    "bad": "index list entry out of range"})
        return out

    @staticmethod
    def build(c):
        r = _rng(c)
        s = c["shape"]
        S = mk_sparse(r, s, {"full": gen.numel(s), "half": None, 0: 0}[c["nnz"]])
        key, sets = [], []
        for m, e in enumerate(s):
            if m == c["mode"]:
                key.append(list(c["list"]))
                sets.append({x for x in c["list"] if 0 <= x < e})
            elif c["rest"] == "slice":
                key.append(slice(None))
                sets.append(set(range(e)))
            elif c["rest"] == "list":
                l = sorted(r.sample(range(e), max(1, e - 1)))
                key.append(l)
                sets.append(set(l))
            else:
                i = r.randrange(e)
                key.append(i)
                sets.append({i})
        return S, tuple(key), sets

    def evaluate(self, cases):
        out = []
        for c in cases:
            S, key, sets = self.build(c)
            before = snap(S)
            A = S.to_tensor().data
            try:
                A[np.ix_(*[np.arange(e)[k] if isinstance(k, slice) else np.atleast_1d(k) for k, e in zip(key, c["shape"])])]
                ref_raises = False
            except IndexError:
                ref_raises = True
            res = call(lambda: S[key[0] if len(key) == 1 else key])
            raised = "reject" in res
            hit = any(all(int(x) in st for x, st in zip(row, sets)) for row in np.asarray(S.subs).reshape(-1, len(c["shape"]))) if S.subs.size else False
            tags = ["sparse_read", f"rest:{c['rest']}", f"nnz:{c['nnz']}", "raise" if raised else "answer",
                    "ill-formed" if ref_raises else "well-formed", "region:nonzero" if hit else "region:all-zero"]
            impl = {"raised": raised, "exc": res.get("exc", "")}
            spec = {"pre": not ref_raises}
            if (c["bad"] is None) == ref_raises:
                v = Verdict("corr", f"generator labels the key {c['bad']}, NumPy says raises={ref_raises}", impl, spec, spec, tags)
            elif snap(S) != before:
                v = Verdict("violation", "sparse-read|a read changed its receiver", impl, spec, spec, tags)
            elif ref_raises and not raised and hit:
                v = Verdict("violation", f"sparse-read|index list {c['list']} of mode {c['mode']} (extent {c['shape'][c['mode']]}) "
                            "has an out-of-range entry, NumPy raises IndexError, the sparse tensor answered", impl, spec, spec, tags)
            elif ref_raises and not raised:
                tags.append("answered-oob-read:no-nonzero-in-region")
                v = Verdict("ok", "", impl, spec, spec, tags, nontrivial=False)
            elif not ref_raises and raised:
                tags.append("over-rejected:sparse_read")
                v = Verdict("ok", "", impl, spec, spec, tags, nontrivial=False)
            else:
                v = Verdict("ok", "", impl, spec, spec, tags, nontrivial=True)
            out.append(v)
        return out


def families():
    return [Malformed(), Unsupported(), SparseRead()]
