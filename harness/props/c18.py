"""C18 — decomposition results do not depend on how the problem is presented.

PAIRED RUNS on the implementation (/repo working tree), compared with each other:
dense vs sparse data, printing intervals, equal / different global seeds, positive scale
factors, mode relabellings; plus the ties to the small Lean models of
`Alg/Presentation.lean` (draw order of random starts, printing decision, HOSVD's rank
choice, CP-APR's in-place re-normalisation) and the interface-usage check that backs
`C18_repr_independent` (which members of the data object each driver touches).

No change to /repo: output is captured, logging disabled, `np.random.uniform`,
`scipy.linalg.eigh` are wrapped (and restored in `finally`) by recording stand-ins and the
data object is replaced by a recording SUBCLASS of tensor / sptensor.
"""
from __future__ import annotations

import contextlib
import io
import itertools
import logging
import os
import sys
import warnings
from fractions import Fraction

import numpy as np
import pyttb as ttb
import scipy.linalg
from pyttb.gcp.handles import Objectives
from pyttb.gcp.optimizers import LBFGSB

from harness import lib
from harness.lib import Family, Verdict, call, deep_eq, dense_j, drive, frac, jval, strip_exc

TOL = 1e-8          # relative, model tensor and reported numbers
TOL_SCALE = 1e-6    # cp_als whole-run scale (rounding is amplified by the condition of the sweeps)
PRINTS = [0, 1, 2, 3, 7]
SCALES = [1e-9, 1e-6, 1e-3, 0.5, 3.0, 1e3, 1e6, 1e9]  # 18 orders of magnitude: absolute thresholds show only far from 1

RULE = ("paired runs of the real drivers on small planted low-rank problems (orders 2..3, 4 in thorough; distinct "
        "extents 3..7; rank 2..3; 5% noise, mixed signs for CP-ALS/Tucker/HOSVD/GCP-Gaussian, Poisson counts with "
        "zero entries and all-zero slices for CP-APR/GCP-Poisson; few outer iterations) generated from "
        "random.Random(VERIF_SEED); compared pairwise at 1e-8 relative on full() of the returned model and on the "
        "reported numbers (fit / objective / iteration counts; CP-ALS whole-run scaling at 1e-6): dense vs sparse "
        "(cp_als incl. random start, cp_apr mu/pdnr/pqnr -- two of three cases with option values other than the defaults: inner "
        "limits 2..20, precompinds / inexact on/off, epsActive 1e-8..10, mu0 1e-5..10, lbfgsMem 1..5, kappa 0.01..0.5, 8 outer "
        "iterations, stoptol 1e-7 --, tucker_als; hosvd and gcp_opt+LBFGSB refuse sparse data: "
        "dense only, the refusal itself is checked), stored order of the sparse entries shuffled; printing intervals "
        "{0,1,2,3,7} (hosvd verbosity {0,1,2,3,7,10}; cp_apr also printinneritn), sampled on generic positive guesses and "
        "ENUMERATED over driver (cp_als, cp_apr mu/pdnr/pqnr on dense and sparse data, tucker_als, hosvd, gcp_opt) x "
        "guess pattern (positive; exact zeros in the first / a middle / the last factor in rows with non-empty data; "
        "a zero column; entries below kappatol=1e-10) x interval on 3-way problems, rank >= 2, >= 3 outer iterations; "
        "CP-APR MU's kappa fix-up observed on real runs (normalize / redistribute / calculate_phi recorded) against the "
        "model op for the same guess patterns; the same NUMBERS as float64 / int64 / int32 / int16 / uint8 / float32 dense "
        "tensors from C- and F-ordered source arrays, as sparse tensors with float and with integer values, and integer data "
        "times 2 / 3 / 1000, with magnitudes at which squares and sums of squares leave the narrow dtype (uint8 60..250, int16 "
        "200..3e4, int32 3e4..1.5e9, int64 2e9..3e10), for all seven drivers (fit, iterations, ranks, model tensor); same global seed twice (bitwise, except where ARPACK's own start "
        "vector enters: 1e-8) and different seeds (different starts), the drawn matrices against the stream model; "
        "scale factors {1e-9,1e-6,1e-3,0.5,3,1e3,1e6,1e9} (absolute thresholds only show far from 1) for cp_als "
        "(3..6 outer iterations, stoptol 0 / 1e-4 / 1e-3 on the scale-free fit, given and seeded random start, dense "
        "and sparse), tucker_als (same), hosvd (sequential and not; automatic ranks at tol 3e-4..0.2 and given/mixed "
        "ranks on data with extra rank-one detail of relative size 1e-3..3e-2 so that the rank decision is sensitive): "
        "model tensor / c, fit, residual / c, chosen ranks and iteration counts against the unscaled run; not for "
        "CP-APR / GCP (Poisson / GCP losses are not scale-equivariant; with a fixed guess gcp_opt is not either); for tucker_als "
        "also the factor matrices themselves (equal) and the core (times c), with its own perturbation control; all 6 mode "
        "relabellings for N=3 and, for N=4, 3-cycles, 4-cycles (relabellings that differ from their inverse), an involution and "
        "a random one, of data, guess, ranks (Tucker ranks that differ per mode), dimorder (not ascending) and — cp_als — optdims "
        "(strict subsets in a shuffled order) and fixsigns on / off, for cp_als, tucker_als, hosvd (sequential and not) and gcp_opt "
        "(cp_apr has a fixed mode order and is excluded); for cp_als additionally the returned factor LIST and weights against "
        "the relabelling of the other run's (with fixsigns only in components with an even number / at most one negative mode, "
        "established from a run without fixsigns; otherwise the recorded finding F18-fixsigns-relabel) and the reported "
        "dimorder / optdims of both runs against the model of the option validation (c18_relabel_setup); for tucker_als the "
        "factor list (relabelled) and the core (permuted) with their own perturbation control, for tucker_als / hosvd (given, "
        "mixed and automatic ranks) the relabelled rank vector / dimorder against c18_relabel_args; relabel_cleanup: "
        "ktensor.arrange / fixsigns on generated Kruskal models with integer column norms (N=2..4, rank 1..3, repeated / distinct "
        "/ singleton extents, sign patterns all-negative / one / two / random negative dominant entries, zero columns, weights "
        "that the sort has to reorder) and on their relabelling against the exact model c18_relabel_cleanup (1e-12 and equal sign "
        "pattern) and against 'clean-up of the relabelled = relabelled clean-up'; relabel_setup: valid and malformed dimorder / "
        "optdims (duplicates, out of range, too short, empty) for a problem and its relabelling against c18_relabel_setup; "
        "relabel_ttm: permute, one mode product (plain and transposed) and the Gram matrix of an unfolding of an integer array and of "
        "its relabelling (N=2..4, 3- and 4-cycles, repeated / distinct / singleton extents, wrong matrix sizes) exactly against "
        "c18_relabel_ttm; scale_ttm: ttm(exclude_dims=n, transpose=True) and the Gram matrix of its unfolding for integer X and c X, c in "
        "{2,3,1/2,3/4,1000}, ranks that differ per mode, wrong matrix sizes and modes out of range, exactly against c18_scale_ttm. "
        "A mismatch above tolerance is a violation unless the same "
        "driver amplifies a 1e-13 / 1e-12 relative perturbation of the data (same representation) to within a factor 100 of "
        "it (tag illcond); a dense / sparse pair of cp_apr runs that agrees in every number but not in the inner iteration counts is "
        "not judged either when such a perturbation changes the counts too (some row stopped on a KKT value within rounding of "
        "stoptol). non-trivial = both runs returned a model, the problem has more than one cell per mode and "
        "the two presentations really differ; distinct = distinct case hash")
ASSUMPTIONS = [
    "IEEE rounding is not modelled: 'the same up to rounding' is measured as relative 1e-8 on small well-conditioned "
    "problems with few iterations; ill-conditioned runs are recognised by a perturbation control run and not judged",
    "that the dense and sparse kernels (mttkrp, innerprod, norm, ttm) compute the specification sums is C02's claim; "
    "C18_repr_* take it as the hypothesis 'the two data objects answer the interface alike'",
    "tensor.nvecs with r < I_n - 1 (tucker_als sweeps, cp_als/tucker_als init='nvecs') calls ARPACK eigsh without v0: "
    "its start vector comes from ARPACK's own generator, not from np.random; results are reproducible under a seed "
    "only up to rounding (observed 1e-14), so those runs are compared at 1e-8 instead of bitwise",
    "np.random.uniform(0,1,(r,c)) consumes r*c doubles of the global legacy stream and fills the matrix row by row "
    "(checked on every seeded run against RandomState(seed).uniform(size=total))",
    "float32 data: tensor.norm()/sptensor.norm() accumulate in float32 (np.linalg.norm keeps the dtype), so fit and "
    "normresidual of a float32 presentation carry float32 rounding (observed 1e-7 / 1e-4 relative; reported as a "
    "candidate): those two numbers are compared at 1e-3 for float32 pairs (model tensor at 1e-8, stop decisions not "
    "compared); every integer dtype is compared at the usual 1e-8",
    "L-BFGS-B (scipy) is a deterministic function of the objective/gradient values it is given",
    "C18_scale_cpals_run (whole-run scale equivariance of CP-ALS) is proved for the C09 model of cp_als.py in exact "
    "arithmetic, assuming both runs return, norm() != 0, the MTTKRP / innerprod interface laws (C02), the solver "
    "contract A.Y = B, and that every coefficient matrix of the unscaled run is zero or non-singular (automatic for "
    "rank 1); the paired runs check it on the implementation up to rounding",
    "C18_relabel_cpals_run (whole-run mode relabelling of CP-ALS) is proved for the C09 model in exact arithmetic from: the "
    "MTTKRP / innerprod interface laws (C02) for X and permute(X, p), mttkrp returning matrices of the documented size, the "
    "same norm(), and the linear solver being a function of the system it is handed (the second run's solver answers the "
    "request of mode k as the first run's answers that of mode p[k]); no solver contract and no regularity is needed. The "
    "factor lists are relabellings of each other when fixsigns is off or every component has an even number / at most one "
    "negative mode; otherwise only tensor, weights and reported numbers (C18_relabel_cpals_fixsigns_counterexample)",
    "C18_scale_tucker_run (whole-run scaling of Tucker-ALS) is proved for the C10 model over the reals relative to a contract "
    "of tensor.nvecs that does not mention scaling (whenever the Gram matrix has a matrix of leading eigenvectors in the "
    "sense of Tk.LeadSpec — orthonormal, eigenvectors, decreasing eigenvalues, the rest dominated, flipsign convention — the "
    "answer is one) and the hypothesis that every request of the unscaled run has exactly one admissible answer (distinct "
    "leading eigenvalues; automatic for modes of extent one); that ARPACK / LAPACK meet the contract is not proved (C14 "
    "checks it on recorded calls); C18_relabel_tucker_run uses the same contract and determinacy hypothesis, "
    "C18_relabel_hosvd assumes nothing about scipy.linalg.eigh (it is handed the same matrix in both runs)",
]
EXHAUSTIVE = {"quick": False, "thorough": False}
TRUSTED_EXTRA = ["recording subclass of tensor/sptensor (attribute access seen from frames of pyttb driver files)"]


# ----------------------------------------------------------------------------
# problems
# ----------------------------------------------------------------------------
def _rs(seed):
    return np.random.RandomState(int(seed) % (2 ** 32))


def make_problem(case):
    """-> X (ndarray), init factor list.  Explicit "X"/"init" in the case override the generator."""
    shape, R = tuple(case["shape"]), case["rank"]
    rs = _rs(case["dseed"])
    if "X" in case:
        X = np.array(case["X"], dtype=float)
        init = [np.array(a, dtype=float) for a in case["init"]]
        return X, init
    kind = case.get("kind", "gauss")
    if kind == "gauss":
        fac = [rs.uniform(0.2, 1.0, (s, R)) * rs.choice([-1.0, 1.0], (s, R)) for s in shape]
        if case.get("nonneg"):
            fac = [np.abs(f) for f in fac]
        lam = np.linspace(3.0, 1.5, R)
        X = ttb.ktensor(fac, lam).full().data.copy()
        nrm = np.linalg.norm(X)
        if case.get("detail"):
            # small-but-not-negligible extra rank-one components (relative strengths case["detail"]): the automatic
            # rank decision of hosvd is sensitive to them
            for eps in case["detail"]:
                vs = [rs.standard_normal(sh) for sh in shape]
                D = ttb.ktensor([v.reshape(-1, 1) / np.linalg.norm(v) for v in vs], np.array([1.0])).full().data
                X = X + eps * nrm * D
        X = X + case.get("noise", 0.05) * nrm / np.sqrt(X.size) * rs.standard_normal(X.shape)
        if case.get("sparsify"):
            X[rs.uniform(size=X.shape) < 0.3] = 0.0
    else:  # counts
        fac = [rs.uniform(0.2, 1.0, (s, R)) for s in shape]
        lam = rs.uniform(5, 30, R) * case.get("rate", 1.0)
        X = rs.poisson(ttb.ktensor(fac, lam).full().data).astype(float)
        zs = case.get("zero_slice")
        if zs is not None:
            idx = [slice(None)] * len(shape)
            idx[zs[0]] = zs[1]
            X[tuple(idx)] = 0.0
    init = [rs.uniform(0.1, 1.0, (s, R)) for s in shape]
    return X, init


def tucker_init(case):
    rs = _rs(case["dseed"] + 7)
    return [rs.uniform(0.0, 1.0, (s, r)) for s, r in zip(case["shape"], case["ranks"])]


def as_data(X, rep, order_seed=None):
    T = ttb.tensor(X.copy())
    if rep == "dense":
        return T
    S = T.to_sptensor()
    if order_seed is not None and S.nnz > 1:
        p = _rs(order_seed).permutation(S.nnz)
        S = ttb.sptensor(S.subs[p].copy(), S.vals[p].copy(), S.shape)
    return S


# ----------------------------------------------------------------------------
# running the drivers
# ----------------------------------------------------------------------------
@contextlib.contextmanager
def quiet():
    """capture stdout and the logging output (gcp_opt reports through `logging.info`), silence warnings."""
    buf = io.StringIO()
    root = logging.getLogger()
    old_handlers, old_level, old_disable = root.handlers[:], root.level, root.manager.disable
    h = logging.StreamHandler(buf)
    h.addFilter(lambda rec: rec.levelno < logging.WARNING)  # warnings are not governed by the printing settings
    root.handlers = [h]
    root.setLevel(logging.INFO)
    logging.disable(logging.NOTSET)
    with warnings.catch_warnings():
        warnings.simplefilter("ignore")
        with contextlib.redirect_stdout(buf):
            try:
                yield buf
            finally:
                root.handlers = old_handlers
                root.setLevel(old_level)
                logging.disable(old_disable)


def run_alg(alg, data, case, init=None, printitn=0, dimorder=None, ranks=None, seed=None, inner=0,
            optdims=None, fixsigns=True):
    """Run one driver quietly.  -> {"full": ndarray, "nums": {...}, "ints": {...}, "out": str, "init": ...}
    or {"reject": True, "exc": name}."""
    try:
        with quiet() as buf:
            if seed is not None:
                np.random.seed(seed)
            R = case["rank"]
            if alg == "cp_als":
                i0 = init if isinstance(init, str) else ttb.ktensor([a.copy() for a in init])
                M, M0, o = ttb.cp_als(data, R, init=i0, printitn=printitn, maxiters=case.get("maxiters", 5),
                                      stoptol=case.get("stoptol", 1e-4), dimorder=dimorder, optdims=optdims,
                                      fixsigns=fixsigns)
                res = {"full": M.full().data, "nums": {"fit": o["fit"], "normresidual": o["normresidual"]},
                       "ints": {"iters": o["iters"]}, "init": [f.copy() for f in M0.factor_matrices],
                       "factors": [np.array(f, copy=True) for f in M.factor_matrices],
                       "weights": np.array(M.weights, copy=True),
                       "params": {"dimorder": [int(d) for d in np.ravel(o["params"]["dimorder"])],
                                  "optdims": [int(d) for d in np.ravel(o["params"]["optdims"])]}}
            elif alg.startswith("cp_apr"):
                i0 = init if isinstance(init, str) else ttb.ktensor([a.copy() for a in init])
                M, M0, o = ttb.cp_apr(data, R, algorithm=alg.split("_")[2], init=i0, printitn=printitn,
                                      printinneritn=inner, maxiters=case.get("maxiters", 3),
                                      stoptol=case.get("stoptol", 1e-4), **case.get("apr", {}))
                kkt = np.ravel(o["kktViolations"])
                res = {"full": M.full().data, "nums": {"obj": o["obj"], "kkt": float(kkt[-1])},
                       "ints": {"outer": len(kkt)}, "inner": np.ravel(o["nInnerIters"]).tolist(),
                       "init": [f.copy() for f in M0.factor_matrices]}
            elif alg == "tucker_als":
                rk = list(ranks if ranks is not None else case["ranks"])
                i0 = init if isinstance(init, str) else [a.copy() for a in init]
                M, U0, o = ttb.tucker_als(data, rk, init=i0, printitn=printitn, maxiters=case.get("maxiters", 4),
                                          stoptol=case.get("stoptol", 1e-4), dimorder=dimorder)
                res = {"full": M.full().data, "nums": {"fit": o["fit"], "normresidual": o["normresidual"]},
                       "ints": {"iters": o["iters"]}, "init": [None if u is None else np.array(u) for u in U0],
                       "factors": [np.array(f, copy=True) for f in M.factor_matrices],
                       "core": np.array(M.core.data, copy=True)}
            elif alg == "hosvd":
                hr = ranks if ranks is not None else case.get("hranks")
                M = ttb.hosvd(data, case.get("tol", 0.2), verbosity=printitn, dimorder=dimorder,
                              sequential=case.get("sequential", True), ranks=None if hr is None else list(hr))
                F = M.full().data
                D = data.full().data if isinstance(data, ttb.sptensor) else data.data
                res = {"full": F, "nums": {"relerr": float(np.linalg.norm(D - F) / np.linalg.norm(D))},
                       "ints": {"core": [int(s) for s in M.core.shape]}}
            elif alg == "gcp":
                obj = Objectives[case.get("objective", "GAUSSIAN")]
                i0 = init if isinstance(init, str) else ttb.ktensor([a.copy() for a in init])
                M, M0, o = ttb.gcp_opt(data if case.get("nocopy") else data.copy(), R, obj, LBFGSB(maxiter=case.get("maxiters", 8), iprint=-1),
                                       init=i0, printitn=printitn)
                res = {"full": M.full().data, "nums": {"final_f": float(o["final_f"])},
                       "ints": {"nit": int(o["nit"])}, "init": [f.copy() for f in M0.factor_matrices]}
            else:
                raise KeyError(alg)
        res["out"] = buf.getvalue()
        return res
    except Exception as e:  # noqa: BLE001
        return {"reject": True, "exc": type(e).__name__, "msg": str(e)[:120]}


def rel(a, b):
    a, b = np.asarray(a, dtype=float), np.asarray(b, dtype=float)
    if a.shape != b.shape:
        return float("inf")
    fa, fb = np.isfinite(a), np.isfinite(b)
    if not (fa.all() and fb.all()):
        # degenerate runs (nan / inf entries): the same non-finite pattern and equal finite entries count as equal
        if not (np.array_equal(fa, fb) and np.array_equal(a[~fa], b[~fb], equal_nan=True)):
            return float("inf")
        a, b = a[fa], b[fb]
    d = np.linalg.norm(a - b)
    return float(d / max(np.linalg.norm(a), np.linalg.norm(b), 1e-300))


def num_rel(x, y):
    x, y = float(x), float(y)
    if x == y:
        return 0.0
    if np.isnan(x) and np.isnan(y):
        return 0.0
    if not (np.isfinite(x) and np.isfinite(y)):
        return float("inf")
    return abs(x - y) / max(abs(x), abs(y), 1.0)


def compare(a, b, tol=TOL, scale=1.0, ints=True, nums=True, skip=()):
    """worst relative mismatch between two run results (b's model divided by `scale`); -> (worst, what)."""
    worst, what = rel(a["full"] * scale, b["full"]), "model tensor"
    if nums:
        for k in a["nums"]:
            if k in skip:
                continue
            v = num_rel(a["nums"][k] * (scale if k == "normresidual" else 1.0), b["nums"][k])
            if v > worst:
                worst, what = v, k
    if ints:
        for k in a["ints"]:
            if k not in skip and a["ints"][k] != b["ints"][k]:
                return float("inf"), f"{k}: {a['ints'][k]} vs {b['ints'][k]}"
    return worst, what


def brief(r):
    if r is None:
        return None
    if r.get("reject"):
        return {"reject": True, "exc": r.get("exc"), "msg": r.get("msg")}
    return {"nums": {k: float(v) for k, v in r["nums"].items()}, "ints": r["ints"],
            "norm_full": float(np.linalg.norm(r["full"]))}


def sensitivity(alg, X, rep, case, **kw):
    """How much does this driver amplify a rounding-sized perturbation of the data (same representation)?"""
    base = run_alg(alg, as_data(X, rep), case, **kw)
    worst = 0.0
    for t in range(16):  # only run for pairs above tolerance; a discrete branch flip (observed with probability ~0.4
        # per perturbation for CP-APR PQNR variables sitting at their bound) has to show in one of them
        rs = _rs(case["dseed"] + 991 + t)
        Xp = X * (1.0 + (1e-13 if t % 2 == 0 else 1e-12) * rs.standard_normal(X.shape))
        r = run_alg(alg, as_data(Xp, rep), case, **kw)
        if r.get("reject") or base.get("reject"):
            return float("inf")
        worst = max(worst, compare(base, r)[0])
    return worst


def inner_sensitivity(alg, X, rep, case, **kw):
    """Control for a pair of cp_apr runs that agree in every number but not in the inner iteration counts: does a
    rounding-sized perturbation of the data (same representation) change the counts too?  Then some row / mode stopped
    on a KKT value within rounding of stoptol and the count is not a presentation-dependent result (-> 1.0, i.e.
    ill-conditioned); otherwise the usual amplification."""
    base = run_alg(alg, as_data(X, rep), case, **kw)
    worst = 0.0
    for t in range(16):
        rs = _rs(case["dseed"] + 991 + t)
        Xp = X * (1.0 + (1e-13 if t % 2 == 0 else 1e-12) * rs.standard_normal(X.shape))
        r = run_alg(alg, as_data(Xp, rep), case, **kw)
        if r.get("reject") or base.get("reject"):
            return float("inf")
        if r.get("inner") != base.get("inner"):
            return 1.0
        worst = max(worst, compare(base, r)[0])
    return worst


def factor_sensitivity(alg, X, rep, case, **kw):
    """the same control for the factor matrices / the core of a Tucker run"""
    base = run_alg(alg, as_data(X, rep), case, **kw)
    worst = 0.0
    for t in range(8):
        rs = _rs(case["dseed"] + 1991 + t)
        Xp = X * (1.0 + (1e-13 if t % 2 == 0 else 1e-12) * rs.standard_normal(X.shape))
        r = run_alg(alg, as_data(Xp, rep), case, **kw)
        if r.get("reject") or base.get("reject"):
            return float("inf")
        worst = max([worst] + [rel(A, B) for A, B in zip(base["factors"], r["factors"])] + [rel(base["core"], r["core"])])
    return worst


STATS = []  # (label, worst) of every judged pair (development aid, also summarised in the tags)


def judge(worst, what, tol, tags, label, control, impl):
    """ok / illcond / violation."""
    STATS.append((label, worst))
    if worst <= tol:
        return Verdict("ok", "", impl, None, None, tags, True)
    amp = control()
    if amp * 100 >= min(worst, 1.0):
        return Verdict("ok", f"ill-conditioned (control amplification {amp:.1e})", impl, None, None,
                       list(tags) + ["illcond"], False)
    return Verdict("violation", f"{label}: {what} differs by {worst:.2e} (> {tol:g}; control {amp:.1e})",
                   impl, None, None, tags)


# ----------------------------------------------------------------------------
# case generators
# ----------------------------------------------------------------------------
def gen_shape(rng, tier, n=None, lo=3, hi=7):
    n = n or rng.choice([2, 3, 3, 3] + ([4] if tier == "thorough" else []))
    return rng.sample(range(lo, hi + 1), n) if n <= hi - lo + 1 else [rng.randint(lo, hi) for _ in range(n)]


def base_case(rng, tier, alg, n=None):
    shape = gen_shape(rng, tier, n, 4 if alg in ("tucker_als", "hosvd") else 3, 7)
    c = {"alg": alg, "shape": shape, "rank": rng.choice([2, 2, 3]) if min(shape) > 3 else 2,
         "dseed": rng.randrange(1 << 30)}
    if alg.startswith("cp_apr"):
        c["kind"] = "counts"
        c["maxiters"] = {"cp_apr_mu": 4, "cp_apr_pdnr": 3, "cp_apr_pqnr": 2}[alg]
    elif alg == "gcp":
        c["objective"] = rng.choice(["GAUSSIAN", "GAUSSIAN", "POISSON"])
        c["kind"] = "counts" if c["objective"] == "POISSON" else "gauss"
        c["maxiters"] = 8
    elif alg == "tucker_als":
        # admissible multilinear ranks only: r_n <= prod of the others (otherwise the extra leading vectors come
        # from a null space and are arbitrary), planted rank 2 so that the retained subspaces have a clear gap
        c["rank"] = 2
        rk = [rng.choice([1, 2, 2]) for _ in shape]
        for _ in range(4):
            for k in range(len(rk)):
                others = 1
                for m, r in enumerate(rk):
                    if m != k:
                        others *= r
                rk[k] = min(rk[k], others)
        c["ranks"] = rk
        c["maxiters"] = 3
    elif alg == "hosvd":
        c["tol"] = rng.choice([0.05, 0.2, 0.5])
        c["sequential"] = rng.random() < 0.6
        if rng.random() < 0.5:
            # every option crossed with every presentation (seed C18w: ranks given by the caller x verbosity): given and
            # mixed ranks (0 = chosen automatically for that mode), differing per mode, mostly below what tol would choose
            c["hranks"] = [rng.choice([0, 1, 1, max(1, e // 2), e]) for e in c["shape"]]
            if all(r == 0 for r in c["hranks"]):
                c["hranks"][0] = 1
    else:
        c["maxiters"] = rng.choice([3, 5])
    return c


def apr_options(rng, alg):
    """Option values of cp_apr other than the defaults (C18 is quantified over all admissible option values): inner
    limits, how the sparse index sets are obtained, inexact on/off, active-set tolerance, initial damping, L-BFGS memory,
    MU's kappa.  The first draw of every three keeps the defaults."""
    if rng.random() < 1 / 3:
        return {}
    o = {"maxinneriters": rng.choice([10, 5, 20, 2])}
    if alg == "cp_apr_mu":
        o["kappa"] = rng.choice([0.01, 0.1, 0.5])
    else:
        o["precompinds"] = rng.random() < 0.5
        o["epsActive"] = rng.choice([1e-8, 1e-3, 1e-2, 1.0, 10.0])
        if alg == "cp_apr_pdnr":
            o["inexact"] = rng.random() < 0.5
            o["mu0"] = rng.choice([1e-5, 1e-2, 1.0, 10.0])
        else:
            o["lbfgsMem"] = rng.randint(1, 5)
    return o


ALGS_CP = ["cp_als", "cp_apr_mu", "cp_apr_pdnr", "cp_apr_pqnr"]
ALGS_ALL = ALGS_CP + ["tucker_als", "hosvd", "gcp"]


GUESS_PATTERNS = ["pos", "zero-first", "zero-mid", "zero-last", "zero-col", "tiny"]


def apply_pattern(mats, pattern):
    """Admissible starting guesses that are NOT generic: exact zeros in the first / a middle / the last factor
    (never a whole row: in rows whose data slice is non-empty), a zero column, entries below CP-APR's kappatol
    (1e-10).  `mats` is a list of factor matrices (entries may be None for tucker_als' unused first factor)."""
    if mats is None or pattern in (None, "pos"):
        return mats
    idx = [k for k, m in enumerate(mats) if m is not None]
    out = [None if m is None else np.array(m, dtype=float, copy=True) for m in mats]

    def holes(A, val):
        r, c = A.shape
        A[0, 0] = val
        if c > 1:
            A[min(1, r - 1), c - 1] = val
            if r > 2:
                A[2, 0] = val
        elif r > 2:
            A[2, 0] = val
    if pattern == "zero-first":
        holes(out[idx[0]], 0.0)
    elif pattern == "zero-mid":
        holes(out[idx[len(idx) // 2]], 0.0)
    elif pattern == "zero-last":
        holes(out[idx[-1]], 0.0)
    elif pattern == "zero-col":
        A = out[idx[min(1, len(idx) - 1)]]
        A[:, A.shape[1] - 1] = 0.0
    elif pattern == "tiny":
        holes(out[idx[0]], 1e-12)
        holes(out[idx[-1]], 3e-11)
    else:
        raise KeyError(pattern)
    return out


def init_for(alg, case, init):
    g = tucker_init(case) if alg == "tucker_als" else (None if alg == "hosvd" else init)
    return apply_pattern(g, case.get("guess"))


# ----------------------------------------------------------------------------
# families
# ----------------------------------------------------------------------------
class Repr(Family):
    """dense vs sparse data, same guess, same options."""
    name = "repr"
    theorems = ("C18_repr_independent", "C18_repr_independent_out", "C18_repr_als_uses_interface",
                "C18_repr_denote", "C18_repr_als_dense_sparse", "C18_repr_apr_phi", "C18_repr_apr_loglik")

    def gen(self, rng, tier):
        out = []
        reps = 9 if tier == "quick" else 42
        for alg in ALGS_CP + ["tucker_als"]:
            for k in range(reps):
                c = base_case(rng, tier, alg)
                c["printitn"] = rng.choice([0, 1])
                c["order_seed"] = rng.choice([None, rng.randrange(1 << 20)])
                if alg.startswith("cp_apr"):
                    if k % 3 == 1:
                        c["zero_slice"] = [rng.randrange(len(c["shape"])), 0]
                    c["rate"] = rng.choice([1.0, 0.15])  # low rate: many zero entries
                    c["apr"] = apr_options(rng, alg)
                    if c["apr"]:
                        c["maxiters"] = rng.choice([c["maxiters"], c["maxiters"], 8])
                        c["stoptol"] = rng.choice([1e-4, 1e-4, 1e-7])
                else:
                    c["sparsify"] = k % 2 == 1
                if alg == "cp_als" and k % 3 == 2:
                    c["init"] = "random"
                    c["seed"] = rng.randrange(1 << 20)
                out.append(c)
        for alg in ("hosvd", "gcp"):  # sparse data is not admissible: refused, whatever the options
            c = base_case(rng, tier, alg)
            c["printitn"] = 0
            c["order_seed"] = None
            c["inadmissible"] = True
            out.append(c)
        return out

    def evaluate(self, cases):
        out = []
        for c in cases:
            alg = c["alg"]
            X, init = make_problem(c)
            tags = [alg, f"N{len(c['shape'])}", f"p{c['printitn']}"]
            if c.get("apr"):
                tags += ["options"] + [f"{k}={v}" for k, v in sorted(c["apr"].items()) if k in ("precompinds", "inexact")]
            if c.get("zero_slice"):
                tags.append("zeroslice")
            if c.get("sparsify") or (c.get("kind") == "counts" and (X == 0).any()):
                tags.append("has-zeros")
            kw = dict(printitn=c["printitn"])
            if c.get("init") == "random":
                kw.update(init="random", seed=c["seed"])
                tags.append("random-start")
            else:
                kw["init"] = init_for(alg, c, init)
            a = run_alg(alg, as_data(X, "dense"), c, **kw)
            b = run_alg(alg, as_data(X, "sparse", c.get("order_seed")), c, **kw)
            impl = {"dense": brief(a), "sparse": brief(b)}
            if b.get("reject") and not a.get("reject") and (c.get("inadmissible") or alg == "tucker_als"):
                # hosvd and gcp_opt+LBFGSB refuse sparse data, tucker_als is documented for dense data only:
                # a refusal is not a presentation-dependent RESULT.  (If they accept it, the results are compared.)
                out.append(Verdict("ok", "", impl, None, None, tags + ["sparse-refused"], False))
                continue
            if a.get("reject") or b.get("reject"):
                if a.get("reject") and b.get("reject"):
                    out.append(Verdict("ok", "", impl, None, None, tags + ["both-reject"], False))
                else:
                    out.append(Verdict("violation", f"{alg}: one representation raises ({a.get('exc') or b.get('exc')}), "
                                       "the other returns a model", impl, None, None, tags))
                continue
            worst, what = compare(a, b)
            control = sensitivity
            if worst <= TOL and alg.startswith("cp_apr") and a["inner"] != b["inner"]:
                worst, what = float("inf"), f"inner iteration counts {a['inner']} vs {b['inner']}"
                control = inner_sensitivity
            out.append(judge(worst, what, TOL, tags, f"{alg} dense vs sparse",
                             lambda: control(alg, X, "dense", c, **kw), impl))
        return out

    def shrink(self, case):
        for k in ("zero_slice", "sparsify", "order_seed"):
            if case.get(k):
                c = dict(case)
                c[k] = None
                yield c
        if case.get("maxiters", 1) > 1:
            c = dict(case)
            c["maxiters"] = case["maxiters"] - 1
            yield c
        if len(case["shape"]) > 2:
            c = dict(case)
            c["shape"] = case["shape"][:-1]
            if "ranks" in c:
                c["ranks"] = c["ranks"][:-1]
            if c.get("zero_slice") and c["zero_slice"][0] >= len(c["shape"]):
                c["zero_slice"] = None
            yield c


ITER_LINE = {"cp_als": " Iter ", "tucker_als": " Iter ", "cp_apr_mu": "\tIter "}


class Print(Family):
    """printing intervals; the number of per-iteration lines against the loop model."""
    name = "print"
    theorems = ("C18_print_independent", "C18_print_independent_pure", "C18_print_independent_mu", "C18_print_silent",
                "C18_print_apr_renormalise", "C18_print_mu_fixup_id", "C18_print_mu_fixup_sees_scaling")

    def gen(self, rng, tier):
        out = []
        reps = 3 if tier == "quick" else 16
        for alg in ALGS_ALL:
            for k in range(reps):
                c = base_case(rng, tier, alg)
                c["rep"] = "sparse" if (alg in ALGS_CP and k % 2 == 1) else "dense"
                if alg in ("cp_als", "tucker_als", "cp_apr_mu", "cp_apr_pdnr"):
                    c["maxiters"] = rng.choice([4, 9])
                    if alg in ("cp_als", "tucker_als"):
                        c["stoptol"] = rng.choice([0, 1e-4])
                if alg.startswith("cp_apr"):
                    c["apr"] = apr_options(rng, alg)
                out.append(c)
        # ENUMERATED: every driver x every guess pattern (x every printing interval, in evaluate) on 3-way
        # problems, rank >= 2, at least 3 outer iterations; CP drivers alternately on dense and sparse data
        k = 0
        for rep_no in range(1 if tier == "quick" else 4):
            for alg in ALGS_ALL:
                for pat in (GUESS_PATTERNS if alg != "hosvd" else ["pos"]):
                    c = base_case(rng, tier, alg, n=3)
                    c["guess"] = pat
                    c["rank"] = max(c["rank"], 2)
                    if alg == "tucker_als":
                        c["ranks"] = [2, 2, 2]
                    c["maxiters"] = max(c.get("maxiters", 3), 3 if alg != "gcp" else 8)
                    if alg in ("cp_als", "tucker_als"):
                        c["stoptol"] = 0
                    if alg.startswith("cp_apr"):
                        c["rate"] = 1.0  # non-empty data slices: the zero entries of the guess are "inadmissible zeros"
                    k += 1
                    c["rep"] = "sparse" if (alg in ALGS_CP and k % 2 == 1) else "dense"
                    out.append(c)
                    if alg.startswith("cp_apr"):  # both representations
                        c2 = dict(c)
                        c2["rep"] = "dense" if c["rep"] == "sparse" else "sparse"
                        out.append(c2)
                    if alg == "hosvd":
                        # both ways of choosing the ranks, always: by tolerance, and given by the caller (all modes / mixed
                        # with automatic ones), below what the tolerance would choose - sequential and not
                        for hr in ([1 if e > 1 else e for e in c["shape"]], [0] + [max(1, e // 2) for e in c["shape"][1:]]):
                            for seq in (True, False):
                                c3 = dict(c)
                                c3.pop("hranks", None)
                                c3.update({"hranks": list(hr), "sequential": seq, "tol": 1e-3})
                                out.append(c3)
                        c.pop("hranks", None)
        return out

    def evaluate(self, cases):
        out, reqs, slots = [], [], []
        for c in cases:
            alg = c["alg"]
            X, init = make_problem(c)
            tags = [alg, c["rep"], "guess=" + c.get("guess", "generic")]
            levels = [0, 1, 2, 3, 7, 10] if alg == "hosvd" else PRINTS
            inner = [0, 0, 1, 2, 0, 0] if alg.startswith("cp_apr") else [0] * 6  # cp_apr's second verbosity knob
            runs = [run_alg(alg, as_data(X, c["rep"]), c, init=init_for(alg, c, init), printitn=p, inner=q)
                    for p, q in zip(levels, inner)]
            impl = {f"p{p}": brief(r) for p, r in zip(levels, runs)}
            rej = [bool(r.get("reject")) for r in runs]
            if any(rej):
                if all(rej):
                    out.append(Verdict("ok", "", impl, None, None, tags + ["both-reject"], False))
                else:
                    out.append(Verdict("violation", f"{alg}: raises for some printing intervals only ({rej})",
                                       impl, None, None, tags))
                continue
            base = runs[0]
            worst, what, at = 0.0, "", 0
            for p, r in zip(levels[1:], runs[1:]):
                w, wh = compare(base, r)
                if w > worst:
                    worst, what, at = w, wh, p
            v = judge(worst, what, TOL, tags, f"{alg} printitn 0 vs {at}",
                      lambda: sensitivity(alg, X, c["rep"], c, init=init_for(alg, c, init), printitn=0), impl)
            if v.status == "ok" and base["out"].strip() and alg != "tucker_als":
                v = Verdict("violation", f"{alg}: printing interval 0 still prints {base['out'][:60]!r}", impl, None, None, tags)
            if v.status == "ok" and not all(r["out"].strip() for r in runs[1:]):
                v = Verdict("corr", f"{alg}: nothing printed for a positive interval", impl, None, None, tags)
            out.append(v)
            # the printing decision against the loop model (`converged at the last iteration` is not reported by
            # the drivers: when the run ended at maxiters-1 both readings are admissible)
            if v.status == "ok" and alg in ITER_LINE:
                last = base["ints"]["iters"] if "iters" in base["ints"] else base["ints"]["outer"] - 1
                mx = c.get("maxiters", 5)
                for p, r in zip(levels, runs):
                    for stop_at in (last, mx + 5):
                        reqs.append({"op": "c18_loop", "printitn": p, "maxiters": mx, "als_rule": alg == "cp_als",
                                     "stop_at": stop_at})
                    slots.append((len(out) - 1, r["out"].count(ITER_LINE[alg]), last, mx, p, alg))
        models = drive(reqs)
        for i, (k, lines, last, mx, p, alg) in enumerate(slots):
            if out[k].status != "ok":
                continue
            conv, noconv = models[2 * i], models[2 * i + 1]
            ok = (conv["iters"] == last and conv["printed"] == lines) or \
                 (last == mx - 1 and noconv["iters"] == mx - 1 and noconv["printed"] == lines)
            if not ok:
                out[k] = Verdict("violation", f"{alg}: printitn={p}, last iteration {last} of {mx}: printed {lines} "
                                 f"iteration lines, the loop model prints {conv['printed']}", out[k].impl, conv, None, out[k].tags)
        return out


class Seed(Family):
    """same global seed -> same result; different seed -> different start; draws follow the stream model."""
    name = "seed"
    theorems = ("C18_seed_deterministic",)

    def gen(self, rng, tier):
        out = []
        reps = 4 if tier == "quick" else 20
        for alg in ("cp_als", "cp_apr_mu", "cp_apr_pdnr", "cp_apr_pqnr", "tucker_als", "gcp"):
            for _ in range(reps):
                c = base_case(rng, tier, alg)
                c["seed"] = rng.randrange(1 << 31)
                c["seed2"] = c["seed"] + 1 + rng.randrange(1000)
                if alg == "tucker_als":
                    c["dimorder"] = rng.sample(range(len(c["shape"])), len(c["shape"]))
                out.append(c)
        return out

    def evaluate(self, cases):
        out, reqs, slots = [], [], []
        for c in cases:
            alg = c["alg"]
            X, _ = make_problem(c)
            tags = [alg]
            kw = dict(init="random", dimorder=c.get("dimorder"))
            # record what is drawn from np.random.uniform and how far the global stream advanced
            calls = []
            orig = np.random.uniform

            def rec(low=0.0, high=1.0, size=None, _o=orig, _c=calls):
                r = _o(low, high, size)
                _c.append((size, np.array(r, copy=True)))
                return r
            np.random.uniform = rec
            try:
                with lib.unit_spellings(rec):
                    a = run_alg(alg, as_data(X, "dense"), c, seed=c["seed"], **kw)
                after = np.random.random_sample()
            finally:
                np.random.uniform = orig
            b = run_alg(alg, as_data(X, "dense"), c, seed=c["seed"], **kw)
            d = run_alg(alg, as_data(X, "dense"), c, seed=c["seed2"], **kw)
            # with a given guess nothing may be drawn from the global stream
            _, gi = make_problem(c)
            g = run_alg(alg, as_data(X, "dense"), c, seed=c["seed"], init=init_for(alg, c, gi), dimorder=c.get("dimorder"))
            untouched = np.random.random_sample() == _rs(c["seed"]).random_sample()
            impl = {"a": brief(a), "b": brief(b), "other_seed": brief(d)}
            if a.get("reject") or b.get("reject") or d.get("reject"):
                same = bool(a.get("reject")) == bool(b.get("reject"))
                out.append(Verdict("ok" if same else "violation", "" if same else f"{alg}: same seed, one run raises",
                                   impl, None, None, tags + ["reject"], False))
                continue
            bitwise = np.array_equal(a["full"], b["full"]) and all(a["nums"][k] == b["nums"][k] for k in a["nums"])
            arpack = alg == "tucker_als" and any(r < s - 1 for r, s in zip(c["ranks"], c["shape"]))
            worst, what = compare(a, b)
            if arpack:
                tags.append("arpack")
                v = judge(worst, what, TOL, tags, f"{alg} same seed",
                          lambda: sensitivity(alg, X, "dense", c, seed=c["seed"], **kw), impl)
            elif not bitwise:
                v = Verdict("violation", f"{alg}: two runs with the same global seed differ ({what}: {worst:.1e})",
                            impl, None, None, tags)
            else:
                v = Verdict("ok", "", impl, None, None, tags + ["bitwise"], True)
            if v.status == "ok" and not g.get("reject") and not untouched:
                v = Verdict("violation", f"{alg}: a run with a given guess consumed the global NumPy stream", impl, None, None, tags)
            ia = [u for u in a["init"] if u is not None]
            idd = [u for u in d["init"] if u is not None]
            if v.status == "ok" and all(np.array_equal(x, y) for x, y in zip(ia, idd)):
                v = Verdict("violation", f"{alg}: different global seeds give the same random start", impl, None, None, tags)
            out.append(v)
            # the draws against the stream model: the k-th call fills an (r, c) matrix row by row from the
            # flat stream of RandomState(seed); nothing else advanced the stream
            if v.status == "ok":
                dims = [[int(x) for x in s] for s, _ in calls]
                total = sum(r * cc for r, cc in dims)
                st = _rs(c["seed"])
                flat = st.random_sample(total)
                expect_after = st.random_sample()
                reqs.append({"op": "c18_draw_mats", "dims": dims, "draws": jval(flat)})
                if alg == "tucker_als":
                    order = [int(x) for x in (c.get("dimorder") or range(len(c["shape"])))][1:]
                    want_dims = [[c["shape"][n], c["ranks"][n]] for n in order]
                    drawn = [a["init"][n] for n in order]
                elif alg == "gcp":
                    want_dims = [[s, c["rank"]] for s in c["shape"]]
                    drawn = [m for _, m in calls]  # gcp rescales its start: compare the raw draws
                else:
                    want_dims = [[s, c["rank"]] for s in c["shape"]]
                    drawn = a["init"]
                slots.append((len(out) - 1, dims, want_dims, drawn, after == expect_after, alg))
        for (k, dims, want_dims, drawn, stream_ok, alg), m in zip(slots, drive(reqs)):
            bad = None
            if dims != want_dims:
                bad = f"draw calls {dims}, the model expects {want_dims}"
            elif m["rest"] != 0 or not deep_eq([jval(x) for x in drawn], m["mats"]):
                bad = "the random start is not the global stream filled row by row in call order"
            elif not stream_ok:
                bad = "the global NumPy stream was advanced by something else than the modelled draws"
            if bad:
                out[k] = Verdict("violation", f"{alg}: {bad}", out[k].impl, m, None, out[k].tags)
        return out


class Scale(Family):
    """scaling the data by c > 0 scales the CP / Tucker model by c and leaves fit, chosen ranks and iteration
    counts unchanged — for c over 18 orders of magnitude (an absolute threshold anywhere in a driver shows only
    far away from 1)."""
    name = "scale"
    theorems = ("C18_scale_als_step", "C18_scale_als_zero_guard", "C18_scale_als_step_colscaled",
                "C18_scale_cpals_mode_update", "C18_scale_cpals_tensor", "C18_scale_cpals_pass",
                "C18_scale_cpals_sweeps", "C18_scale_cpals_cleanup", "C18_scale_cpals_run",
                "C18_scale_cpals_rank_one", "C18_scale_fit",
                "C18_scale_hosvd", "C18_scale_hosvd_rank", "C18_scale_tucker_step", "C18_scale_tucker_sweep",
                "C18_scale_tucker_nvecs", "C18_scale_tucker_run", "C18_scale_tucker_run_ok")

    def gen(self, rng, tier):
        out = []
        reps = 6 if tier == "quick" else 30
        for alg in ("cp_als", "tucker_als"):
            for k in range(reps):
                c = base_case(rng, tier, alg)
                c["maxiters"] = rng.choice([3, 4, 6])           # at least 3 outer iterations
                c["stoptol"] = [0, 1e-4, 1e-3][k % 3]            # the stop test is on the (scale-free) fit
                c["rep"] = "sparse" if (alg == "cp_als" and k % 3 == 2) else "dense"
                if alg == "cp_als" and k % 6 == 4:
                    c["init"] = "random"
                    c["seed"] = rng.randrange(1 << 20)
                n = len(c["shape"])
                c["dimorder"] = rng.sample(range(n), n)
                out.append(c)
        for k in range(reps + 2):
            c = base_case(rng, tier, "hosvd")
            n = len(c["shape"])
            c["rep"] = "dense"
            c["dimorder"] = rng.sample(range(n), n)
            c["sequential"] = k % 2 == 0
            # data with small-but-above-threshold detail and little noise; tolerances from "keeps everything"
            # to "keeps the planted part only", so that the automatic rank decision is sensitive
            c["detail"] = [rng.choice([3e-2, 1e-2]), rng.choice([3e-3, 1e-3])]
            c["noise"] = rng.choice([1e-4, 1e-3])
            c["tol"] = [3e-3, 1e-2, 3e-4, 0.05, 0.2][k % 5]
            if k % 4 == 3:  # given ranks (0 = automatic for that mode)
                c["hranks"] = [rng.choice([0, 1, 2, min(3, sh)]) for sh in c["shape"]]
            out.append(c)
        return out

    def evaluate(self, cases):
        out, reqs, slots = [], [], []
        for c in cases:
            alg = c["alg"]
            X, init = make_problem(c)
            tags = [alg, c["rep"]]
            kw = dict(dimorder=c["dimorder"])
            if c.get("init") == "random":
                kw.update(init="random", seed=c["seed"])
                tags.append("random-start")
            else:
                kw["init"] = init_for(alg, c, init)
            if alg == "hosvd":
                tags.append("given-ranks" if c.get("hranks") else "auto-ranks")
            else:
                tags.append(f"stoptol={c.get('stoptol', 0):g}")
            eigs = []
            orig = scipy.linalg.eigh

            def rec(Z, *a, _o=orig, _e=eigs, **k):
                r = _o(Z, *a, **k)
                _e.append(np.array(r[0], copy=True))
                return r
            if alg == "hosvd":
                scipy.linalg.eigh = rec
            try:
                base = run_alg(alg, as_data(X, c["rep"]), c, **kw)
            finally:
                scipy.linalg.eigh = orig
            runs = [run_alg(alg, as_data(s * X, c["rep"]), c, **kw) for s in SCALES]
            impl = {"c=1": brief(base), **{f"c={s:g}": brief(r) for s, r in zip(SCALES, runs)}}
            if base.get("reject") or any(r.get("reject") for r in runs):
                same = all(bool(r.get("reject")) == bool(base.get("reject")) for r in runs)
                bad = [f"{s:g}" for s, r in zip(SCALES, runs) if bool(r.get("reject")) != bool(base.get("reject"))]
                out.append(Verdict("ok" if same else "violation",
                                   "" if same else f"{alg}: raises for the scale factors {bad} only",
                                   impl, None, None, tags + ["reject"], False))
                continue
            # HOSVD: is the rank decision of the unscaled run itself at a tie (float cumulative sums decide)?
            tie = False
            thresh = None
            if alg == "hosvd":
                d = len(c["shape"])
                thresh = (c["tol"] ** 2) * float((X ** 2).sum()) / d
                for D in eigs:
                    desc = np.sort(D)[::-1]
                    if np.min(np.abs(np.cumsum(desc[::-1])[::-1] - thresh)) / max(thresh, 1e-300) < 1e-9:
                        tie = True
            tol = TOL_SCALE if alg == "cp_als" else TOL
            worst, what, at = 0.0, "", 1.0
            for s, r in zip(SCALES, runs):
                w, wh = compare(base, r, scale=s)
                if w > worst:
                    worst, what, at = w, wh, s
            if tie and worst > tol:
                out.append(Verdict("ok", "rank decision at a tie with the threshold", impl, None, None,
                                   tags + ["threshold-tie"], False))
                continue
            out.append(judge(worst, what, tol, tags, f"{alg} data scaled by {at:g}",
                             lambda: sensitivity(alg, X, c["rep"], c, **kw), impl))
            # Tucker-ALS (`C18_scale_tucker_run`): the SAME factor matrices, the core times c
            if alg == "tucker_als" and out[-1].status == "ok" and "illcond" not in out[-1].tags:
                fw, fat = 0.0, 1.0
                for s, r in zip(SCALES, runs):
                    w = max([rel(A, B) for A, B in zip(base["factors"], r["factors"])] + [rel(base["core"] * s, r["core"])])
                    if w > fw:
                        fw, fat = w, s
                if fw > tol:
                    out[-1] = judge(fw, "factor matrices / core", tol, tags, f"tucker_als data scaled by {fat:g}",
                                    lambda: factor_sensitivity(alg, X, c["rep"], c, **kw), impl)
            # HOSVD's rank decision against the model, on the recorded eigenvalues (automatic modes only)
            if alg == "hosvd" and out[-1].status == "ok" and not tie:
                hr = c.get("hranks") or [0] * len(c["shape"])
                for k, D in zip(c["dimorder"], eigs):
                    if hr[k] != 0:
                        continue
                    desc = np.sort(D)[::-1]
                    reqs.append({"op": "c18_hosvd_rank", "eigs": jval(desc), "thresh": jval(thresh)})
                    slots.append((len(out) - 1, base["ints"]["core"][k], k))
        for (k, got, mode), m in zip(slots, drive(reqs)):
            if out[k].status == "ok" and m["rank"] != got:
                out[k] = Verdict("violation", f"hosvd chose rank {got} for mode {mode}, the rank model gives {m['rank']}",
                                 out[k].impl, m, None, out[k].tags)
        return out


PERMS4 = [[1, 2, 0, 3], [0, 2, 3, 1], [2, 0, 1, 3],            # 3-cycles (not involutions)
          [1, 2, 3, 0], [3, 0, 1, 2], [1, 3, 0, 2], [2, 3, 1, 0],  # 4-cycles
          [1, 0, 3, 2], [0, 1, 3, 2], [3, 2, 1, 0]]                # involutions, for contrast


def non_ascending(rng, n):
    d = rng.sample(range(n), n)
    while d == sorted(d):
        d = rng.sample(range(n), n)
    return d


def neg_counts(factors):
    """per component: the number of modes whose entry of largest magnitude is negative (what fixsigns looks at)."""
    R = factors[0].shape[1]
    return [sum(1 for F in factors if F[int(np.argmax(np.abs(F[:, r]))), r] < 0) for r in range(R)]


def factor_mismatch(base, r, p):
    """worst relative mismatch between the factor list of `r` and the relabelling of the factor list of `base`
    (`r.factors[k]` against `base.factors[p[k]]`), the same after aligning the sign of every column, and the
    components in which signs differ."""
    worst, worst_abs, comps = 0.0, 0.0, set()
    for k, pk in enumerate(p):
        A, B = np.asarray(r["factors"][k]), np.asarray(base["factors"][pk])
        if A.shape != B.shape:
            return float("inf"), float("inf"), set()
        worst = max(worst, rel(A, B))
        for c in range(A.shape[1]):
            d_same, d_flip = np.linalg.norm(A[:, c] - B[:, c]), np.linalg.norm(A[:, c] + B[:, c])
            scale = max(np.linalg.norm(B[:, c]), 1e-300)
            if d_flip < d_same:
                comps.add(c)
            worst_abs = max(worst_abs, min(d_same, d_flip) / scale)
    worst = max(worst, rel(r["weights"], base["weights"]))
    return worst, worst_abs, comps


class Relabel(Family):
    """relabelling the modes of data, guess (ranks), mode order and optimised modes relabels the modes of the result:
    the model tensor and every reported number for all drivers; for cp_als also the factor LIST and the weights
    (`C18_relabel_cpals_run`) and the reported `dimorder` / `optdims` against the model op `c18_relabel_setup`."""
    name = "relabel"
    theorems = ("C18_relabel_step", "C18_relabel_sweep", "C18_relabel_als_query", "C18_relabel_mttkrp_spec",
                "C18_relabel_mttkrp_law", "C18_relabel_hosvd", "C18_relabel_tucker_run", "C18_relabel_cpals_mode_update", "C18_relabel_cpals_pass",
                "C18_relabel_cpals_sweeps", "C18_relabel_cpals_run")

    def gen(self, rng, tier):
        out = []
        reps = 3 if tier == "quick" else 12
        reps4 = 2 if tier == "quick" else 5
        for alg in ("cp_als", "tucker_als", "hosvd", "gcp"):
            for k in range(reps):
                c = base_case(rng, tier, alg, n=3)
                c["dimorder"] = non_ascending(rng, 3) if k % 3 else rng.sample(range(3), 3)
                c["perms"] = [list(p) for p in itertools.permutations(range(3))]
                if alg == "cp_als":
                    c["rep"] = "sparse" if k % 2 else "dense"
                    c["fixsigns"] = k % 3 != 1
                    if k % 3 == 2:          # a strict subset of the modes is optimised, listed in some order
                        c["optdims"] = rng.sample(range(3), rng.choice([1, 2]))
                if alg == "tucker_als":
                    self.distinct_ranks(rng, c)
                if alg == "hosvd" and k % 2:   # given / mixed ranks (0 = automatic for that mode), differing per mode
                    c["hranks"] = [rng.choice([0, 1, 2, min(3, sh)]) for sh in c["shape"]]
                out.append(c)
            for k in range(reps4):
                c = base_case(rng, tier, alg, n=4)
                c["dimorder"] = non_ascending(rng, 4)
                # non-involutive relabellings: 3-cycles and 4-cycles (p != p^-1, so a confusion of p with its inverse
                # shows), an involution and a random one
                c["perms"] = [rng.choice(PERMS4[:3]), rng.choice(PERMS4[3:7]), rng.choice(PERMS4[3:7]),
                              rng.choice(PERMS4[7:]), rng.sample(range(4), 4)]
                if alg == "cp_als":
                    c["rep"] = "sparse" if k % 2 else "dense"
                    c["fixsigns"] = k % 2 == 0
                    if k % 2 == 1:
                        c["optdims"] = rng.sample(range(4), rng.choice([1, 2, 3]))
                    c["maxiters"] = 3
                if alg == "tucker_als":
                    self.distinct_ranks(rng, c)
                if alg == "gcp":
                    c["maxiters"] = 5
                if alg == "hosvd" and k % 2:
                    c["hranks"] = [rng.choice([0, 1, 2, min(3, sh)]) for sh in c["shape"]]
                out.append(c)
        return out

    @staticmethod
    def distinct_ranks(rng, c):
        """multilinear ranks that differ per mode (one mode of rank 1, the others of rank 2; planted rank 2): a
        relabelling that forgets to relabel the ranks asks for an inadmissible / different problem"""
        n = len(c["shape"])
        rk = [2] * n
        rk[rng.randrange(n)] = 1
        c["ranks"] = rk

    def evaluate(self, cases):
        out, reqs, slots, areqs, aslots = [], [], [], [], []
        for c in cases:
            alg = c["alg"]
            X, init = make_problem(c)
            rep = c.get("rep", "dense")
            n = len(c["shape"])
            tags = [alg, rep, f"N{n}"]
            ini = init_for(alg, c, init)
            dimorder = None if alg == "gcp" else c["dimorder"]
            kw = {}
            if alg == "cp_als":
                kw = {"optdims": c.get("optdims"), "fixsigns": c.get("fixsigns", True)}
                tags.append("fixsigns" if kw["fixsigns"] else "no-fixsigns")
                if kw["optdims"] is not None:
                    tags.append(f"optdims{len(kw['optdims'])}of{n}")
            if "ranks" in c and len(set(c["ranks"])) > 1:
                tags.append("ranks-differ")
            if dimorder is not None and dimorder != sorted(dimorder):
                tags.append("dimorder-not-ascending")
            base = run_alg(alg, as_data(X, rep), c, init=ini, dimorder=dimorder, **kw)
            if base.get("reject"):
                out.append(Verdict("corr", f"{alg}: the base run raises {base.get('exc')}", {"base": brief(base)}, None, None, tags, False))
                continue
            # cp_als with fixsigns: the arranged model before fixsigns tells whether the choice of fixsigns is
            # independent of the mode order (every component: an even number of negative modes, or at most one)
            parity_bad = set()
            if alg == "cp_als" and kw["fixsigns"]:
                pre = run_alg(alg, as_data(X, rep), c, init=ini, dimorder=dimorder, optdims=kw["optdims"], fixsigns=False)
                if not pre.get("reject"):
                    parity_bad = {r for r, k in enumerate(neg_counts(pre["factors"])) if k % 2 == 1 and k > 1}
                if parity_bad:
                    tags.append("fixsigns-odd-component")
            worst, what, at, rejected = 0.0, "", None, None
            fworst, fat, fsign = 0.0, None, None
            tworst, tat = 0.0, None
            rk_src = c.get("hranks") if alg == "hosvd" else c.get("ranks")
            if alg == "hosvd":
                tags.append("given-ranks" if rk_src else "auto-ranks")
            for p in c["perms"]:
                inv = [int(x) for x in np.argsort(p)]
                cyc = "id" if p == sorted(p) else ("involution" if [p[k] for k in p] == sorted(p) else "non-involution")
                if cyc not in tags:
                    tags.append(cyc)
                Xp = np.transpose(X, p)
                cp = dict(c)
                cp["shape"] = [c["shape"][k] for k in p]
                kwp = dict(kw)
                if kw.get("optdims") is not None:
                    kwp["optdims"] = [inv[d] for d in kw["optdims"]]
                r = run_alg(alg, as_data(Xp, rep), cp, init=None if ini is None else [ini[k] for k in p],
                            dimorder=None if dimorder is None else [inv[d] for d in dimorder],
                            ranks=None if rk_src is None else [rk_src[k] for k in p], **kwp)
                if r.get("reject"):
                    rejected = (p, r)
                    break
                r = dict(r)
                r["full"] = np.transpose(r["full"], inv)
                if "core" in r["ints"]:
                    r["ints"] = {"core": [r["ints"]["core"][k] for k in inv]}
                w, wh = compare(base, r)
                if w > worst:
                    worst, what, at = w, wh, p
                if alg in ("tucker_als", "hosvd"):
                    # the arguments of the second run against the model (`gather ranks p`, `qmap p dimorder`)
                    rk = rk_src
                    areqs.append({"op": "c18_relabel_args", "ndims": n, "p": list(p),
                                  "ranks": None if rk is None else list(rk), "dimorder": dimorder})
                    aslots.append((len(out), p, None if rk is None else [rk[k] for k in p], [inv[d] for d in dimorder]))
                if alg == "tucker_als":
                    # `C18_relabel_tucker_run`: factor list relabelled, core permuted
                    tw = max([rel(r["factors"][k], base["factors"][pk]) for k, pk in enumerate(p)]
                             + [rel(np.transpose(r["core"], inv), base["core"])])
                    if tw > tworst:
                        tworst, tat = tw, p
                if alg == "cp_als":
                    fw, fabs, comps = factor_mismatch(base, r, p)
                    if fw > fworst:
                        fworst, fat, fsign = fw, p, (fabs, sorted(comps))
                    # the reported dimorder / optdims of both runs against the model of the option validation
                    reqs.append({"op": "c18_relabel_setup", "shape": list(c["shape"]), "rank": c["rank"], "p": list(p),
                                 "dimorder": dimorder, "optdims": kw["optdims"]})
                    slots.append((len(out), p, base["params"], r["params"]))
            impl = {"base": brief(base), "worst_perm": at, "worst": worst}
            if rejected:
                out.append(Verdict("violation", f"{alg}: relabelling {rejected[0]} raises {rejected[1].get('exc')}",
                                   impl, None, None, tags))
                continue
            v = judge(worst, what, TOL, tags, f"{alg} modes relabelled by {at}",
                      lambda: sensitivity(alg, X, rep, c, init=ini, dimorder=dimorder, **kw), impl)
            if alg == "cp_als" and v.status == "ok" and "illcond" not in v.tags and fworst > TOL:
                fabs, comps = fsign
                impl = dict(impl, factors_worst=fworst, factors_perm=fat, sign_aligned=fabs, sign_components=comps,
                            odd_components=sorted(parity_bad))
                if fabs <= TOL and kw["fixsigns"] and comps and set(comps) <= parity_bad:
                    # the factor lists differ only by sign flips, in components with an odd number (>= 3) of negative
                    # modes: fixsigns flips "the first" all-but-one of them, a choice that depends on the mode order
                    v = Verdict("violation", f"fixsigns-relabel|cp_als modes relabelled by {fat}: the returned factor "
                                f"lists differ by sign flips in components {comps} (odd number of negative modes); "
                                "tensor, weights and fit agree", impl, None, None, tags)
                else:
                    v = Verdict("violation", f"cp_als modes relabelled by {fat}: the returned factor list / weights are "
                                f"not the relabelling of the other run's ({fworst:.2e} > {TOL:g}; sign-aligned {fabs:.2e}; "
                                f"components with sign differences {comps}, with an odd number of negative modes "
                                f"{sorted(parity_bad)})", impl, None, None, tags)
            if alg == "tucker_als" and v.status == "ok" and "illcond" not in v.tags and tworst > TOL:
                v = judge(tworst, "factor list / core", TOL, tags, f"tucker_als modes relabelled by {tat}",
                          lambda: factor_sensitivity(alg, X, rep, c, init=ini, dimorder=dimorder), impl)
            out.append(v)
        for (k, p, rk2, do2), m in zip(aslots, drive(areqs)):
            if k < len(out) and out[k].status == "ok" and (m["ranks"] != rk2 or m["dimorder"] != do2):
                out[k] = Verdict("violation", f"harness / model disagree on the relabelled arguments for {p}: ranks {rk2} vs "
                                 f"{m['ranks']}, dimorder {do2} vs {m['dimorder']}", out[k].impl, m, None, out[k].tags)
        for (k, p, pb, pr), m in zip(slots, drive(reqs)):
            if k >= len(out) or out[k].status != "ok":
                continue
            bad = None
            if m["base"].get("reject") or m["second"].get("reject"):
                bad = f"the model of the option validation rejects what cp_als accepted (relabelling {p})"
            elif m["second"] != m["expected"]:
                bad = f"model: set-up of the relabelled problem {m['second']} is not the relabelled set-up {m['expected']}"
            elif pb != {"dimorder": m["base"]["dimorder"], "optdims": m["base"]["optdims"]}:
                bad = f"cp_als reports {pb}, the model {m['base']}"
            elif pr != {"dimorder": m["second"]["dimorder"], "optdims": m["second"]["optdims"]}:
                bad = f"cp_als on the problem relabelled by {p} reports {pr}, the model {m['second']}"
            if bad:
                out[k] = Verdict("violation", bad, out[k].impl, m, None, out[k].tags)
        return out

    def shrink(self, case):
        if len(case.get("perms", [])) > 1:
            for p in case["perms"]:
                c = dict(case)
                c["perms"] = [p]
                yield c
        if case.get("maxiters", 1) > 1:
            c = dict(case)
            c["maxiters"] = case["maxiters"] - 1
            yield c


# --- the clean-up of cp_als on a model and on its relabelling, exactly ---------------------------------------
# integer vectors with integer 2-norms (so that `arrange` is exact in floating point up to one rounding per entry
# and exact at Rat in the model)
PYTH = {1: [[1], [2], [7]], 2: [[3, 4], [4, 3], [0, 5], [5, 12], [8, 6]],
        3: [[1, 2, 2], [2, 3, 6], [2, 1, 2], [6, 2, 3], [0, 3, 4], [4, 4, 7], [1, 4, 8]],
        4: [[1, 1, 1, 1], [2, 4, 5, 6], [1, 2, 2, 4], [0, 2, 3, 6], [2, 2, 2, 2], [1, 3, 3, 9]],
        5: [[1, 1, 1, 2, 3], [0, 1, 2, 2, 4], [2, 2, 2, 2, 3], [1, 1, 3, 3, 4]]}


def kt_model(case):
    return {"weights": case["weights"], "factors": case["factors"]}


def kt_impl(case, p=None):
    fac = [np.array(F, dtype=float) for F in case["factors"]]
    if p is not None:
        fac = [fac[k] for k in p]
    return ttb.ktensor(fac, np.array(case["weights"], dtype=float))


def cleanup_impl(K, fix):
    K.arrange()
    if fix:
        K = K.fixsigns()
    return {"weights": np.array(K.weights), "factors": [np.array(F) for F in K.factor_matrices]}


def kt_close(impl, model, tol=1e-12):
    """entries within `tol` of the model's exact rationals, and exactly the same sign pattern"""
    mw = np.array([float(frac(x)) for x in model["weights"]])
    if impl["weights"].shape != mw.shape or not np.allclose(impl["weights"], mw, rtol=tol, atol=0):
        return False
    if len(impl["factors"]) != len(model["factors"]):
        return False
    for A, B in zip(impl["factors"], model["factors"]):
        Bm = np.array([[float(frac(x)) for x in row] for row in B]).reshape(A.shape if len(B) else (0, A.shape[1]))
        if A.shape != Bm.shape or not np.allclose(A, Bm, rtol=tol, atol=0) or not np.array_equal(np.sign(A), np.sign(Bm)):
            return False
    return True


class RelabelCleanup(Family):
    """`M.arrange()` / `M.fixsigns()` as cp_als applies them, on a Kruskal model and on its relabelling: the
    implementation against the exact model (`c18_relabel_cleanup`), and both against what the property prescribes —
    the clean-up of the relabelled model is the relabelling of the cleaned-up model (`C18_relabel_cpals_arrange`;
    with fixsigns under the parity condition of `C18_relabel_cpals_fixsigns`)."""
    name = "relabel_cleanup"
    theorems = ("C18_relabel_cpals_arrange", "C18_relabel_cpals_fixsigns", "C18_relabel_cpals_fixsigns_counterexample",
                "C18_relabel_cpals_run")

    def gen(self, rng, tier):
        out = []
        reps = 40 if tier == "quick" else 260
        for k in range(reps):
            n = [2, 3, 3, 4, 3, 4][k % 6]
            R = [1, 2, 3][k % 3]
            if k % 5 == 0:
                shape = [rng.choice([2, 3])] * n                         # repeated extents
            elif k % 5 == 1:
                shape = [1] + rng.sample([2, 3, 4, 5], n - 1)            # a singleton mode
                rng.shuffle(shape)
            else:
                shape = rng.sample([1, 2, 3, 4, 5], n)                   # pairwise distinct
            pattern = ["all-neg", "random", "random", "one-neg", "two-neg", "all-pos"][(k // 6) % 6]
            factors = []
            for m, s in enumerate(shape):
                cols = []
                for r in range(R):
                    v = list(rng.choice(PYTH[s]))
                    rng.shuffle(v)
                    v = [x * rng.choice([-1, 1]) for x in v]             # mixed signs inside a column
                    # the sign of the dominant entry decides what fixsigns sees
                    dom = max(range(s), key=lambda i: (abs(v[i]), -i))
                    want_neg = {"all-neg": True, "all-pos": False, "one-neg": m == (r % n),
                                "two-neg": m in (r % n, (r + 1) % n), "random": rng.random() < 0.5}[pattern]
                    if (v[dom] < 0) != want_neg:
                        v = [-x for x in v]
                    cols.append(v)
                factors.append([[cols[r][i] for r in range(R)] for i in range(s)])
            # weights: positive, such that the arranged weights (weight x product of the column norms) are distinct
            # (numpy's argsort is not stable: no ties), in an order that the sort has to change
            for _ in range(50):
                weights = rng.sample(range(1, 12), R)
                norms = [np.prod([np.linalg.norm(np.array(F, dtype=float)[:, r]) for F in factors]) for r in range(R)]
                lam = [w * nr for w, nr in zip(weights, norms)]
                if len({round(x, 6) for x in lam}) == R:
                    break
            if k % 11 == 10 and R > 1:
                for F in factors:                                        # a zero column (norm 0: left alone)
                    for row in F:
                        row[R - 1] = 0
            p = rng.sample(range(n), n)
            if n == 4 and k % 2:
                p = rng.choice(PERMS4[:7])
            out.append({"weights": weights, "factors": factors, "p": p, "fixsigns": k % 4 != 3, "pattern": pattern})
        return out

    def evaluate(self, cases):
        reqs = [{"op": "c18_relabel_cleanup", "K": kt_model(c), "p": c["p"], "fixsigns": c["fixsigns"]} for c in cases]
        out = []
        for c, m in zip(cases, drive(reqs)):
            n, p, fix = len(c["factors"]), c["p"], c["fixsigns"]
            tags = [f"N{n}", f"R{len(c['weights'])}", c["pattern"], "fixsigns" if fix else "arrange-only",
                    "parity-ok" if m["parity"] else "parity-odd",
                    "id" if p == sorted(p) else ("involution" if [p[k] for k in p] == sorted(p) else "non-involution")]
            if len(set(len(F) for F in c["factors"])) < n:
                tags.append("repeated-extent")
            if any(len(F) == 1 for F in c["factors"]):
                tags.append("singleton-mode")
            a = cleanup_impl(kt_impl(c), fix)
            b = cleanup_impl(kt_impl(c, p), fix)
            impl = {"base": jval(a), "relabelled": jval(b)}
            nontrivial = n > 1 and p != sorted(p)
            if not m["exact"]:
                out.append(Verdict("corr", "generator: a column norm is not rational", impl, m, None, tags, False))
                continue
            # the model's own specification
            if (m["parity"] or not fix) and m["relabelled"] != m["expected"]:
                out.append(Verdict("violation", "model: clean-up of the relabelled model is not the relabelled clean-up "
                                   "although the parity condition holds", impl, m, None, tags))
                continue
            if not kt_close(a, m["base"]):
                out.append(Verdict("violation", "arrange/fixsigns differ from the model on the given model", impl, m, None, tags))
                continue
            if not kt_close(b, m["relabelled"]):
                out.append(Verdict("violation", "arrange/fixsigns differ from the model on the relabelled model", impl, m, None, tags))
                continue
            # the property: cleaned-up relabelled model = relabelled cleaned-up model
            want = {"weights": a["weights"], "factors": [a["factors"][k] for k in p]}
            same = (np.allclose(b["weights"], want["weights"], rtol=1e-12, atol=0)
                    and all(A.shape == B.shape and np.allclose(A, B, rtol=1e-12, atol=0)
                            for A, B in zip(b["factors"], want["factors"])))
            if not same:
                if fix and not m["parity"]:
                    out.append(Verdict("violation", f"fixsigns-relabel|fixsigns of the model relabelled by {p} is not the "
                                       f"relabelling of fixsigns of the model (negative modes per component {m['neg_counts']})",
                                       impl, m, None, tags))
                else:
                    out.append(Verdict("violation", f"clean-up of the model relabelled by {p} is not the relabelling of the "
                                       "clean-up of the model", impl, m, None, tags))
                continue
            out.append(Verdict("ok", "", impl, m, None, tags, nontrivial))
        return out

    def size(self, case):
        return sum(len(F) for F in case["factors"]) * len(case["weights"])

    def shrink(self, case):
        R = len(case["weights"])
        if R > 1:
            for r in range(R):
                c = dict(case)
                c["weights"] = [w for i, w in enumerate(case["weights"]) if i != r]
                c["factors"] = [[[x for i, x in enumerate(row) if i != r] for row in F] for F in case["factors"]]
                yield c


class RelabelSetup(Family):
    """the option validation of cp_als (`dimorder`, `optdims`, reduced mode list) for a problem and its relabelling:
    implementation against the model (`c18_relabel_setup`), valid and malformed requests."""
    name = "relabel_setup"
    theorems = ("C18_relabel_cpals_run",)

    def gen(self, rng, tier):
        out = []
        reps = 30 if tier == "quick" else 150
        for k in range(reps):
            n = [2, 3, 4, 3, 4][k % 5]
            shape = rng.sample(range(2, 7), n) if k % 4 else [rng.choice([2, 3])] * n
            if k % 7 == 3:
                shape[rng.randrange(n)] = 1
            p = rng.sample(range(n), n)
            if n == 4 and k % 2:
                p = rng.choice(PERMS4[:7])
            dimorder = None if k % 6 == 0 else non_ascending(rng, n)
            optdims = None if k % 3 == 0 else rng.sample(range(n), rng.randint(1, n))
            bad = None
            if k % 9 == 4:
                bad = rng.choice(["dim-dup", "dim-range", "dim-short", "opt-dup", "opt-range", "opt-empty"])
                if bad == "dim-dup":
                    dimorder = [0] * n
                elif bad == "dim-range":
                    dimorder = list(range(1, n + 1))
                elif bad == "dim-short":
                    dimorder = list(range(n - 1))
                elif bad == "opt-dup":
                    optdims = [0, 0]
                elif bad == "opt-range":
                    optdims = [0, n]
                elif bad == "opt-empty":
                    optdims = []
            # (rank <= every extent: the run behind the validation must not fail in the solver)
            out.append({"shape": shape, "rank": min(rng.choice([1, 2]), min(shape)), "p": p, "dimorder": dimorder, "optdims": optdims,
                        "bad": bad, "dseed": rng.randrange(1 << 30)})
        return out

    @staticmethod
    def run(shape, R, dimorder, optdims, seed):
        rs = _rs(seed)
        X = ttb.tensor(rs.randint(-3, 4, size=tuple(shape)).astype(float) + 0.5)
        init = ttb.ktensor([rs.uniform(0.2, 1.0, (s, R)) for s in shape])
        try:
            with quiet():
                _, _, o = ttb.cp_als(X, R, init=init, maxiters=1, printitn=0, dimorder=dimorder, optdims=optdims)
            return {"dimorder": [int(d) for d in np.ravel(o["params"]["dimorder"])],
                    "optdims": [int(d) for d in np.ravel(o["params"]["optdims"])]}
        except Exception as e:  # noqa: BLE001
            return {"reject": True, "exc": type(e).__name__}

    def evaluate(self, cases):
        reqs = [{"op": "c18_relabel_setup", "shape": c["shape"], "rank": c["rank"], "p": c["p"],
                 "dimorder": c["dimorder"], "optdims": c["optdims"]} for c in cases]
        out = []
        for c, m in zip(cases, drive(reqs)):
            n = len(c["shape"])
            tags = [f"N{n}", "dimorder-default" if c["dimorder"] is None else "dimorder-given",
                    "optdims-default" if c["optdims"] is None else f"optdims{len(c['optdims'])}of{n}",
                    c["bad"] or "valid"]
            a = self.run(c["shape"], c["rank"], c["dimorder"], c["optdims"], c["dseed"])
            b = self.run(m["second_shape"], c["rank"], m["second_dimorder"], m["second_optdims"], c["dseed"])
            impl = {"base": a, "second": b}

            def strip(x):
                return REJ if x.get("reject") else {"dimorder": x["dimorder"], "optdims": x["optdims"]}
            REJ = {"reject": True}
            bad = None
            if m["second"] != m["expected"] and not m["base"].get("reject"):
                bad = f"model: set-up of the relabelled problem {m['second']} is not the relabelled set-up {m['expected']}"
            elif strip(a) != strip(m["base"]):
                bad = f"cp_als option validation {strip(a)}, model {strip(m['base'])}"
            elif not m["base"].get("reject") and strip(b) != strip(m["second"]):
                bad = f"cp_als option validation of the relabelled request {strip(b)}, model {strip(m['second'])}"
            if bad:
                out.append(Verdict("violation", bad, impl, m, None, tags))
            else:
                out.append(Verdict("ok", "", impl, m, None, tags, not a.get("reject") and c["p"] != sorted(c["p"])))
        return out


class ScaleTtm(Family):
    """Tucker-ALS's per-mode work on X and on c X: the projection on all factors but one (`ttm(..., exclude_dims=n,
    transpose=True)`) scales by c, the Gram matrix of its mode-n unfolding by c^2 — implementation, model
    (`c18_scale_ttm`) and the specification (`dscale`, `mscale`) agree exactly on integer data."""
    name = "scale_ttm"
    theorems = ("C18_scale_tucker_sweep", "C18_scale_tucker_nvecs", "C18_scale_tucker_nvecs_spec",
                "C18_scale_tucker_run", "C18_scale_tucker_run_ok")

    def gen(self, rng, tier):
        out = []
        reps = 40 if tier == "quick" else 220
        for k in range(reps):
            n = [2, 3, 3, 4][k % 4]
            if k % 5 == 0:
                shape = [rng.choice([2, 3])] * n
            elif k % 5 == 1:
                shape = [1] + rng.sample([2, 3, 4], n - 1)
                rng.shuffle(shape)
            else:
                shape = rng.sample([1, 2, 3, 4, 5][: max(n, 4)], n) if n < 4 else rng.sample([1, 2, 3, 4], 4)
            ranks = [rng.randint(1, s) for s in shape]                    # differ per mode
            X = [rng.choice([-3, -2, -1, 0, 0, 1, 2, 3]) for _ in range(int(np.prod(shape)))]
            U = [[[rng.choice([-2, -1, 0, 1, 2]) for _ in range(r)] for _ in range(s)] for s, r in zip(shape, ranks)]
            bad = None
            if k % 10 == 7:
                bad = "wrong-rows"
                m = rng.randrange(n)
                U[m] = U[m] + [U[m][0]]
            out.append({"shape": shape, "X": X, "U": U, "n": rng.randrange(n) if k % 13 else n,
                        "c": rng.choice([2, 3, "1/2", 1000, "3/4"]), "bad": bad})
        return out

    def evaluate(self, cases):
        reqs = [{"op": "c18_scale_ttm", "X": {"shape": c["shape"], "data": c["X"]}, "U": c["U"], "n": c["n"], "c": c["c"]}
                for c in cases]
        out = []
        for c, m in zip(cases, drive(reqs)):
            shape, n = c["shape"], c["n"]
            cf = float(Fraction(str(c["c"])))
            tags = [f"N{len(shape)}", f"c={c['c']}", c["bad"] or ("mode-out-of-range" if n >= len(shape) else "valid")]
            if len(set(shape)) < len(shape):
                tags.append("repeated-extent")
            if 1 in shape:
                tags.append("singleton-mode")
            X = np.array(c["X"], dtype=float).reshape(shape, order="F")
            U = [np.array(u, dtype=float).reshape(len(u), len(u[0]) if u else 0) for u in c["U"]]

            def proj(T):
                Y = ttb.tensor(T.copy()).ttm([u.copy() for u in U], exclude_dims=n, transpose=True)
                Yn = Y.to_tenmat(np.array([n])).double()
                return {"ttm": dense_j(Y), "gram": jval(Yn @ Yn.T)}
            a, b = call(proj, X), call(proj, cf * X)
            impl = {"X": strip_exc(a), "cX": strip_exc(b)}
            bad = None
            if m["ttm"].get("reject"):
                if not (a.get("reject") and b.get("reject")):
                    bad = "the model rejects, the implementation does not"
            elif a.get("reject") or b.get("reject"):
                bad = f"the implementation raises {a.get('exc') or b.get('exc')}, the model does not"
            else:
                g = m["grams"]
                if m["ttm_scaled"] != m["ttm_expected"] or g["gram_scaled"] != g["gram_expected"]:
                    bad = "model: the projection / Gram matrix of c X is not c / c^2 times that of X"
                elif not deep_eq(a["ok"]["ttm"], m["ttm"]["ok"]) or not deep_eq(a["ok"]["gram"], g["gram"]):
                    bad = "ttm(exclude_dims, transpose) / Gram matrix of X differ from the model"
                elif not deep_eq(b["ok"]["ttm"], m["ttm_scaled"]["ok"]) or not deep_eq(b["ok"]["gram"], g["gram_scaled"]):
                    bad = "ttm(exclude_dims, transpose) / Gram matrix of c X differ from the model"
            if bad:
                out.append(Verdict("violation", bad, impl, m, None, tags))
            else:
                out.append(Verdict("ok", "", impl, m, None, tags, not m["ttm"].get("reject") and any(x != 0 for x in c["X"])))
        return out


class RelabelTtm(Family):
    """what HOSVD / Tucker-ALS do per mode, on an array and on its relabelling: `permute`, one mode product
    (`ttm`, plain and transposed) and the Gram matrix of an unfolding — implementation, model (`c18_relabel_ttm`) and
    the specification (`C18_relabel_hosvd_step`: mode k of the relabelled array is mode p[k] of the array) agree exactly."""
    name = "relabel_ttm"
    theorems = ("C18_relabel_hosvd_step", "C18_relabel_hosvd")

    def gen(self, rng, tier):
        out = []
        reps = 40 if tier == "quick" else 220
        for i in range(reps):
            n = [2, 3, 3, 4][i % 4]
            if i % 5 == 0:
                shape = [rng.choice([2, 3])] * n
            elif i % 5 == 1:
                shape = [1] + rng.sample([2, 3, 4], n - 1)
                rng.shuffle(shape)
            else:
                shape = rng.sample([1, 2, 3, 4, 5], n) if n < 4 else rng.sample([1, 2, 3, 4], 4)
            p = rng.sample(range(n), n)
            if n == 4 and i % 2:
                p = rng.choice(PERMS4[:7])
            k = rng.randrange(n)
            tr = i % 3 == 0
            ext = shape[p[k]]
            r = rng.randint(1, 3)
            U = ([[rng.choice([-2, -1, 0, 1, 2]) for _ in range(r)] for _ in range(ext)] if tr else
                 [[rng.choice([-2, -1, 0, 1, 2]) for _ in range(ext)] for _ in range(r)])
            bad = None
            if i % 10 == 7:
                bad = "wrong-size"
                U = [row + [1] for row in U] if not tr else U + [U[0]]
            X = [rng.choice([-3, -2, -1, 0, 0, 1, 2, 3]) for _ in range(int(np.prod(shape)))]
            out.append({"shape": shape, "X": X, "p": p, "k": k, "U": U, "transpose": tr, "bad": bad})
        return out

    def evaluate(self, cases):
        reqs = [{"op": "c18_relabel_ttm", "X": {"shape": c["shape"], "data": c["X"]}, "p": c["p"], "U": c["U"],
                 "k": c["k"], "transpose": c["transpose"]} for c in cases]
        out = []
        for c, m in zip(cases, drive(reqs)):
            shape, p, k, tr = c["shape"], c["p"], c["k"], c["transpose"]
            tags = [f"N{len(shape)}", "transpose" if tr else "plain", c["bad"] or "valid",
                    "id" if p == sorted(p) else ("involution" if [p[i] for i in p] == sorted(p) else "non-involution")]
            if len(set(shape)) < len(shape):
                tags.append("repeated-extent")
            if 1 in shape:
                tags.append("singleton-mode")
            X = np.array(c["X"], dtype=float).reshape(shape, order="F")
            U = np.array(c["U"], dtype=float)

            def gram(T, mode):
                M = T.to_tenmat(np.array([mode])).double()
                return jval(M @ M.T)
            T = ttb.tensor(X.copy())
            Tp = T.permute(np.array(p))
            a = call(lambda: dense_j(Tp.ttm(U.copy(), k, transpose=tr)))
            b = call(lambda: dense_j(T.ttm(U.copy(), p[k], transpose=tr).permute(np.array(p))))
            impl = {"permuted": dense_j(Tp), "ttm_perm": strip_exc(a), "ttm_then_perm": strip_exc(b)}
            bad = None
            if not deep_eq(dense_j(Tp), m["permuted"]):
                bad = "permute differs from the model"
            elif m["ttm_perm"] != m["ttm_expected"]:
                bad = "model: the product in mode k of the relabelled array is not the relabelled product in mode p[k]"
            elif m["gram_perm"] != m["gram"]:
                bad = "model: the Gram matrices of the two unfoldings differ"
            elif bool(a.get("reject")) != bool(m["ttm_perm"].get("reject")) or bool(b.get("reject")) != bool(m["ttm_perm"].get("reject")):
                bad = "ttm accepts / rejects differently from the model"
            elif not a.get("reject") and not (deep_eq(a["ok"], m["ttm_perm"]["ok"]) and deep_eq(b["ok"], m["ttm_perm"]["ok"])):
                bad = "ttm of the relabelled array / relabelled ttm differ from the model"
            elif not (deep_eq(gram(Tp, k), m["gram_perm"]) and deep_eq(gram(T, p[k]), m["gram"])):
                bad = "the Gram matrix of the unfolding differs from the model"
            if bad:
                out.append(Verdict("violation", bad, impl, m, None, tags))
            else:
                out.append(Verdict("ok", "", impl, m, None, tags, p != sorted(p) and any(x != 0 for x in c["X"])))
        return out


# --- interface usage ---------------------------------------------------------------------------
DUNDER = ("__lt__", "__le__", "__gt__", "__ge__", "__eq__", "__ne__", "__pow__", "__sub__", "__rsub__", "__add__",
          "__radd__", "__mul__", "__rmul__", "__imul__", "__truediv__", "__neg__", "__getitem__", "__setitem__")
PKG = os.path.dirname(os.path.abspath(ttb.__file__))


def recording(base):
    own = os.path.abspath(sys.modules[base.__module__].__file__)

    def note(self, name):
        f = sys._getframe(2)
        fn = os.path.abspath(f.f_code.co_filename)
        if fn != own and fn.startswith(PKG):
            object.__getattribute__(self, "_c18log").add((os.path.relpath(fn, PKG), name))

    class Rec(base):
        def __getattribute__(self, name):
            if name != "_c18log":
                note(self, name)
            return super().__getattribute__(name)

    def mk(op):
        def f(self, *a):
            note(self, op)
            return getattr(base, op)(self, *a)
        return f
    for op in DUNDER:
        if hasattr(base, op):
            setattr(Rec, op, mk(op))
    Rec.__hash__ = base.__hash__
    return Rec


_REC = {}


def rec_data(X, rep):
    if not _REC:
        _REC["dense"], _REC["sparse"] = recording(ttb.tensor), recording(ttb.sptensor)
    if rep == "dense":
        t = _REC["dense"](X.copy())
    else:
        s0 = ttb.tensor(X.copy()).to_sptensor()
        t = _REC["sparse"](s0.subs, s0.vals, s0.shape)
    object.__setattr__(t, "_c18log", set())
    return t


# members of the data object each driver may touch; "iface" = the representation-independent interface of
# C18_repr_independent (Query.shape/normSq/mttkrp/innerK/ttmT/gram/entry), "stored" = representation specific
# (only cp_apr and gcp_opt, which have one code path per representation: C18_repr_apr_*)
IFACE = {
    "cp_als": {"iface": {"ndims", "shape", "norm", "mttkrp", "innerprod", "nvecs", "__class__"}, "stored": set()},
    "tucker_als": {"iface": {"ndims", "shape", "norm", "ttm", "nvecs"}, "stored": set()},
    # hosvd / tucker_als validate the requested ranks against `shape` (metadata: Query.shape)
    "hosvd": {"iface": {"ndims", "shape", "norm", "double", "__pow__", "__sub__", "copy"}, "stored": set()},  # dense-only driver: `double()` / `**` / `-` read the values as an array
    "cp_apr": {"iface": {"ndims", "shape", "norm", "innerprod", "__lt__", "__class__"},
               "stored": {"subs", "vals", "nnz", "order", "to_tenmat"}},
    "gcp": {"iface": {"ndims", "shape", "norm", "__class__", "copy"}, "stored": {"data", "__imul__"}},
}
# what ktensor.innerprod(data) calls back on the data object
CALLBACK = {"ktensor.py": {"shape", "ttv", "__class__"}}


class Iface(Family):
    """which members of the data object the drivers touch (hypothesis `UsesOnly` of C18_repr_independent)."""
    name = "iface"
    theorems = ("C18_repr_independent", "C18_repr_als_uses_interface")

    def gen(self, rng, tier):
        out = []
        for alg in ALGS_ALL:
            for rep in ("dense", "sparse"):
                if rep == "sparse" and alg in ("hosvd", "gcp"):
                    continue
                for p in (0, 1):
                    for start in ("given", "random") + (("nvecs",) if alg in ("cp_als", "tucker_als") else ()):
                        if alg == "hosvd" and start != "given":
                            continue
                        if alg == "tucker_als" and start == "nvecs" and rep == "sparse":
                            continue  # sptensor.nvecs is C14's subject
                        c = base_case(rng, tier, alg)
                        c.update(rep=rep, printitn=p, start=start, maxiters=2, nocopy=True)
                        out.append(c)
        return out

    def evaluate(self, cases):
        out = []
        for c in cases:
            alg = c["alg"]
            fam = "cp_apr" if alg.startswith("cp_apr") else alg
            X, init = make_problem(c)
            d = rec_data(X, c["rep"])
            ini = init_for(alg, c, init) if c["start"] == "given" else c["start"]
            r = run_alg(alg, d, c, init=ini, printitn=c["printitn"], seed=1)
            log = object.__getattribute__(d, "_c18log")
            tags = [alg, c["rep"], c["start"], f"p{c['printitn']}"]
            impl = {"touched": sorted(f"{f}:{n}" for f, n in log), "run": brief(r)}
            if r.get("reject"):
                out.append(Verdict("ok", "", impl, None, None, tags + ["reject"], False))
                continue
            allowed = IFACE[fam]
            extra = []
            for f, n in log:
                base = os.path.basename(f)
                if base in CALLBACK:
                    if n not in CALLBACK[base]:
                        extra.append(f"{f}:{n}")
                elif n not in allowed["iface"] and n not in allowed["stored"]:
                    extra.append(f"{f}:{n}")
            stored = sorted(n for f, n in log if n in allowed["stored"])
            if stored:
                tags.append("representation-specific-path")
            if not log:
                out.append(Verdict("corr", f"{alg}: the recording data object saw no access at all", impl, None, None, tags))
            elif extra:
                out.append(Verdict("corr", f"{alg} touches members of the data object outside the modelled interface: "
                                   f"{sorted(extra)}", impl, None, None, tags))
            elif fam in ("cp_als", "tucker_als", "hosvd") and stored:
                out.append(Verdict("corr", f"{alg} reads representation-specific members {stored}", impl, None, None, tags))
            else:
                out.append(Verdict("ok", "", impl, None, None, tags, True))
        return out


class AprObserve(Family):
    """the in-place re-normalisation of CP-APR's printing branch: implementation vs model, and its effect on
    the next `redistribute(0)`."""
    name = "apr_observe"
    theorems = ("C18_print_apr_renormalise",)

    def gen(self, rng, tier):
        out = []
        for _ in range(30 if tier == "quick" else 200):
            n = rng.choice([2, 3])
            R = rng.choice([1, 2, 3])
            normalised = rng.random() < 0.5
            facs = []
            for _m in range(n):
                rows = rng.choice([2, 4])
                cols = []
                for _r in range(R):
                    if rows == 2:
                        col = rng.choice([[Fraction(1, 2), Fraction(1, 2)], [Fraction(1, 4), Fraction(3, 4)], [Fraction(1), Fraction(0)]])
                    else:
                        col = rng.choice([[Fraction(1, 4)] * 4, [Fraction(1, 2), Fraction(1, 4), Fraction(1, 8), Fraction(1, 8)],
                                          [Fraction(0), Fraction(1, 2), Fraction(0), Fraction(1, 2)]])
                    k = Fraction(1) if normalised else rng.choice([Fraction(1), Fraction(2), Fraction(1, 2), Fraction(4)])
                    cols.append([x * k for x in col])
                facs.append([[cols[r][i] for r in range(R)] for i in range(rows)])
            out.append({"weights": [rng.randint(1, 9) for _ in range(R)], "factors": jval(facs), "normalised": normalised})
        return out

    def evaluate(self, cases):
        reqs = [{"op": "c18_apr_observe", "K": {"weights": c["weights"], "factors": c["factors"]}} for c in cases]
        models = drive(reqs)
        out = []
        for c, m in zip(cases, models):
            fl = [np.array([[float(Fraction(x)) for x in row] for row in f]) for f in c["factors"]]
            w = np.array(c["weights"], dtype=float)

            def kj(K):
                return {"weights": jval(K.weights), "factors": [jval(f) for f in K.factor_matrices]}
            K1 = ttb.ktensor([f.copy() for f in fl], w.copy())
            K1.normalize(weight_factor=0, normtype=1)
            obs = kj(K1)
            K1.redistribute(0)
            then = kj(K1)
            K2 = ttb.ktensor([f.copy() for f in fl], w.copy())
            K2.redistribute(0)
            plain = kj(K2)
            impl = {"observed": obs, "then_redistributed": then, "redistributed": plain}
            tags = ["normalised" if c["normalised"] else "unnormalised"]
            v = Verdict("ok", "", impl, m, None, tags, True)
            if not deep_eq(impl, m):
                v = Verdict("corr", "ktensor.normalize(weight_factor=0, normtype=1) / redistribute(0) differ from the model",
                            impl, m, None, tags)
            elif c["normalised"] and not deep_eq(then, plain):
                v = Verdict("violation", "on a normalised model the printing branch's re-normalisation changes what the "
                            "next outer iteration starts from", impl, m, None, tags)
            out.append(v)
        return out


class MuFixup(Family):
    """CP-APR MU's kappa fix-up acts on the LIVE model: what `redistribute(n)` finds in factor n at outer
    iteration it must be the model fix-up of what `normalize(mode=n)` left there one outer iteration earlier,
    with the multiplier Phi[n] of that iteration — nothing (in particular no printing branch) may have touched
    the factor in between.  Observed by wrapping ktensor.normalize / ktensor.redistribute and
    pyttb.cp_apr.calculate_phi (restored in `finally`)."""
    name = "mu_fixup"
    theorems = ("C18_print_independent_mu", "C18_print_mu_fixup_id")
    KAPPA, KAPPATOL = 0.01, 1e-10

    def gen(self, rng, tier):
        out = []
        for _ in range(1 if tier == "quick" else 5):
            for pat in GUESS_PATTERNS:
                for rep in ("dense", "sparse"):
                    for p in (0, 1, 2):
                        c = base_case(rng, tier, "cp_apr_mu", n=rng.choice([2, 3]))
                        c.update(guess=pat, rep=rep, printitn=p, maxiters=3, rate=1.0)
                        out.append(c)
        return out

    def evaluate(self, cases):
        import importlib
        apr = importlib.import_module("pyttb.cp_apr")
        out, reqs, slots = [], [], []
        for c in cases:
            X, init = make_problem(c)
            N = len(c["shape"])
            events, last_phi, after_norm = [], {}, {}
            o_phi, o_norm, o_red = apr.calculate_phi, ttb.ktensor.normalize, ttb.ktensor.redistribute

            def w_phi(Data, Model, rank, n, Pi, eps, _o=o_phi):
                r = _o(Data, Model, rank, n, Pi, eps)
                last_phi[int(n)] = np.array(r, copy=True)
                return r

            def w_norm(self, weight_factor=None, sort=False, normtype=2, mode=None, _o=o_norm):
                r = _o(self, weight_factor, sort, normtype, mode)
                for m in (range(self.ndims) if mode is None else [int(mode)]):
                    after_norm[m] = np.array(self.factor_matrices[m], copy=True)
                return r

            def w_red(self, mode, _o=o_red):
                m = int(mode)
                events.append((m, np.array(self.factor_matrices[m], copy=True),
                               None if m not in after_norm else after_norm[m].copy(),
                               None if m not in last_phi else last_phi[m].copy()))
                return _o(self, mode)
            apr.calculate_phi, ttb.ktensor.normalize, ttb.ktensor.redistribute = w_phi, w_norm, w_red
            try:
                r = run_alg("cp_apr_mu", as_data(X, c["rep"]), c, init=init_for("cp_apr_mu", c, init), printitn=c["printitn"])
            finally:
                apr.calculate_phi, ttb.ktensor.normalize, ttb.ktensor.redistribute = o_phi, o_norm, o_red
            tags = [c["rep"], "guess=" + c["guess"], f"p{c['printitn']}"]
            if r.get("reject"):
                out.append(Verdict("ok", "", brief(r), None, None, tags + ["reject"], False))
                continue
            k0 = len(reqs)
            for e, (m, found, left, phi) in enumerate(events):
                it = e // N
                if left is None:
                    continue
                if phi is None:
                    phi = np.zeros_like(left)
                reqs.append({"op": "c18_mu_fixup", "it": it, "kappa": jval(self.KAPPA), "kappatol": jval(self.KAPPATOL),
                             "Phi": jval(phi), "A": jval(left)})
                slots.append((len(out), it, m, jval(found)))
            out.append(Verdict("ok", "", {"events": len(events), "run": brief(r)}, None, None, tags, len(reqs) > k0))
        acted = {}
        for (k, it, m, found), mod in zip(slots, drive(reqs)):
            if mod["violates"]:
                acted[k] = acted.get(k, 0) + 1
            if out[k].status == "ok" and not deep_eq(found, mod["A"]):
                out[k] = Verdict("violation", f"cp_apr mu: at outer iteration {it} the live factor of mode {m} is not the "
                                 "fix-up of what the previous outer iteration left there (something touched the model in between)",
                                 {"found": found}, mod, None, out[k].tags)
        for k, v in enumerate(out):
            if v.status == "ok" and acted.get(k):
                out[k] = Verdict("ok", "", v.impl, None, None, list(v.tags) + ["fixup-acted"], v.nontrivial)
        return out


# --- same numbers, different dtype / memory layout ------------------------------------------------------------
# magnitude per dtype chosen so that squares / sums of squares / products leave the dtype's range while every
# entry is exactly representable in it AND in float64
F32_TOL = float(__import__('os').environ.get('C18_F32_TOL', '1e-3'))  # see ASSUMPTIONS (float32 norm)
DTYPE_MAG = {"int64": [3e10, 2e9], "int32": [3e4, 1.5e9], "int16": [200, 3e4], "uint8": [60, 250],
             "float32": [50, 4000]}


class Dtype(Family):
    """The same NUMBERS presented as float64 / int64 / int32 / int16 / uint8 / float32 dense tensors built from C-
    or F-ordered source arrays, or as a sparse tensor with float or integer values, and integer data scaled by a
    positive integer: same model, fit, ranks and iteration counts."""
    name = "dtype"
    theorems = ("C18_repr_independent", "C18_repr_denote", "C18_repr_shape_is_metadata", "C18_scale_fit",
                "C18_scale_hosvd_rank")

    def gen(self, rng, tier):
        out = []
        for rep_no in range(1 if tier == "quick" else 4):
            for alg in ALGS_ALL:
                for dt in DTYPE_MAG:
                    c = base_case(rng, tier, alg, n=rng.choice([2, 3, 3]))
                    c["dtype"] = dt
                    c["mag"] = DTYPE_MAG[dt][(rep_no + len(out)) % 2]
                    c["nonneg"] = dt == "uint8" or c.get("kind") == "counts"
                    if alg == "tucker_als":
                        c["maxiters"] = 4
                    if alg == "cp_als":
                        c["maxiters"] = 6
                    if alg == "hosvd":
                        c["detail"] = [rng.choice([3e-2, 1e-2])]
                        c["noise"] = 1e-2
                        c["tol"] = rng.choice([0.02, 0.05, 0.2])
                    out.append(c)
        return out

    @staticmethod
    def integer_data(c):
        X0, init = make_problem(c)
        if c.get("kind") == "counts":
            top = {"uint8": 255, "int16": 32767, "float32": 2 ** 24}.get(c["dtype"], 2 ** 31 - 1)
            Xi = np.minimum(np.round(X0), top)
        else:
            if c.get("nonneg"):
                X0 = np.abs(X0)
            Xi = np.round(X0 / np.abs(X0).max() * c["mag"])
        return Xi, init

    def evaluate(self, cases):
        out = []
        for c in cases:
            alg, dt = c["alg"], c["dtype"]
            Xi, init = self.integer_data(c)
            tags = [alg, dt, f"mag={c['mag']:g}" if c.get("kind") != "counts" else "counts"]
            kw = dict(init=init_for(alg, c, init))
            base = run_alg(alg, ttb.tensor(np.array(Xi, dtype=np.float64, order="C")), c, **kw)
            pres = [("float64-F", lambda: ttb.tensor(np.array(Xi, dtype=np.float64, order="F")), 1),
                    (dt + "-C", lambda: ttb.tensor(np.array(Xi, order="C").astype(dt, order="C")), 1),
                    (dt + "-F", lambda: ttb.tensor(np.array(Xi, order="F").astype(dt, order="F")), 1)]
            sparse_ok = alg in ALGS_CP or alg == "tucker_als"
            if sparse_ok:
                pres.append(("sparse-float64", lambda: as_data(Xi, "sparse"), 1))
                pres.append(("sparse-" + dt, lambda: ttb.tensor(Xi.astype(dt)).to_sptensor(), 1))
            if alg in ("cp_als", "tucker_als", "hosvd") and dt != "float32":
                # positive integer scaling of integer data, still exactly representable (int64 holds it)
                for k in (3, 1000):
                    if np.abs(Xi).max() * k < 2 ** 52:
                        pres.append((f"int64-x{k}", lambda k=k: ttb.tensor((Xi * k).astype(np.int64)), k))
                if np.abs(Xi).max() * 2 <= {"int64": 2 ** 62, "int32": 2 ** 31 - 1, "int16": 32767, "uint8": 255}[dt]:
                    pres.append((f"{dt}-x2", lambda: ttb.tensor((Xi * 2).astype(dt)), 2))
            impl = {"float64-C": brief(base)}
            worst, what, at, bad = 0.0, "", None, None
            for label, build, k in pres:
                r = run_alg(alg, build(), c, **kw)
                impl[label] = brief(r)
                if bool(r.get("reject")) != bool(base.get("reject")):
                    bad = f"{alg}: the presentation {label} {'raises ' + str(r.get('exc')) if r.get('reject') else 'returns a model'}, float64 does not"
                    break
                if r.get("reject"):
                    continue
                f32 = "float32" in label
                if f32:
                    # norm() accumulates in the data's precision: the FIT of float32 data carries float32 rounding
                    # (reported as a candidate); model tensor at the usual tolerance, stop decisions not compared
                    w, wh = compare(base, r, scale=k, nums=False, ints=False)
                    for key in base["nums"]:
                        v = num_rel(base["nums"][key] * (k if key == "normresidual" else 1.0), r["nums"][key])
                        if v * (TOL / F32_TOL) > w:
                            w, wh = v * (TOL / F32_TOL), f"{key} (float32: {v:.1e} against {F32_TOL:g})"
                else:
                    w, wh = compare(base, r, scale=k)
                tol = TOL_SCALE if (alg == "cp_als" and k != 1) else TOL
                if w / tol > worst:
                    worst, what, at = w / tol, f"{label}: {wh} ({w:.2e})", label
            if base.get("reject") and bad is None:
                out.append(Verdict("ok", "", impl, None, None, tags + ["both-reject"], False))
                continue
            if bad:
                out.append(Verdict("violation", bad, impl, None, None, tags))
                continue
            if "float32" in dt:
                tags.append("float32-norm")
            Xf = np.array(Xi, dtype=np.float64)
            out.append(judge(worst * TOL, what, TOL, tags, f"{alg} float64 vs {at}",
                             lambda: sensitivity(alg, Xf, "dense", c, **kw), impl))
        return out

    def shrink(self, case):
        if len(case["shape"]) > 2:
            c = dict(case)
            c["shape"] = case["shape"][:-1]
            if "ranks" in c:
                c["ranks"] = c["ranks"][:-1]
            yield c
        if case.get("maxiters", 1) > 1:
            c = dict(case)
            c["maxiters"] = case["maxiters"] - 1
            yield c


def families():
    return [Repr(), Print(), Seed(), Scale(), Relabel(), RelabelCleanup(), RelabelSetup(), RelabelTtm(), ScaleTtm(), Iface(), AprObserve(),
            MuFixup(), Dtype()]
