"""C14 — leading mode-n vectors (`nvecs`) of tensor / sptensor / ktensor / ttensor.

Three families.

gram        the matrix each class hands to its eigen-solver, captured exactly (integer data) by
            temporarily replacing the solver entry points with recorders, compared with the
            proved model, with the model's specification side and with an independent numpy
            reference X_(n) X_(n)^T; plus which solver is called (`r < size - 1`).
post_exact  the post-processing (order by -|w|, first r, sign rule) with a stand-in solver that
            returns EXACT eigenpairs of a prepared matrix in shuffled order; the result is compared
            exactly with the model, and the property (orthonormal eigenvectors for the r largest
            eigenvalues in decreasing order, sign rule) is evaluated exactly on the result.
real_solver the property on the implementation with the real ARPACK / LAPACK solvers at 1e-8 on
            arrays with separated spectra held in all four representations: real dtype, shape,
            orthonormality, eigen-residual against the r largest eigenvalues in decreasing order,
            sign rule, equal subspaces across representations.
"""
from __future__ import annotations

import itertools
from fractions import Fraction

import numpy as np
import pyttb as ttb
import scipy.linalg
import scipy.sparse
import scipy.sparse.linalg

from harness import gen
from harness.lib import Family, Verdict, call, deep_eq, drive, jval

RULE = ("integer-valued dense / sparse (sparsity some/all, stored order sorted/reversed/shuffled) / Kruskal "
        "(ranks 1..3, weights of both signs) / Tucker (dense and sparse core; factor matrices numpy arrays or "
        "scipy.sparse coo matrices - all of them, only mode n, all but mode n, a random subset) tensors of order 2..4 with extents "
        "1..5 incl. singleton modes, every mode n, a count r on each side of the switch r < size-1, both "
        "flipsign settings, plus dense / sparse / Tucker-core storage in uint8, int8, int16, int32, int64, float32 "
        "(bool for sparse) with magnitudes that overflow the dtype in a sum of products while X_(n)X_(n)^T stays "
        "exactly representable (gram, and with the real solvers); prepared exact spectra (distinct eigenvalues, dyadic orthogonal eigenvector "
        "matrices built from signed permutations and 4x4 Hadamard blocks) returned in shuffled order for every "
        "mode, every 1<=r<=size and both flipsign settings (post_exact); planted Tucker structure with "
        "geometrically separated spectrum plus noise and random integer arrays held in all four "
        "representations plus three Tucker holders with scipy.sparse factor matrices (all / even / odd modes, dense and "
        "sparse core), every mode, every 1<=r<=size, both flipsign settings, real solvers (real_solver); "
        "non-trivial = accepted, more than one row, non-zero array; distinct = distinct case hash")
ASSUMPTIONS = [
    "the eigen-solvers (ARPACK eigsh, LAPACK eigh/eig) enter the model as a service with the contract "
    "'orthonormal eigenpairs of the symmetric argument, for eigsh those of largest magnitude, in any order'; "
    "the contract is checked at 1e-8 on every real-solver call through the eigen-residual of the result",
    "np.argsort of the short arrays occurring here keeps the order of ties (insertion sort below 17 elements); "
    "the exact family avoids ties in |w| altogether",
    "scipy.sparse coo/csr products have the logical matrix-product semantics",
    "spectra without separation (relative gap below 1e-6 among the requested leading eigenvalues) are outside "
    "the property's quantifier and are not judged with the real solvers",
]
TRUSTED_EXTRA = ["numpy einsum / moveaxis / reshape / linalg.eigvalsh as the independent reference for X_(n) X_(n)^T "
                 "and its spectrum"]
EXHAUSTIVE = {"quick": False, "thorough": False}

TOL = 1e-8
REPS = ("dense", "sparse", "ktensor", "ttensor")
#: Tucker holders whose factor matrices are scipy.sparse coo matrices: all of them / the even modes / the odd modes
#: (so that for every mode n there is a holder with factor n sparse next to dense ones, and one the other way round)
REPS_SF = ("ttensor_sf_all", "ttensor_sf_even", "ttensor_sf_odd")


# --------------------------------------------------------------------------------------------
# building the objects and the independent reference
# --------------------------------------------------------------------------------------------
def f_index(shape, i):
    idx, mult = 0, 1
    for s, x in zip(shape, i):
        idx += x * mult
        mult *= s
    return idx


def arr_dense(x, dtype=float):
    return np.array(x["data"], dtype=dtype).reshape(tuple(x["shape"]), order="F")


def arr_sparse(x, dtype=float):
    a = np.zeros(tuple(x["shape"]), dtype=dtype)
    for s, v in zip(x["subs"], x["vals"]):
        a[tuple(s)] += v
    return a


def arr_ktensor(x, dtype=float):
    fac = [np.array(f, dtype=dtype).reshape(len(f), len(x["weights"])) for f in x["factors"]]
    shape = tuple(f.shape[0] for f in fac)
    a = np.zeros(shape, dtype=dtype)
    for r, lam in enumerate(x["weights"]):
        comp = np.array(lam, dtype=dtype)
        for f in fac:
            comp = np.multiply.outer(comp, f[:, r])
        a = a + comp
    return a


def arr_ttensor(x, dtype=float):
    a = arr_dense(x["core"], dtype)
    for k, f in enumerate(x["factors"]):
        U = np.array(f, dtype=dtype).reshape(len(f), x["core"]["shape"][k])
        a = np.moveaxis(np.tensordot(U, a, axes=(1, k)), 0, k)
    return a


ARR = {"dense": arr_dense, "sparse": arr_sparse, "ktensor": arr_ktensor, "ttensor": arr_ttensor,
       "ttensor_sp": arr_ttensor}


def ref_gram(A, n):
    Xn = np.moveaxis(A, n, 0).reshape(A.shape[n], -1)
    return Xn @ Xn.T


# Storage dtypes other than float64.  pyttb keeps the dtype of the array it is given (tensor data,
# sptensor vals, ttensor core); ktensor accepts float factors / weights only; a bool tensor cannot be
# unfolded (tenmat refuses it), so bool occurs for sptensor only.  (lo, hi) are magnitudes for which a
# sum of products overflows the dtype while X_(n) X_(n)^T stays far below 2^53 (float32: exact).
DTYPES = {
    "uint8": (0, 255), "int8": (-128, 127), "int16": (-30000, 30000), "int32": (-50000, 50000),
    "int64": (-1000000, 1000000), "float32": (-9, 9), "bool": (0, 1),
}
NONFLOAT = tuple(DTYPES)
DTYPE_REPS = {"dense": [d for d in DTYPES if d != "bool"], "sparse": list(DTYPES),
              "ttensor": [d for d in DTYPES if d != "bool"], "ttensor_sp": ["int16", "int32", "float32"]}


def np_dtype(name):
    return np.dtype(name or "float64")


def dtype_values(rng, dname, n, zero_share=0.2):
    lo, hi = DTYPES[dname]
    out = []
    for _ in range(n):
        u = rng.random()
        if u < zero_share:
            out.append(0)
        elif u < 0.75:   # near the ends of the range: products and sums leave the dtype
            v = rng.choice([lo, hi]) if lo < 0 else hi
            out.append(int(v - (rng.randint(0, max(1, abs(hi) // 8)) if v > 0 else -rng.randint(0, max(1, abs(lo) // 8)))))
        else:
            out.append(rng.randint(lo, hi))
    if dname == "bool":
        out = [1 if v else 0 for v in out]
    if not any(out):
        out[0] = hi
    return out


def gen_x_dtype(rng, rep, s, dname):
    if rep == "dense":
        return {"shape": s, "data": dtype_values(rng, dname, gen.numel(s))}
    if rep == "sparse":
        return dense_to_sparse_x(rng, s, dtype_values(rng, dname, gen.numel(s), rng.choice([0.2, 0.5])))
    cs = [rng.randint(1, min(k, 3)) for k in s]
    return {"core": {"shape": cs, "data": dtype_values(rng, dname, gen.numel(cs))},
            "factors": [[[rng.choice([-1, 0, 1, 1]) for _ in range(c)] for _ in range(k)] for k, c in zip(s, cs)]}


def mk_dense_dt(shape_, data, dname):
    return ttb.tensor(np.array(data).reshape(tuple(shape_), order="F").astype(np_dtype(dname)), copy=True)


#: which factor matrices of a Tucker tensor are handed over as scipy.sparse.coo_matrix (the ttensor constructor
#: accepts numpy arrays and coo matrices); relative to the mode n that nvecs is asked for, because the code
#: switches on the type of factor n (product with the unfolded core) and forms F_k^T F_k of the others
SF_PATTERNS = ("all", "only-n", "all-but-n", "some")


def sf_flags(rng, N, n, pat):
    if pat == "all":
        return [True] * N
    if pat == "only-n":
        return [k == n for k in range(N)]
    if pat == "all-but-n":
        return [k != n for k in range(N)]
    if pat == "some":
        f = [rng.random() < 0.5 for _ in range(N)]
        if not any(f):
            f[rng.randrange(N)] = True
        return f
    return [False] * N


def sf_wrap(f, on):
    """the factor matrix as the Tucker constructor receives it"""
    return scipy.sparse.coo_matrix(f) if on else f


def mk_obj(rep, x, dname=None, sf=None):
    if rep == "dense":
        return mk_dense_dt(x["shape"], x["data"], dname)
    if rep == "sparse":
        if len(x["subs"]) == 0:
            return ttb.sptensor(shape=tuple(x["shape"]))
        return ttb.sptensor(np.array(x["subs"], dtype=int),
                            np.array(x["vals"]).reshape(-1, 1).astype(np_dtype(dname)), tuple(x["shape"]))
    if rep == "ktensor":
        return gen.mk_ktensor(ttb, x["weights"], x["factors"])
    core = mk_dense_dt(x["core"]["shape"], x["core"]["data"], dname)
    if rep == "ttensor_sp":
        core = core.to_sptensor()
    facs = [np.array(f, dtype=float).reshape(len(f), x["core"]["shape"][k]) for k, f in enumerate(x["factors"])]
    if sf:
        facs = [sf_wrap(f, on) for f, on in zip(facs, sf)]
    return ttb.ttensor(core, facs)


def shape_of(rep, x):
    if rep in ("dense", "sparse"):
        return list(x["shape"])
    return [len(f) for f in x["factors"]]


def dense_to_sparse_x(rng, shape, data, order=None):
    cells = gen.all_subs(shape)
    ent = [(c, v) for c, v in zip(cells, data) if v != 0]
    order = order or rng.choice(["sorted", "reversed", "shuffled"])
    if order == "reversed":
        ent.reverse()
    elif order == "shuffled":
        rng.shuffle(ent)
    return {"shape": list(shape), "subs": [e[0] for e in ent], "vals": [e[1] for e in ent]}


# --------------------------------------------------------------------------------------------
# replacing the solver entry points
# --------------------------------------------------------------------------------------------
def materialise(a):
    if scipy.sparse.issparse(a):
        return np.asarray(a.toarray(), dtype=float)
    if isinstance(a, np.ndarray):
        return np.array(a, dtype=float, copy=True)
    return np.asarray(a @ np.eye(a.shape[1]), dtype=float)  # LinearOperator


class Solvers:
    """Context manager: records every solver call of `nvecs`; with `standin` the recorded call is
    answered by the stand-in instead of ARPACK / LAPACK."""

    SLOTS = ((scipy.sparse.linalg, "eigsh"), (scipy.sparse.linalg, "eigs"),
             (scipy.linalg, "eigh"), (scipy.linalg, "eig"))

    def __init__(self, standin=None):
        self.standin = standin
        self.calls = []

    def __enter__(self):
        self.saved = [(m, n, getattr(m, n)) for m, n in self.SLOTS]
        for m, n, orig in self.saved:
            setattr(m, n, self._wrap(n, orig))
        return self

    def __exit__(self, *a):
        for m, n, orig in self.saved:
            setattr(m, n, orig)

    def _wrap(self, name, orig):
        def f(a, *args, **kw):
            k = args[0] if args else kw.get("k")
            self.calls.append({"solver": name, "arg": materialise(a), "k": k,
                               "argtype": type(a).__name__, "dtype": str(getattr(a, "dtype", "?"))})
            if self.standin is not None:
                return self.standin(name, self.calls[-1]["arg"], k)
            return orig(a, *args, **kw)
        return f


def path_of(m, r):
    return "iter" if r < m - 1 else "dense"


def mat_j(a):
    return jval(np.asarray(a, dtype=float))


# --------------------------------------------------------------------------------------------
# generators of integer-valued objects
# --------------------------------------------------------------------------------------------
def gen_shape(rng, tier):
    N = rng.choice([2, 2, 3, 3, 4])
    smax = 5 if N <= 3 else 3
    s = [rng.randint(1, smax) for _ in range(N)]
    if rng.random() < 0.3:
        s[rng.randrange(N)] = 1
    if rng.random() < 0.5 and N <= 3:
        s[rng.randrange(N)] = rng.choice([4, 5])
    return s


def gen_x(rng, rep, s):
    if rep == "dense":
        return {"shape": s, "data": gen.dense_data(rng, s, rng.choice([0.0, 0.3]))}
    if rep == "sparse":
        data = gen.dense_data(rng, s, rng.choice([0.0, 0.4, 0.7]))
        if not any(data):
            data[rng.randrange(len(data))] = rng.choice([-3, 2, 5])
        return dense_to_sparse_x(rng, s, data)
    if rep == "ktensor":
        R = rng.randint(1, 3)
        w = [rng.choice([-3, -2, -1, 1, 2, 3]) for _ in range(R)]
        return {"weights": w, "factors": [gen.matrix(rng, k, R, -3, 3) for k in s]}
    cs = [rng.randint(1, min(k, 3)) for k in s]
    zs = 0.2 if rep == "ttensor" else 0.6
    data = gen.dense_data(rng, cs, zs)
    if not any(data):
        data[0] = 2
    return {"core": {"shape": cs, "data": [max(-4, min(4, v)) for v in data]},
            "factors": [gen.matrix(rng, k, c, -2, 2) for k, c in zip(s, cs)]}


def rs_for(rng, m, tier):
    """counts on both sides of the solver switch."""
    rs = {1, m}
    if m >= 3:
        rs.add(m - 2)
        rs.add(m - 1)
    if tier == "thorough":
        rs |= set(range(1, m + 1))
    return sorted(r for r in rs if 1 <= r <= m)


# --------------------------------------------------------------------------------------------
# family 1: the matrix handed to the solver
# --------------------------------------------------------------------------------------------
class Gram(Family):
    name = "gram"
    theorems = ("C14_gram_dense", "C14_gram_sparse", "C14_gram_sparse_refuses", "C14_gram_kruskal",
                "C14_gram_tucker", "C14_gram_agree", "C14_solver_choice")

    def gen(self, rng, tier):
        out = []
        n_obj = 16 if tier == "quick" else 120
        for rep in ("dense", "sparse", "ktensor", "ttensor", "ttensor_sp"):
            fixed = [[2, 3], [3, 1, 4], [4, 3, 2]] if rep != "ttensor_sp" else [[3, 2]]
            shapes = fixed + [gen_shape(rng, tier) for _ in range(n_obj if rep != "ttensor_sp" else n_obj // 3)]
            if rep == "sparse":
                shapes.append([1, 1])
                shapes.append([1, 1, 1])
            for s in shapes:
                x = gen_x(rng, rep, list(s))
                for n in range(len(s)):
                    for r in rs_for(rng, s[n], tier):
                        out.append({"rep": rep, "x": x, "n": n, "r": r, "flipsign": rng.random() < 0.5})
        # Tucker tensors whose factor matrices are scipy.sparse coo matrices (added after mutant M1971): the same
        # objects as above, every pattern relative to the mode asked for, counts on both sides of the solver switch
        tk = [c for c in out if c["rep"] in ("ttensor", "ttensor_sp")]
        for c in tk:
            N = len(c["x"]["factors"])
            pats = SF_PATTERNS if tier == "thorough" else rng.sample(SF_PATTERNS, 2)
            for pat in pats:
                if pat == "some" and N < 3:
                    continue
                out.append({**c, "flipsign": rng.random() < 0.5, "sf": sf_flags(rng, N, c["n"], pat), "sfpat": pat})
        # storage dtypes other than float64, magnitudes that overflow the dtype in a sum of products
        for rep, dnames in DTYPE_REPS.items():
            for dname in dnames:
                shapes = [[3, 4], [4, 2, 3]] + [gen_shape(rng, tier) for _ in range(1 if tier == "quick" else 8)]
                for s in shapes:
                    if rep.startswith("ttensor") and len(s) > 3:
                        s = s[:3]
                    if rep == "sparse" and all(e == 1 for e in s):
                        continue
                    x = gen_x_dtype(rng, rep, list(s), dname)
                    for n in range(len(s)):
                        rs = rs_for(rng, s[n], tier)
                        if tier == "quick" and len(rs) > 2:
                            rs = [rs[0], rs[-1]]
                        for r in rs:
                            out.append({"rep": rep, "x": x, "n": n, "r": r, "flipsign": rng.random() < 0.5,
                                        "dtype": dname})
                            if rep.startswith("ttensor") and rng.random() < (0.5 if tier == "quick" else 1.0):
                                pat = rng.choice(SF_PATTERNS[:3])
                                out.append({**out[-1], "sf": sf_flags(rng, len(s), n, pat), "sfpat": pat})
        return out

    def evaluate(self, cases):
        impls, reqs = [], []
        for c in cases:
            rep, x, n, r = c["rep"], c["x"], c["n"], c["r"]
            with Solvers() as rec:
                res = call(lambda: mk_obj(rep, x, c.get("dtype"), c.get("sf")).nvecs(n, r, flipsign=c["flipsign"]))
            impls.append((res, rec.calls))
            mrep = "ttensor" if rep == "ttensor_sp" else rep
            reqs.append({"op": "nvecs_gram", "rep": mrep, "X": x, "n": n})
            reqs.append({"op": "nvecs_path", "m": shape_of(rep, x)[n], "r": r})
        models = drive(reqs)
        out = []
        for k, c in enumerate(cases):
            rep, x, n, r = c["rep"], c["x"], c["n"], c["r"]
            res, calls = impls[k]
            mg, mpath = models[2 * k], models[2 * k + 1]
            s = shape_of(rep, x)
            m = s[n]
            tags = [rep, f"N{len(s)}", f"path-{path_of(m, r)}", "singleton-mode" if 1 in s else "no-singleton",
                    "dtype-" + (c.get("dtype") or "float64")]
            if rep.startswith("ttensor"):
                tags.append("factors-sparse-" + c.get("sfpat", "none"))
            A = ARR[rep](x, dtype=object)  # exact integer arithmetic
            G_ref = jval(np.array(ref_gram(A, n), dtype=object).tolist())
            info = {"calls": [(cl["solver"], cl["argtype"]) for cl in calls]}
            if not calls:
                # the code refused before reaching a solver
                if rep == "sparse" and all(e == 1 for e in s) and "reject" in mg["model"]:
                    what = ("sparse|refused|all-singleton sptensor is refused (ValueError) although its 1x1 Gram "
                            "matrix has the eigenvector [1]")
                    tags.append("all-singleton")
                else:
                    what = f"{rep}|refused|nvecs raised before calling a solver: {res.get('exc')} {res.get('msg')}"
                out.append(Verdict("violation", what, res, mg, None, tags, False))
                continue
            cl = calls[0]
            G_impl = mat_j(cl["arg"])
            bad, status = None, "violation"
            if len(calls) != 1:
                bad = f"{rep}|solver-calls|{len(calls)} solver calls"
            elif not deep_eq(G_impl, G_ref):
                bad = f"{rep}|gram|matrix handed to the solver differs from X_(n) X_(n)^T"
            elif "ok" not in mg["model"] or not deep_eq(G_impl, mg["model"]["ok"]):
                bad, status = f"{rep}|gram-model|matrix handed to the solver differs from the proved model", "corr"
            elif not deep_eq(mg["spec"], mg["model"]["ok"]):
                bad, status = f"{rep}|gram-spec|model and specification side of the driver disagree", "corr"
            else:
                used = "iter" if cl["solver"] in ("eigsh", "eigs") else "dense"
                if used != mpath or used != path_of(m, r):
                    bad = f"{rep}|solver-choice|{cl['solver']} called for size {m}, r {r}; model says {mpath}"
                elif used == "iter" and cl["k"] != r:
                    bad = f"{rep}|solver-choice|iterative solver asked for {cl['k']} pairs, r = {r}"
            if bad is None and "ok" not in res and res.get("exc") in ("ValueError", "TypeError"):
                bad = (f"{rep}|raised|the solver rejected the matrix it was handed ({cl['argtype']}, dtype "
                       f"{cl['dtype']}): {res.get('msg')}")
            nt = m > 1 and bool(np.any(np.array(A, dtype=float) != 0))
            out.append(Verdict(status if bad else "ok", bad or "", {"gram": G_impl, **info}, mg, G_ref, tags, nt))
        return out

    def shrink(self, case):
        x, rep = case["x"], case["rep"]
        if rep == "dense":
            for k, v in enumerate(x["data"]):
                if v not in (0, 1):
                    d = list(x["data"])
                    d[k] = 0 if abs(v) == 1 else 1
                    yield {**case, "x": {**x, "data": d}}
        if rep == "sparse" and len(x["subs"]) > 1:
            for k in range(len(x["subs"])):
                yield {**case, "x": {**x, "subs": x["subs"][:k] + x["subs"][k + 1:], "vals": x["vals"][:k] + x["vals"][k + 1:]}}


# --------------------------------------------------------------------------------------------
# family 2: exact post-processing with a stand-in solver
# --------------------------------------------------------------------------------------------
H4 = [[1, 1, 1, 1], [1, -1, 1, -1], [1, 1, -1, -1], [1, -1, -1, 1]]


def dyadic_orthogonal(rng, m):
    """m x m orthogonal matrix with dyadic entries: signed permutation, times a 4x4 Hadamard/2 block
    when there is room."""
    Q = [[Fraction(0)] * m for _ in range(m)]
    if m >= 4 and rng.random() < 0.75:
        for i in range(4):
            for j in range(4):
                Q[i][j] = Fraction(H4[i][j], 2)
        for i in range(4, m):
            Q[i][i] = Fraction(1)
    else:
        for i in range(m):
            Q[i][i] = Fraction(1)
    rp, cp = gen.perm(rng, m), gen.perm(rng, m)
    sg = [rng.choice([-1, 1]) for _ in range(m)]
    return [[Q[rp[i]][cp[j]] * sg[j] for j in range(m)] for i in range(m)]


def prepared_case(rng, rep, s, n):
    """An object of representation `rep`, shape `s`, whose mode-n Gram matrix is V diag(d) V^T exactly,
    with d = squares of distinct integers (at most one zero)."""
    m = s[n]
    rest = [e for k, e in enumerate(s) if k != n]
    P = gen.numel(rest)
    rho = min(m, P)
    if rho < m - 1:
        return None
    V = dyadic_orthogonal(rng, m)
    sv = rng.sample(range(1, 9), rho)
    sv = [x * rng.choice([-1, 1]) for x in sv] + [0] * (m - rho)
    cols = rng.sample(range(P), rho)                       # where the rho columns of V diag(s) go
    rest_subs = gen.all_subs(rest) if rest else [[]]

    def full_sub(a, j):
        return j[:n] + [a] + j[n:]

    if rep in ("dense", "sparse"):
        data = {}
        for p in range(rho):
            j = rest_subs[cols[p]]
            for a in range(m):
                data[tuple(full_sub(a, j))] = V[a][p] * sv[p]
        cells = gen.all_subs(s)
        flat = [data.get(tuple(c), Fraction(0)) for c in cells]
        if rep == "dense":
            x = {"shape": s, "data": [float(v) for v in flat]}
        else:
            x = dense_to_sparse_x(rng, s, [float(v) for v in flat])
    elif rep == "ktensor":
        facs = []
        for k in range(len(s)):
            if k == n:
                facs.append([[float(V[a][p]) for p in range(rho)] for a in range(m)])
            else:
                kk = k if k < n else k - 1
                facs.append([[1.0 if rest_subs[cols[p]][kk] == a else 0.0 for p in range(rho)] for a in range(s[k])])
        x = {"weights": [float(v) for v in sv[:rho]], "factors": facs}
    else:
        # core with mode n of extent rho, other factors signed permutation matrices
        cs = list(s)
        cs[n] = rho
        perms = [gen.perm(rng, e) for e in s]
        signs = [[rng.choice([-1, 1]) for _ in range(e)] for e in s]
        data = {}
        for p in range(rho):
            j = rest_subs[cols[p]]
            data[tuple(full_sub(p, j))] = float(sv[p])
        core = {"shape": cs, "data": [data.get(tuple(c), 0.0) for c in gen.all_subs(cs)]}
        facs = []
        for k in range(len(s)):
            if k == n:
                facs.append([[float(V[a][p]) for p in range(rho)] for a in range(m)])
            else:
                facs.append([[float(signs[k][b]) if perms[k][a] == b else 0.0 for b in range(s[k])] for a in range(s[k])])
        x = {"core": core, "factors": facs}
    w = [float(v * v) for v in sv]
    return {"x": x, "w": w, "V": [[float(v) for v in row] for row in V]}


class PostExact(Family):
    name = "post_exact"
    theorems = ("C14_postprocess", "C14_sign_rule", "C14_sign_rule_sparse_dense_path", "C14_argsort_spec",
                "C14_gram_eigenvalues_nonneg", "C14_sparse_dense_path_counterexample")

    def gen(self, rng, tier):
        out = []
        base = [[3, 4], [4, 3], [5, 6], [6, 5], [2, 2], [4, 2, 2], [2, 3, 2], [5, 2, 3], [1, 3], [3, 1, 3], [2, 2, 2, 2]]
        shapes = list(base)
        for _ in range(5 if tier == "quick" else 50):
            shapes.append(gen_shape(rng, tier))
        for s in shapes:
            for rep in REPS:
                if rep == "sparse" and all(e == 1 for e in s):
                    continue
                ns = list(range(len(s)))
                if tier == "quick" and len(ns) > 2:
                    ns = rng.sample(ns, 2)
                for n in ns:
                    pc = prepared_case(rng, rep, list(s), n)
                    if pc is None:
                        continue
                    m = s[n]
                    rs = list(range(1, m + 1))
                    if tier == "quick" and len(rs) > 3:
                        rs = sorted({1, m - 2, m - 1, m} & set(rs))
                    for r in rs:
                        fss = [True, False] if tier == "thorough" else [rng.random() < 0.6]
                        for fs in fss:
                            out.append({"rep": rep, "x": pc["x"], "n": n, "r": r, "flipsign": fs,
                                        "w": pc["w"], "V": pc["V"], "shuffle": gen.perm(rng, m)})
                            if rep == "ttensor" and rng.random() < 0.5:
                                pat = rng.choice(SF_PATTERNS[:3])
                                out.append({**out[-1], "shuffle": gen.perm(rng, m), "sf": sf_flags(rng, len(s), n, pat),
                                            "sfpat": pat})
        return out

    @staticmethod
    def standin_for(c):
        w = np.array(c["w"], dtype=float)
        V = np.array(c["V"], dtype=float)
        m = len(w)
        shuffle = c["shuffle"]

        def standin(name, arg, k):
            if name in ("eigsh", "eigs"):
                top = set(np.argsort(-np.abs(w), kind="stable")[:k].tolist())
                idx = [i for i in shuffle if i in top]
            else:
                idx = list(shuffle)
            ww = w[idx].copy()
            if name in ("eig", "eigs"):
                ww = ww.astype(complex)
            return ww, V[:, idx].copy()
        return standin

    def evaluate(self, cases):
        impls, reqs = [], []
        for c in cases:
            rep, x, n, r = c["rep"], c["x"], c["n"], c["r"]
            with Solvers(self.standin_for(c)) as rec:
                res = call(lambda: mk_obj(rep, x, None, c.get("sf")).nvecs(n, r, flipsign=c["flipsign"]))
            m = len(c["w"])
            path = path_of(m, r)
            # what the stand-in returned, in the order it returned it
            ret = None
            if rec.calls:
                name, k = rec.calls[0]["solver"], rec.calls[0]["k"]
                ww, VV = self.standin_for(c)(name, None, k)
                ret = (np.real(ww), VV)
            impls.append((res, rec.calls, ret))
            w_ret = mat_j(ret[0]) if ret else []
            V_ret = mat_j(ret[1]) if ret else []
            G = np.array(c["V"]) @ np.diag(c["w"]) @ np.array(c["V"]).T
            reqs.append({"op": "nvecs_post", "w": w_ret, "V": V_ret, "r": r, "flipsign": c["flipsign"],
                         "rowperm": rep == "sparse" and path == "dense"})
            got = res.get("ok")
            ok_shape = got is not None and np.asarray(got).shape == (m, r) and not np.iscomplexobj(got)
            lam = sorted(c["w"], reverse=True)[:r]
            reqs.append({"op": "nvecs_contract", "G": mat_j(G), "V": mat_j(got) if ok_shape else [[0] * r] * m,
                         "lam": mat_j(lam), "m": m, "K": r})
            # the prepared pairs themselves satisfy the service contract exactly
            reqs.append({"op": "nvecs_contract", "G": mat_j(G), "V": mat_j(c["V"]), "lam": mat_j(c["w"]), "m": m, "K": m})
        models = drive(reqs)
        out = []
        for k, c in enumerate(cases):
            rep, r = c["rep"], c["r"]
            res, calls, ret = impls[k]
            mpost, mcon, mprep = models[3 * k], models[3 * k + 1], models[3 * k + 2]
            if not (mprep["ortho"] and all(mprep["eig"])):
                raise RuntimeError("C14 generator: prepared eigenpairs violate the contract")
            m = len(c["w"])
            path = path_of(m, r)
            ident = ret is not None and list(np.argsort(-np.abs(ret[0]), kind="stable")) == list(range(len(ret[0])))
            tags = [rep, f"path-{path}", "flipsign" if c["flipsign"] else "noflip",
                    "already-sorted" if ident else "shuffled", f"m{m}"]
            if rep == "ttensor":
                tags.append("factors-sparse-" + c.get("sfpat", "none"))
            G = np.array(c["V"]) @ np.diag(c["w"]) @ np.array(c["V"]).T
            if "ok" not in res:
                out.append(Verdict("violation", f"{rep}|raised|{res.get('exc')}: {res.get('msg')}", res, mpost, None, tags))
                continue
            got = np.asarray(res["ok"])
            items = []
            corr = None
            if len(calls) != 1 or not np.array_equal(calls[0]["arg"], G):
                corr = f"{rep}|prepared|the solver did not receive the prepared matrix exactly"
            if np.iscomplexobj(got):
                items.append(f"{rep}|dtype|complex result")
            if got.shape != (m, r):
                items.append(f"{rep}|shape|{got.shape} instead of {(m, r)}")
            else:
                if not mcon["ortho"]:
                    items.append(f"{rep}|orthonormal|columns are not orthonormal (exact)")
                if not all(mcon["eig"]):
                    items.append(f"{rep}|eigvec|column {mcon['eig'].index(False)} is not an eigenvector for the "
                                 f"eigenvalue of its rank in decreasing order (exact)")
                if c["flipsign"]:
                    gr = np.real(got)
                    for j in range(r):
                        if np.max(gr[:, j]) != np.max(np.abs(gr[:, j])):
                            items.append(f"{rep}|sign|column {j}: no entry of largest magnitude is positive")
                            break
                if corr is None and not np.iscomplexobj(got) and not deep_eq(mat_j(got), mpost["V"]):
                    corr = f"{rep}|post-model|result differs from the model's post-processing of the same solver answer"
            if items:
                out.append(Verdict("violation", " ;; ".join(items), mat_j(np.real(got)), mpost, mcon, tags))
            elif corr:
                out.append(Verdict("corr", corr, mat_j(np.real(got)), mpost, mcon, tags))
            else:
                out.append(Verdict("ok", "", mat_j(got), mpost, mcon, tags, m > 1))
        return out


# --------------------------------------------------------------------------------------------
# family 3: the property with the real solvers
# --------------------------------------------------------------------------------------------
def planted(rng, s, noise):
    """Tucker-structured array: planted super-diagonal core with geometrically decaying entries plus
    Gaussian noise, every mode scaled by distinct geometric weights (so that every mode-n spectrum is
    separated), and random orthogonal factors.  Returns (core, factors)."""
    nprng = np.random.default_rng(rng.getrandbits(32))
    core = noise * nprng.standard_normal(tuple(s))
    for k in range(min(s)):
        core[tuple(k for _ in s)] += 3.0 * (0.45 ** k) * (1 if k % 2 == 0 else -1)
    for mode, e in enumerate(s):
        sc = np.array([0.6 ** i for i in range(e)])
        core = core * sc.reshape([-1 if k == mode else 1 for k in range(len(s))])
    facs = []
    for e in s:
        q, _ = np.linalg.qr(nprng.standard_normal((e, e)))
        facs.append(q)
    return core, facs


def holders(core, facs, stored_order, rng, dname=None):
    """the same array as tensor, sptensor, ktensor (one component per core entry) and ttensor.
    With `dname` (identity factors only) the dense data, the sparse values and the Tucker core are stored
    in that dtype; the Kruskal holder stays float64 (its constructor accepts nothing else)."""
    s = [f.shape[0] for f in facs]
    dt = np_dtype(dname)
    A = core
    for k, U in enumerate(facs):
        A = np.moveaxis(np.tensordot(U, A, axes=(1, k)), 0, k)
    T = ttb.tensor(np.asfortranarray(A.astype(dt)), copy=True)
    subs = [c for c in gen.all_subs(s) if A[tuple(c)] != 0]
    if stored_order == "reversed":
        subs.reverse()
    elif stored_order == "shuffled":
        rng.shuffle(subs)
    S = ttb.sptensor(np.array(subs, dtype=int), np.array([A[tuple(c)] for c in subs]).reshape(-1, 1).astype(dt),
                     tuple(s))
    cs = list(core.shape)
    csubs = gen.all_subs(cs)
    w = np.array([core[tuple(c)] for c in csubs])
    kf = [np.stack([facs[k][:, c[k]] for c in csubs], axis=1) for k in range(len(s))]
    K = ttb.ktensor(kf, w)
    Tk = ttb.ttensor(ttb.tensor(np.asfortranarray(core.astype(dt)), copy=True), [np.asfortranarray(f) for f in facs])
    objs = {"dense": T, "sparse": S, "ktensor": K, "ttensor": Tk}
    objs.update(sf_holders(core.astype(dt), facs))
    return A, objs


def sf_holders(core, facs):
    """the Tucker holder again with scipy.sparse coo factor matrices (dense and sparse core alternate with the pattern)"""
    out = {}
    for name in REPS_SF:
        on = [name.endswith("all") or (k % 2 == 0) == name.endswith("even") for k in range(len(facs))]
        c = ttb.tensor(np.asfortranarray(core), copy=True)
        if name.endswith("odd") and np.any(core != 0):
            c = c.to_sptensor()
        out[name] = ttb.ttensor(c, [sf_wrap(np.asfortranarray(f), o) for f, o in zip(facs, on)])
    return out


def shared_holders(rng, s, stored_order):
    """a symmetric CP model sum_r w_r a_r x ... x a_r held as tensor, sptensor, ktensor and ttensor; the Kruskal and Tucker
    holders reference ONE factor-matrix object in every mode (copy=False)"""
    m, N = s[0], len(s)
    R = min(m, 3)
    nprng = np.random.default_rng(rng.getrandbits(32))
    Af = np.asfortranarray(nprng.standard_normal((m, R)) + 2.0 * np.eye(m, R))
    w = np.array([3.0, -2.0, 1.25][:R])
    A = np.zeros(tuple(s))
    for r in range(R):
        t = np.array(w[r])
        for _ in range(N):
            t = np.multiply.outer(t, Af[:, r])
        A = A + t
    T = ttb.tensor(np.asfortranarray(A), copy=True)
    subs = [list(c) for c in gen.all_subs(list(s)) if A[tuple(c)] != 0]
    if stored_order == "reversed":
        subs.reverse()
    elif stored_order == "shuffled":
        rng.shuffle(subs)
    S = ttb.sptensor(np.array(subs, dtype=int), np.array([A[tuple(c)] for c in subs]).reshape(-1, 1), tuple(s))
    K = ttb.ktensor([Af] * N, w.copy(), copy=False)
    assert all(f is K.factor_matrices[0] for f in K.factor_matrices), "the shared-object Kruskal holder was copied"
    core = np.zeros((R,) * N)
    for r in range(R):
        core[(r,) * N] = w[r]
    Tk = ttb.ttensor(ttb.tensor(np.asfortranarray(core), copy=True), [Af] * N, copy=False)
    objs = {"dense": T, "sparse": S, "ktensor": K, "ttensor": Tk}
    # (the sparse-factor holders are built with the copying constructor: copy=False refuses coo matrices)
    objs.update(sf_holders(core, [Af] * N))
    return A, objs


class RealSolver(Family):
    name = "real_solver"
    theorems = ("C14_postprocess", "C14_sign_rule", "C14_same_subspace", "C14_gram_agree", "C14_max_energy",
                "C14_max_energy_dense_path")

    def gen(self, rng, tier):
        out = []
        shapes = [[3, 4], [5, 4], [4, 3, 2], [3, 1, 4], [2, 3, 2, 3], [6, 3, 2]]
        for _ in range(8 if tier == "quick" else 80):
            s = gen_shape(rng, tier)
            if all(e == 1 for e in s):
                s[0] = 3
            shapes.append(s)
        plan = [(s, rng.choice(["planted", "planted", "integer"]), None) for s in shapes]
        # storage dtypes other than float64 (dense data, sparse values, Tucker core), overflowing magnitudes
        dts = [d for d in DTYPES if d != "bool"]
        for d in dts:
            for s in [[4, 3], [3, 2, 4]] + ([gen_shape(rng, tier) for _ in range(4)] if tier == "thorough" else []):
                if all(e == 1 for e in s):
                    s[0] = 3
                plan.append((s, "integer", d))
        # magnitudes (added after seed C14u): the same planted / integer arrays multiplied by 1e-9 ... 1e9 - every
        # comparison below is relative to the leading eigenvalue, so a cut-off or tolerance that is absolute in the
        # data (an entry of the Gram matrix "below machine epsilon", a norm "close to zero") is a failing input
        scaled = []
        for s in [[4, 3, 2], [5, 4], [3, 1, 4], [6, 4, 5]] + ([gen_shape(rng, tier) for _ in range(6)] if tier == "thorough" else []):
            if all(e == 1 for e in s):
                s[0] = 3
            for sc in ([1e-9, 1e-6, 1e6, 1e9] if tier == "quick" else [1e-12, 1e-9, 2e-8, 1e-6, 1e-3, 1e3, 1e6, 1e9, 1e12]):
                scaled.append((s, rng.choice(["planted", "integer"]), None, sc))
        plan = [p + (None,) for p in plan] + scaled
        # holders whose components are ONE array object (added after seed C14v): a symmetric Kruskal / Tucker model
        # built without copying from a single factor matrix - equal values in distinct arrays behave differently from
        # one shared object for any code that tells components apart by identity
        for m, N in ([(4, 3), (3, 4), (5, 2)] if tier == "quick" else [(4, 3), (3, 4), (5, 2), (3, 3), (2, 4), (6, 3), (4, 2)]):
            plan.append(([m] * N, "shared", None, None))
        for s, kind, dname, sc in plan:
            seed = rng.getrandbits(32)
            noise = rng.choice([0.0, 1e-2, 0.3])
            stored = rng.choice(["sorted", "reversed", "shuffled"])
            for n in range(len(s)):
                rs = list(range(1, s[n] + 1))
                if dname and tier == "quick" and len(rs) > 2:
                    rs = [1, s[n]]
                for r in rs:
                    fss = [True, False] if (tier == "thorough" or len(rs) <= 3) and not dname else [rng.random() < 0.5]
                    for fs in fss:
                        c = {"shape": list(s), "kind": kind, "seed": seed, "n": n, "r": r, "flipsign": fs,
                             "noise": noise, "stored": stored}
                        if dname:
                            c["dtype"] = dname
                        if sc is not None:
                            c["scale"] = sc
                        out.append(c)
        return out

    @staticmethod
    def build(c):
        import random
        rng = random.Random(c["seed"])
        s = c["shape"]
        if c["kind"] == "shared":
            return shared_holders(rng, s, c["stored"])
        if c["kind"] == "planted":
            core, facs = planted(rng, s, c["noise"])
        elif c.get("dtype"):
            core = np.array(dtype_values(rng, c["dtype"], gen.numel(s)), dtype=float).reshape(tuple(s), order="F")
            facs = [np.eye(e) for e in s]
        else:
            nprng = np.random.default_rng(c["seed"])
            core = nprng.integers(-4, 5, size=tuple(s)).astype(float)
            if not core.any():
                core.flat[0] = 1.0
            facs = [np.eye(e) for e in s]
        if c.get("scale") is not None:
            core = core * float(c["scale"])
        return holders(core, facs, c["stored"], rng, c.get("dtype"))

    def evaluate(self, cases):
        out = []
        cache = {}
        for c in cases:
            key = (tuple(c["shape"]), c["kind"], c["seed"], c["noise"], c["stored"], c.get("dtype"), c.get("scale"))
            if key not in cache:
                cache.clear()
                cache[key] = self.build(c)
            A, objs = cache[key]
            n, r, fs = c["n"], c["r"], c["flipsign"]
            m = c["shape"][n]
            path = path_of(m, r)
            G = ref_gram(A, n)
            ev, evec = np.linalg.eigh(G)
            order = np.argsort(-ev)
            ev, evec = ev[order], evec[:, order]
            # relative to the leading eigenvalue (no absolute floor: the property is homogeneous in the data)
            scale = abs(ev[0]) if (c.get("scale") is not None and abs(ev[0]) > 0) else max(1.0, abs(ev[0]))
            lead = ev[: min(r + 1, m)]
            gaps = (lead[:-1] - lead[1:]) / scale if len(lead) > 1 else np.array([1.0])
            separated = bool(np.all(gaps > 1e-6)) and ev[0] > 0
            tags = [c["kind"], f"N{len(c['shape'])}", f"path-{path}", "flipsign" if fs else "noflip",
                    "separated" if separated else "not-separated", "singleton-mode" if 1 in c["shape"] else "no-singleton",
                    "dtype-" + (c.get("dtype") or "float64"), "scale-%g" % c.get("scale", 1.0)]
            if not separated:
                out.append(Verdict("ok", "", None, None, None, tags, False))
                continue
            Pref = evec[:, :r] @ evec[:, :r].T
            items, res_j = [], {}
            for rep in REPS + REPS_SF:
                with Solvers() as rec:
                    res = call(lambda: objs[rep].nvecs(n, r, flipsign=fs))
                if "ok" not in res:
                    items.append(f"{rep}|raised|{res.get('exc')}: {res.get('msg')}")
                    continue
                V = np.asarray(res["ok"])
                res_j[rep] = V.tolist() if not np.iscomplexobj(V) else str(V.tolist())
                if len(rec.calls) == 1 and np.max(np.abs(rec.calls[0]["arg"] - G)) > TOL * scale:
                    items.append(f"{rep}|gram|matrix handed to the solver is not X_(n) X_(n)^T")
                if np.iscomplexobj(V):
                    items.append(f"{rep}|dtype|complex result")
                    V = np.real(V)
                if V.shape != (m, r):
                    items.append(f"{rep}|shape|{V.shape} instead of {(m, r)}")
                    continue
                if np.max(np.abs(V.T @ V - np.eye(r))) > TOL:
                    items.append(f"{rep}|orthonormal|max deviation {np.max(np.abs(V.T @ V - np.eye(r))):.2e}")
                resid = np.max(np.abs(G @ V - V * ev[:r][None, :])) / scale
                if resid > TOL:
                    items.append(f"{rep}|eigvec|residual {resid:.2e} against the r largest eigenvalues in decreasing order")
                captured = float(np.trace(V.T @ G @ V))
                if abs(captured - float(np.sum(ev[:r]))) > TOL * scale * r:
                    items.append(f"{rep}|energy|captured energy {captured:.6g} differs from the sum of the r largest "
                                 f"eigenvalues {float(np.sum(ev[:r])):.6g}")
                else:
                    Wr, _ = np.linalg.qr(np.random.default_rng(c["seed"] % 1000 + r).standard_normal((m, r)))
                    if float(np.trace(Wr.T @ G @ Wr)) > captured + TOL * scale * r:
                        items.append(f"{rep}|energy|a random orthonormal frame captures more energy")
                if fs:
                    for j in range(r):
                        if np.max(V[:, j]) < np.max(np.abs(V[:, j])) * (1 - 1e-12):
                            items.append(f"{rep}|sign|column {j}: the entry of largest magnitude is negative")
                            break
                if r == m or gaps[-1] > 1e-4:
                    d = np.max(np.abs(V @ V.T - Pref))
                    if d > TOL:
                        items.append(f"{rep}|subspace|distance {d:.2e} from the leading invariant subspace shared by "
                                     f"the other representations")
            if items:
                out.append(Verdict("violation", " ;; ".join(items), res_j, None, {"eigenvalues": ev.tolist()}, tags))
            else:
                out.append(Verdict("ok", "", None, None, None, tags, m > 1))
        return out


def families():
    return [Gram(), PostExact(), RealSolver()]
