"""C08 — Kruskal re-parameterisations preserve the tensor and reach their normal form."""
from __future__ import annotations

import itertools
import math
import warnings
from fractions import Fraction

import numpy as np
import pyttb as ttb

from harness import gen
from harness.lib import Family, Verdict, call, deep_eq, drive, frac, jval, ktensor_j, strip_exc

RULE = ("Kruskal tensors of order 1..4 (mode sizes 1..4, singleton modes) and rank 1..4 with integer weights of "
        "either sign and zero, integer factor entries, zero columns, columns with rational and with irrational "
        "2-norm; normalize with every weight_factor (None / each mode / 'all'), sort flag, norm 1 / 2 / inf and "
        "single-mode form; arrange with every component permutation for R<=4 (thorough) and the sort/absorb forms; "
        "fixsigns alone and against references with every sign pattern of the modes, every pattern of exact sign "
        "scores out of {0, +-1, +-24/25, +-3/5, +-4/5, zero column on either side} (ties in the magnitudes, both sides "
        "of the one-more / one-fewer switch, exact floating point for the {0, +-1} patterns), references of another shape "
        "or with more components, each followed by a second call (alignment normal form, parity, idempotence); "
        "normalize() twice for each norm; arrange by p then q against arrange by p[q]; redistribute into every mode; "
        "extract with valid subsets, duplicates and invalid index lists; tovec/from_vector/update/tolist (the parameter vector "
        "handed to from_vector as 1-d / n x 1 / 1 x n with both weight flags, and as a non-vector); + - neg * ; "
        "score against permuted / perturbed copies, exact copies (tied congruences), unit-vector / 3-4-5 / zero columns "
        "and zero weights for every rank pair RB<=RA<=4 and orders 2..4, greedy=False, thresholds outside [0,1], other "
        "shapes (returns exactly on the valid requests; score = mean of the matched congruences; greedy matching); "
        "malformed arguments for each operation; sequences of 3..8 calls on live "
        "objects (tovec / tolist / extract / copy / from_vector / update from shared vectors / + / - / unary - + / scalar * on "
        "either side / permute / symmetrize / constructor followed by in-place normalize / arrange / fixsigns / redistribute) "
        "with denotation, full(), bitwise frame and round-trip checks on every live object after every step; every "
        "(creating operation x in-place operation x mutated side) combination is enumerated; "
        "non-trivial = accepted and the tensor is not identically zero; distinct = distinct case hash")
ASSUMPTIONS = [
    "square roots and N-th roots are computed exactly in the model when rational and to 2^-80 otherwise; the "
    "implementation's doubles are compared within 1e-12 (relative, one step) for the normalising operations and "
    "exactly for the round-trip and algebra operations",
    "where np.argsort / np.argmax meet exact or near ties (within 1e-9) the order of tied components is not "
    "compared with the model; the property itself (same tensor, normal form) is still checked",
]
ANCHORS = [("pyttb/ktensor.py", "ktensor." + f) for f in (
    "__init__", "from_vector", "arrange", "copy", "extract", "fixsigns", "isequal", "normalize", "redistribute",
    "score", "tolist", "tovec", "update", "__add__", "__sub__", "__neg__", "__pos__", "__mul__", "__rmul__")]
TRUSTED_EXTRA = [
    "C08: the driver's rational square root / N-th root (exact on rational squares / powers, floor at 2^-80 "
    "otherwise) stands in for the exact root assumed by the theorems; the 1-norm and max-norm paths are exact",
]
EXHAUSTIVE = {"quick": False, "thorough": False}

TOL = 1e-12
DTOL = 1e-10
#: argument conventions of a parameter vector: 1-d, n x 1 column, 1 x n row
VEC_FORMS = ("1d", "col", "row")

warnings.filterwarnings("ignore")


# ----------------------------------------------------------------------------
# helpers
# ----------------------------------------------------------------------------
def mk(c):
    return gen.mk_ktensor(ttb, c["weights"], c["factors"])


def kj(K):
    return ktensor_j(K)


def fr(x):
    v = frac(x)
    if isinstance(v, str):
        raise ValueError(v)
    return v


def k_frac(j):
    """canonical ktensor json -> (weights, factors) of Fractions"""
    return [fr(w) for w in j["weights"]], [[[fr(x) for x in row] for row in f] for f in j["factors"]]


def denote(w, fs):
    """F-order list of sum_r w_r prod_n A_n[i_n, r] (exact for Fractions)."""
    shape = [len(f) for f in fs]
    out = []
    for i in gen.all_subs(shape):
        s = 0
        for r in range(len(w)):
            p = w[r]
            for n, f in enumerate(fs):
                p = p * f[i[n]][r]
            s += p
        out.append(s)
    return out


def denote_j(j):
    w, fs = k_frac(j)
    return denote(w, fs)


def vec_close(a, b, tol=DTOL):
    if len(a) != len(b):
        return False
    scale = max([1] + [abs(x) for x in a] + [abs(x) for x in b])
    return all(abs(x - y) <= tol * scale for x, y in zip(a, b))


def num_close(a, b, tol=TOL):
    a, b = frac(a), frac(b)
    if isinstance(a, str) or isinstance(b, str):
        return a == b
    return abs(a - b) <= Fraction(tol) * max(1, abs(a), abs(b))


def close(impl, model, tol=TOL):
    if isinstance(impl, list) and isinstance(model, list):
        return len(impl) == len(model) and all(close(a, b, tol) for a, b in zip(impl, model))
    if isinstance(impl, dict) and isinstance(model, dict):
        return impl.keys() == model.keys() and all(close(impl[k], model[k], tol) for k in impl)
    if isinstance(impl, (list, dict)) or isinstance(model, (list, dict)):
        return False
    if impl is None or model is None or isinstance(impl, bool) or isinstance(model, bool):
        return impl == model
    return num_close(impl, model, tol)


def col(f, r):
    return [row[r] for row in f]


def norm_of(v, nt):
    if nt == "1":
        return sum(abs(x) for x in v)
    if nt == "inf":
        return max([abs(x) for x in v] + [0])
    return math.sqrt(float(sum(x * x for x in v)))


def unit_or_zero(v, nt):
    if all(x == 0 for x in v):
        return True
    return abs(float(norm_of(v, nt)) - 1.0) <= 1e-12


def near_ties(vals, tol=1e-9):
    v = sorted(float(x) for x in vals)
    return any(abs(a - b) <= tol * max(1.0, abs(a), abs(b)) for a, b in zip(v, v[1:]))


def nonzero_tensor(c):
    return any(x != 0 for x in denote(c["weights"], c["factors"]))


# generators --------------------------------------------------------------------
RATIONAL_COLS = {
    1: [[1], [2], [3]],
    2: [[3, 4], [4, 3], [0, 2], [5, 12], [1, 0], [-3, 4]],
    3: [[1, 2, 2], [2, 3, 6], [0, 3, 4], [2, -1, 2], [0, 0, 1], [4, 4, 7]],
    4: [[1, 1, 1, 1], [1, 2, 2, 4], [0, 0, 3, 4], [2, 4, 5, 6], [1, -1, 1, -1], [0, 2, 0, 0]],
}


def gen_col(rng, n, kind):
    if kind == "zero":
        return [0] * n
    if kind == "rational" and n in RATIONAL_COLS:
        v = list(rng.choice(RATIONAL_COLS[n]))
        rng.shuffle(v)
        s = rng.choice([1, 1, -1, 2, -2])
        return [s * x for x in v]
    v = [rng.randint(-5, 5) for _ in range(n)]
    if all(x == 0 for x in v):
        v[rng.randrange(n)] = rng.choice([-2, 1, 3])
    return v


def gen_kt(rng, shape=None, R=None, zero_cols=0.12, rational=0.5, wpool=None, distinct_weights=False):
    shape = shape or gen.shape(rng, 1, 4, 4)
    R = R or rng.choice([1, 2, 2, 3, 3, 4])
    wpool = wpool or [-3, -2, -1, 0, 1, 2, 3, 5]
    if distinct_weights and R <= len(wpool):
        weights = rng.sample(wpool, R)
    else:
        weights = [rng.choice(wpool) for _ in range(R)]
    factors = []
    for n in shape:
        cols = []
        for _ in range(R):
            u = rng.random()
            kind = "zero" if u < zero_cols else ("rational" if u < zero_cols + rational else "general")
            cols.append(gen_col(rng, n, kind))
        factors.append([[cols[r][i] for r in range(R)] for i in range(n)])
    return {"weights": weights, "factors": factors}


def shape_of(c):
    return [len(f) for f in c["factors"]]


FIXED_SHAPES = [[3], [1], [2, 3], [3, 1, 2], [2, 2, 2], [2, 3, 1, 2]]


def shrink_kt(c):
    """smaller Kruskal tensors: fewer components, fewer modes, smaller entries"""
    R = len(c["weights"])
    out = []
    if R > 1:
        for r in range(R):
            out.append({"weights": c["weights"][:r] + c["weights"][r + 1:],
                        "factors": [[row[:r] + row[r + 1:] for row in f] for f in c["factors"]]})
    if len(c["factors"]) > 1:
        for n in range(len(c["factors"])):
            out.append({"weights": c["weights"], "factors": c["factors"][:n] + c["factors"][n + 1:]})
    for n, f in enumerate(c["factors"]):
        if len(f) > 1:
            out.append({"weights": c["weights"], "factors": c["factors"][:n] + [f[:-1]] + c["factors"][n + 1:]})
    return out


class KFamily(Family):
    kt_keys = ("K",)

    def shrink(self, case):
        for key in self.kt_keys:
            if key in case and isinstance(case[key], dict) and "weights" in case[key]:
                for k2 in shrink_kt(case[key]):
                    c = dict(case)
                    c[key] = k2
                    yield c


# ----------------------------------------------------------------------------
# 1. exact operations: algebra, extract, permutation, redistribute, vectors, update
# ----------------------------------------------------------------------------
class Algebra(KFamily):
    name = "algebra"
    kt_keys = ("K", "L")
    theorems = ("C08_add", "C08_sub", "C08_add_sub_rejects", "C08_neg", "C08_smul", "C08_pos_copy",
                "C08_extract_denote", "C08_extract_int", "C08_extract_none", "C08_extract_rejects",
                "C08_arrange_perm_denote", "C08_arrange_perm_accepted_denote", "C08_arrange_perm_rejects",
                "C08_redistribute_denote", "C08_redistribute_weights_one", "C08_redistribute_accepts_rejects",
                "C08_vec_roundtrip", "C08_update_roundtrip", "C08_isequal", "C08_isequal_pinned_counterexample")

    def gen(self, rng, tier):
        out = []
        n = 12 if tier == "quick" else 300
        kts = [gen_kt(rng, s) for s in FIXED_SHAPES] + [gen_kt(rng) for _ in range(n)]
        kts.append(gen_kt(rng, [2, 3], 1))
        kts.append(gen_kt(rng, [3, 2, 2, 2], 2))
        for K in kts:
            s, R, N = shape_of(K), len(K["weights"]), len(K["factors"])
            L = gen_kt(rng, s)
            out.append({"op": "add", "K": K, "L": L})
            out.append({"op": "sub", "K": K, "L": L})
            out.append({"op": "neg", "K": K})
            out.append({"op": "pos", "K": K})
            out.append({"op": "smul", "K": K, "c": rng.choice([0, 2, -3, "1/2", -1]), "side": rng.choice(["l", "r"])})
            out.append({"op": "copy", "K": K})
            # component permutations
            perms = list(itertools.permutations(range(R)))
            if tier == "quick" and len(perms) > 6:
                perms = rng.sample(perms, 6)
            for p in perms:
                out.append({"op": "arrange_perm", "K": K, "perm": list(p), "as": rng.choice(["list", "tuple", "array"])})
            # redistribute into every mode
            for m in range(N):
                out.append({"op": "redistribute", "K": K, "mode": m})
            # extract
            subsets = [list(c) for k in range(1, R + 1) for c in itertools.permutations(range(R), k)]
            if len(subsets) > (5 if tier == "quick" else 30):
                subsets = rng.sample(subsets, 5 if tier == "quick" else 30)
            for sub in subsets:
                out.append({"op": "extract", "K": K, "idx": sub, "as": rng.choice(["list", "tuple", "array"])})
            out.append({"op": "extract", "K": K, "idx": rng.randrange(R), "as": "int"})
            out.append({"op": "extract", "K": K, "idx": None, "as": "none"})
            if R >= 2:
                out.append({"op": "extract", "K": K, "idx": [0, 0], "as": "list"})
            # vectors
            # (the parameter vector is handed over as a 1-d array, as an n x 1 column and as a 1 x n row)
            for w in (True, False):
                for how in VEC_FORMS:
                    out.append({"op": "vec", "K": K, "w": w, "as": how})
            for w in (True, False):
                n_data = R * (sum(s) + (1 if w else 0))
                for how in VEC_FORMS:
                    out.append({"op": "from_vector", "data": [rng.randint(-9, 9) for _ in range(n_data)], "shape": s,
                                "w": w, "as": how})
            out.append({"op": "tolist", "K": dict(K, weights=[1] * R)})
            out.append({"op": "update_all", "K": K, "L": gen_kt(rng, s, R)})
            modes = sorted(rng.sample(range(-1, N), rng.randint(1, N + 1)))
            out.append({"op": "update", "K": K, "modes": modes, "data": self._data(rng, K, modes)})
            out.append({"op": "isequal", "K": K, "L": K})
            K2 = {"weights": K["weights"], "factors": [[list(r) for r in f] for f in K["factors"]]}
            K2["factors"][-1][-1][-1] += 1
            out.append({"op": "isequal", "K": K, "L": K2})
            out.append({"op": "isequal", "K": K, "L": dict(K, weights=[w + 1 for w in K["weights"]])})
            out.append({"op": "construct", "factors": K["factors"], "weights": rng.choice([None, K["weights"]])})
        # malformed requests
        for K in kts[: (6 if tier == "quick" else 40)]:
            s, R, N = shape_of(K), len(K["weights"]), len(K["factors"])
            s2 = list(s)
            s2[rng.randrange(N)] += 1
            out.append({"op": "add", "K": K, "L": gen_kt(rng, s2)})
            out.append({"op": "sub", "K": K, "L": gen_kt(rng, s + [2])})
            out.append({"op": "arrange_perm", "K": K, "perm": list(range(R + 1)), "as": "list"})
            out.append({"op": "arrange_perm", "K": K, "perm": list(range(R - 1)) + [R], "as": "list"})
            out.append({"op": "arrange_perm", "K": K, "perm": list(range(R - 1)) + [-1], "as": "array"})
            if R >= 2:
                out.append({"op": "arrange_perm", "K": K, "perm": [0] * R, "as": "tuple"})
            out.append({"op": "redistribute", "K": K, "mode": N})
            out.append({"op": "redistribute", "K": K, "mode": -1})
            out.append({"op": "extract", "K": K, "idx": [], "as": "list"})
            out.append({"op": "extract", "K": K, "idx": list(range(R)) + [0], "as": "list"})
            out.append({"op": "extract", "K": K, "idx": [R], "as": "list"})
            out.append({"op": "extract", "K": K, "idx": [-1], "as": "array"})
            out.append({"op": "extract", "K": K, "idx": R, "as": "int"})
            out.append({"op": "from_vector", "data": list(range(1, R * (sum(s) + 1) + 2)), "shape": s, "w": True,
                        "as": rng.choice(VEC_FORMS)})
            out.append({"op": "from_vector", "data": list(range(1, R * sum(s) + 1)), "shape": s, "w": False})
            # a parameter vector that is not a vector: 2 x n/2, n x 1 x 1, 0-d
            nv = R * sum(s)
            if nv >= 2:     # (2 x 1 is a column)
                out.append({"op": "from_vector", "data": list(range(1, 2 * nv + 1)), "shape": s, "w": False, "as": "2rows"})
            out.append({"op": "from_vector", "data": list(range(1, nv + 1)), "shape": s, "w": False, "as": "3d"})
            out.append({"op": "update", "K": K, "modes": [0, -1][: N + 1], "data": self._data(rng, K, [-1, 0])})
            out.append({"op": "update", "K": K, "modes": [0], "data": self._data(rng, K, [0])[:-1]})
            out.append({"op": "update", "K": K, "modes": [N], "data": [1, 2, 3]})
            out.append({"op": "update", "K": K, "modes": [-1], "data": self._data(rng, K, [-1]) + [7]})
            out.append({"op": "construct", "factors": K["factors"], "weights": K["weights"] + [1]})
            if N > 1:
                out.append({"op": "construct", "factors": K["factors"][:-1] + [[row + [1] for row in K["factors"][-1]]],
                            "weights": None})
                out.append({"op": "isequal", "K": dict(K, factors=K["factors"][:-1]), "L": K})
                out.append({"op": "isequal", "K": K, "L": dict(K, factors=K["factors"][:-1])})
            out.append({"op": "isequal", "K": K, "L": gen_kt(rng, s, R + 1)})
        return out

    @staticmethod
    def _data(rng, K, modes):
        R = len(K["weights"])
        n = 0
        for k in modes:
            n += R if k == -1 else len(K["factors"][k]) * R
        return [rng.randint(-9, 9) for _ in range(n)]

    # implementation ----------------------------------------------------------
    @staticmethod
    def _seq(l, how):
        if how == "tuple":
            return tuple(l)
        if how == "array":
            return np.array(l, dtype=int)
        return list(l)

    @staticmethod
    def _vec(v, how):
        """the argument conventions of a parameter vector"""
        v = np.array(v, dtype=float)
        if how == "col":
            return v.reshape(-1, 1)
        if how == "row":
            return v.reshape(1, -1)
        if how == "2rows":
            return v.reshape(2, -1)
        if how == "3d":
            return v.reshape(-1, 1, 1)
        return v

    def impl(self, c):
        op = c["op"]
        if op == "construct":
            fs = [np.array(f, dtype=float).reshape(len(f), len(f[0])) for f in c["factors"]]
            w = None if c["weights"] is None else np.array(c["weights"], dtype=float)
            return kj(ttb.ktensor(fs, w))
        if op == "from_vector":
            return kj(ttb.ktensor.from_vector(self._vec(c["data"], c.get("as", "1d")), tuple(c["shape"]), c["w"]))
        K = mk(c["K"])
        if op in ("add", "sub"):
            L = mk(c["L"])
            return kj(K + L if op == "add" else K - L)
        if op == "neg":
            return kj(-K)
        if op == "pos":
            return kj(+K)
        if op == "copy":
            return kj(K.copy())
        if op == "smul":
            cc = float(Fraction(c["c"])) if isinstance(c["c"], str) else c["c"]
            return kj(K * cc if c["side"] == "r" else cc * K)
        if op == "arrange_perm":
            K.arrange(permutation=self._seq(c["perm"], c["as"]))
            return kj(K)
        if op == "redistribute":
            r = K.redistribute(c["mode"])
            return kj(r)
        if op == "extract":
            idx = c["idx"] if c["as"] in ("int", "none") else self._seq(c["idx"], c["as"])
            return kj(K.extract(idx))
        if op == "vec":
            v = K.tovec(c["w"])
            back = ttb.ktensor.from_vector(self._vec(v, c.get("as", "1d")), K.shape, c["w"])
            return {"vec": jval(v), "back": kj(back)}
        if op == "tolist":
            return [jval(np.asarray(f)) for f in K.tolist()]
        if op == "update_all":
            L = mk(c["L"])
            N = K.ndims
            K.update(np.arange(-1, N), L.tovec(True))
            return kj(K)
        if op == "update":
            K.update(np.array(c["modes"], dtype=int), np.array(c["data"], dtype=float))
            return kj(K)
        if op == "isequal":
            return bool(K.isequal(mk(c["L"])))
        raise ValueError(op)

    def req(self, c):
        op = c["op"]
        if op == "construct":
            return {"op": "k_construct", "factors": c["factors"], "weights": c["weights"]}
        if op == "from_vector":
            if self.spec_rejects(c) is True and c.get("as", "1d") in ("2rows", "3d"):
                # outside the model's domain (its argument is a list): answered by the specification alone, see evaluate
                return {"op": "k_from_vector", "data": [], "shape": c["shape"], "w": c["w"]}
            return {"op": "k_from_vector", "data": c["data"], "shape": c["shape"], "w": c["w"]}
        if op in ("add", "sub"):
            return {"op": "k_" + op, "K": c["K"], "L": c["L"]}
        if op in ("neg", "pos"):
            return {"op": "k_" + op, "K": c["K"]}
        if op == "copy":
            return {"op": "k_pos", "K": c["K"]}
        if op == "smul":
            return {"op": "k_smul", "K": c["K"], "c": c["c"]}
        if op == "arrange_perm":
            return {"op": "k_arrange", "K": c["K"], "perm": c["perm"]}
        if op == "redistribute":
            return {"op": "k_redistribute", "K": c["K"], "mode": c["mode"]}
        if op == "extract":
            return {"op": "k_extract", "K": c["K"], "idx": c["idx"]}
        if op == "vec":
            return {"op": "k_tovec", "K": c["K"], "w": c["w"]}
        if op == "tolist":
            return {"op": "k_tolist", "K": c["K"]}
        if op == "update_all":
            N = len(c["K"]["factors"])
            L = c["L"]
            data = list(L["weights"]) + [x for f in L["factors"] for r in range(len(L["weights"])) for x in col(f, r)]
            return {"op": "k_update", "K": c["K"], "modes": list(range(-1, N)), "data": data}
        if op == "update":
            return {"op": "k_update", "K": c["K"], "modes": c["modes"], "data": c["data"]}
        if op == "isequal":
            return {"op": "k_isequal", "K": c["K"], "L": c["L"]}
        raise ValueError(op)

    def evaluate(self, cases):
        impls = [call(self.impl, c) for c in cases]
        models = drive([self.req(c) for c in cases])
        for k, c in enumerate(cases):
            if c["op"] == "from_vector" and self.spec_rejects(c) is True and c.get("as", "1d") in ("2rows", "3d"):
                models[k] = {"reject": True}
        # second stage for the vector round trip: the model's from_vector on the model's vector
        second = {}
        reqs2 = []
        for k, (c, m) in enumerate(zip(cases, models)):
            if c["op"] == "vec":
                second[k] = len(reqs2)
                reqs2.append({"op": "k_from_vector", "data": m, "shape": shape_of(c["K"]), "w": c["w"]})
        m2 = drive(reqs2)
        out = []
        for k, (c, impl, m) in enumerate(zip(cases, impls, models)):
            out.append(self.judge(c, impl, m, m2[second[k]] if k in second else None))
        return out

    def judge(self, c, impl, m, m2):
        op = c["op"]
        tags = [op]
        ic = strip_exc(impl)
        if op in ("vec", "from_vector"):
            tags.append("vector-as-" + c.get("as", "1d") + ("-weights" if c["w"] else "-noweights"))
        if "K" in c:
            tags += [f"N{len(c['K']['factors'])}", f"R{len(c['K']['weights'])}"]
        # model side wrapped uniformly
        if op in ("vec", "pos", "copy"):
            mm = {"ok": m}
        else:
            mm = m
        spec_reject = self.spec_rejects(c)
        if "reject" in ic or "reject" in mm:
            tags.append("reject")
            if spec_reject is False:
                return Verdict("violation", f"{op}: a valid request was refused", impl, m, None, tags, False)
            if ("reject" in ic) != ("reject" in mm):
                if spec_reject is True and "reject" not in ic:
                    return Verdict("violation", f"{op}: an invalid request was accepted", impl, m, None, tags, False)
                return Verdict("corr", f"{op}: acceptance differs from the model", impl, m, None, tags, False)
            return Verdict("ok", "", impl, m, None, tags, False)
        if spec_reject is True:
            return Verdict("violation", f"{op}: an invalid request was accepted", impl, m, None, tags, False)
        r, mo = ic["ok"], mm["ok"]
        bad = None
        nt = True
        if op == "isequal":
            want = c["K"] == c["L"]
            if r != want:
                bad = f"isequal returned {r} for {'identical' if want else 'different'} Kruskal tensors"
            elif r != mo:
                return Verdict("corr", "isequal differs from the model", impl, m, None, tags)
            return Verdict("violation" if bad else "ok", bad or "", impl, m, None, tags, True)
        if op == "vec":
            K = c["K"]
            R = len(K["weights"])
            want_vec = (list(K["weights"]) if c["w"] else []) + \
                [x for f in K["factors"] for rr in range(R) for x in col(f, rr)]
            want_back = K if c["w"] else dict(K, weights=[1] * R)
            if not deep_eq(r["vec"], want_vec):
                bad = "tovec is not weights followed by the factor columns"
            elif not deep_eq(r["back"], want_back):
                bad = "from_vector(tovec(K)) does not reproduce K"
            elif not deep_eq(r["vec"], mo) or not deep_eq(r["back"], m2.get("ok")):
                return Verdict("corr", "tovec/from_vector differs from the model", impl, (m, m2), None, tags)
            return Verdict("violation" if bad else "ok", bad or "", impl, (m, m2), None, tags, True)
        if op == "tolist":
            if not deep_eq(r, c["K"]["factors"]):
                bad = "tolist of a tensor with unit weights is not its factor list"
            elif not deep_eq(r, mo):
                return Verdict("corr", "tolist differs from the model", impl, m, None, tags)
            return Verdict("violation" if bad else "ok", bad or "", impl, m, None, tags, True)
        # everything else returns a ktensor
        spec = self.spec_denote(c)
        got = denote_j(r) if [len(f) for f in r["factors"]] and all(len(f) > 0 for f in r["factors"]) else None
        if spec is not None:
            nt = any(x != 0 for x in spec)
            if got != spec:
                bad = f"{op}: the result does not denote the prescribed array"
        if bad is None:
            extra = self.spec_form(c, r)
            if extra:
                bad = extra
        if bad is None and not deep_eq(r, mo):
            return Verdict("corr", f"{op} differs from the model", impl, m, spec, tags)
        return Verdict("violation" if bad else "ok", bad or "", impl, m, None, tags, nt)

    # specification side ------------------------------------------------------
    @staticmethod
    def spec_rejects(c):
        """True / False when the property itself says reject / accept, None when it does not say."""
        op = c["op"]
        if op == "extract":
            if c["as"] == "none":
                return False
            R = len(c["K"]["weights"])
            idx = [c["idx"]] if c["as"] == "int" else c["idx"]
            return len(idx) == 0 or len(idx) > R or any(not (0 <= i < R) for i in idx)
        if op in ("add", "sub"):
            return shape_of(c["K"]) != shape_of(c["L"])
        if op in ("neg", "pos", "smul", "copy", "vec", "tolist", "update_all", "isequal"):
            if op == "isequal" and len(c["K"]["factors"]) != len(c["L"]["factors"]):
                return None
            return False
        if op == "arrange_perm":
            R = len(c["K"]["weights"])
            return sorted(c["perm"]) != list(range(R))
        if op == "redistribute":
            N = len(c["K"]["factors"])
            return not (0 <= c["mode"] < N)
        if op == "from_vector":
            # a vector (1-d, n x 1 or 1 x n) whose length is a positive multiple of the parameters per component
            if c.get("as", "1d") == "3d" or (c.get("as") == "2rows" and len(c["data"]) > 2):
                return True
            per = sum(c["shape"]) + (1 if c["w"] else 0)
            if per == 0 or len(c["data"]) == 0:
                return None
            return len(c["data"]) % per != 0
        return None

    @staticmethod
    def spec_denote(c):
        op = c["op"]
        if op in ("construct", "from_vector", "update", "update_all"):
            return None
        K = c["K"]
        d = denote(K["weights"], K["factors"])
        if op == "add":
            return [a + b for a, b in zip(d, denote(c["L"]["weights"], c["L"]["factors"]))]
        if op == "sub":
            return [a - b for a, b in zip(d, denote(c["L"]["weights"], c["L"]["factors"]))]
        if op == "neg":
            return [-a for a in d]
        if op == "smul":
            return [Fraction(c["c"]) * a for a in d]
        if op == "extract" and c["as"] != "none":
            idx = [c["idx"]] if c["as"] == "int" else c["idx"]
            return denote([K["weights"][i] for i in idx], [[[row[i] for i in idx] for row in f] for f in K["factors"]])
        return d

    @staticmethod
    def spec_form(c, r):
        op = c["op"]
        if op == "redistribute" and any(fr(w) != 1 for w in r["weights"]):
            return "redistribute left weights different from one"
        if op == "arrange_perm":
            K = c["K"]
            want = {"weights": [K["weights"][p] for p in c["perm"]],
                    "factors": [[[row[p] for p in c["perm"]] for row in f] for f in K["factors"]]}
            if not deep_eq(r, want):
                return "arrange(permutation) did not reorder the components as requested"
        if op == "update_all" and not deep_eq(r, c["L"]):
            return "update with every mode from tovec() does not reproduce the source"
        if op == "construct":
            want = {"weights": c["weights"] if c["weights"] is not None else [1] * len(c["factors"][0][0]),
                    "factors": c["factors"]}
            if not deep_eq(r, want):
                return "constructor changed its arguments"
        if op == "from_vector":
            # the inverse of tovec, written out: weights first (or ones), then every factor matrix column by column
            d, sh = c["data"], c["shape"]
            R = len(d) // (sum(sh) + (1 if c["w"] else 0))
            pos = R if c["w"] else 0
            want = {"weights": d[:R] if c["w"] else [1] * R, "factors": []}
            for n_k in sh:
                blk = d[pos:pos + n_k * R]
                want["factors"].append([[blk[rr * n_k + i] for rr in range(R)] for i in range(n_k)])
                pos += n_k * R
            if not deep_eq(r, want):
                return "from_vector did not split the parameter vector into weights and column-major factor matrices"
            return None
        if op in ("pos", "copy") and not deep_eq(r, c["K"]):
            return "copy differs from the original"
        return None


# ----------------------------------------------------------------------------
# 2. normalising operations
# ----------------------------------------------------------------------------
def check_normal_form(c, r, nt, wf_valid, mode, sort, N):
    """the promised normal form of normalize / arrange on the implementation's result"""
    w, fs = k_frac(r)
    if mode is None:
        if any(x < 0 for x in w):
            return "a weight is negative after normalisation"
    absorbed = None
    if wf_valid == "all":
        absorbed = set(range(N))
    elif wf_valid is not None:
        absorbed = {wf_valid}
    if absorbed is not None and any(x != 1 for x in w):
        return "weights are not all one after they were absorbed into factors"
    modes = range(N) if mode is None else [mode]
    for n in modes:
        if absorbed is not None and n in absorbed:
            continue
        for rr in range(len(w)):
            if not unit_or_zero(col(fs[n], rr), nt):
                return f"column {rr} of mode {n} does not have unit {nt}-norm"
    if sort and any(a < b for a, b in zip(w, w[1:])):
        return "weights are not in decreasing order"
    return None


class Normalize(KFamily):
    name = "normalize"
    theorems = ("C08_normalize_denote", "C08_normalize_unit", "C08_normalize_unit_mode", "C08_normalize_nonneg",
                "C08_normalize_sorted", "C08_normalize_absorb", "C08_normalize_accepts", "C08_normalize_rejects",
                "C08_norm1_laws", "C08_normInf_laws", "C08_norm2_laws", "C08_argsort_contract", "C08_std_lawful")

    def gen(self, rng, tier):
        out = []
        kts = [gen_kt(rng, s, distinct_weights=True) for s in FIXED_SHAPES]
        kts += [gen_kt(rng, distinct_weights=rng.random() < 0.7) for _ in range(10 if tier == "quick" else 400)]
        kts.append(gen_kt(rng, [2, 2], 2, zero_cols=0.6))
        kts.append(gen_kt(rng, [4, 3], 1))
        for K in kts:
            N = len(K["factors"])
            combos = [(wf, sort, nt) for wf in [None, "all"] + list(range(N)) for sort in (False, True)
                      for nt in ("1", "2", "inf")]
            if tier == "quick":
                combos = rng.sample(combos, min(len(combos), 8))
            for wf, sort, nt in combos:
                out.append({"K": K, "wf": wf, "sort": sort, "nt": nt, "mode": None})
            for m in range(N):
                out.append({"K": K, "wf": None, "sort": False, "nt": rng.choice(["1", "2", "inf"]), "mode": m})
            out.append({"K": K, "wf": None, "sort": False, "nt": "2", "mode": N})
            out.append({"K": K, "wf": None, "sort": False, "nt": "2", "mode": -1})
            out.append({"K": K, "wf": N, "sort": rng.random() < 0.5, "nt": "2", "mode": None})
            out.append({"K": K, "wf": -1, "sort": False, "nt": "1", "mode": rng.choice([None, 0])})
        return out

    def evaluate(self, cases):
        impls, reqs = [], []
        for c in cases:
            K = mk(c["K"])

            def f(K=K, c=c):
                ntv = {"1": 1, "2": 2, "inf": np.inf}[c["nt"]]
                kw = {"sort": c["sort"], "normtype": ntv}
                if c["wf"] is not None:
                    kw["weight_factor"] = c["wf"]
                if c["mode"] is not None:
                    kw["mode"] = c["mode"]
                r = K.normalize(**kw)
                return {"K": kj(K), "same": r is K}
            impls.append(call(f))
            reqs.append({"op": "k_normalize", "K": c["K"], "wf": c["wf"], "sort": c["sort"], "nt": c["nt"],
                         "mode": c["mode"]})
        models = drive(reqs)
        out = []
        for c, impl, m in zip(cases, impls, models):
            K = c["K"]
            N, R = len(K["factors"]), len(K["weights"])
            tags = [f"N{N}", f"R{R}", f"wf={c['wf'] if not isinstance(c['wf'], int) else 'mode'}", f"nt{c['nt']}",
                    "sort" if c["sort"] else "nosort", "onemode" if c["mode"] is not None else "allmodes"]
            ic = strip_exc(impl)
            valid = (c["mode"] is None or 0 <= c["mode"] < N) and (c["wf"] in (None, "all") or 0 <= c["wf"] < N)
            if "reject" in ic or "reject" in m:
                tags.append("reject")
                if valid:
                    out.append(Verdict("violation", "normalize refused a valid request", impl, m, None, tags, False))
                elif ("reject" in ic) != ("reject" in m):
                    out.append(Verdict("violation", "normalize accepted a mode or weight_factor outside range(ndims)", impl, m, None, tags, False))
                else:
                    out.append(Verdict("ok", "", impl, m, None, tags, False))
                continue
            r = ic["ok"]["K"]
            d0 = denote(K["weights"], K["factors"])
            bad = None
            if any(all(x == 0 for x in col(f, rr)) for f in K["factors"] for rr in range(R)):
                tags.append("zerocol")
            if any(w < 0 for w in K["weights"]):
                tags.append("negw")
            if not vec_close(denote_j(r), d0):
                bad = "normalize changed the tensor"
            else:
                bad = check_normal_form(c, r, c["nt"], c["wf"], c["mode"], c["sort"] and c["mode"] is None, N)
            if bad is None and not close(r, m["ok"]):
                mw = m["ok"]["weights"]
                if c["sort"] and near_ties([fr(x) for x in mw]):
                    tags.append("tie")
                else:
                    out.append(Verdict("corr", "normalize differs from the model", impl, m, None, tags))
                    continue
            out.append(Verdict("violation" if bad else "ok", bad or "", impl, m, None, tags, any(x != 0 for x in d0)))
        return out


class Arrange(KFamily):
    name = "arrange"
    theorems = ("C08_arrange_denote", "C08_arrange_sorted", "C08_arrange_absorb", "C08_arrange_unit",
                "C08_arrange_rejects_both", "C08_arrange_rejects_mode")

    def gen(self, rng, tier):
        out = []
        kts = [gen_kt(rng, s, distinct_weights=True) for s in FIXED_SHAPES]
        kts += [gen_kt(rng, distinct_weights=rng.random() < 0.8) for _ in range(10 if tier == "quick" else 500)]
        for K in kts:
            N, R = len(K["factors"]), len(K["weights"])
            out.append({"K": K, "wf": None, "perm": None})
            for m in range(N):
                out.append({"K": K, "wf": m, "perm": None})
            out.append({"K": K, "wf": 0, "perm": list(range(R))})
            out.append({"K": K, "wf": N, "perm": None})
            out.append({"K": K, "wf": -1, "perm": None})
        return out

    def evaluate(self, cases):
        impls, reqs = [], []
        for c in cases:
            K = mk(c["K"])

            def f(K=K, c=c):
                K.arrange(weight_factor=c["wf"], permutation=c["perm"])
                return kj(K)
            impls.append(call(f))
            reqs.append({"op": "k_arrange", "K": c["K"], "wf": c["wf"], "perm": c["perm"]})
        models = drive(reqs)
        out = []
        for c, impl, m in zip(cases, impls, models):
            K = c["K"]
            N, R = len(K["factors"]), len(K["weights"])
            tags = [f"N{N}", f"R{R}", "absorb" if c["wf"] is not None else "sort"]
            ic = strip_exc(impl)
            valid = not (c["perm"] is not None and c["wf"] is not None) and (c["wf"] is None or 0 <= c["wf"] < N)
            if "reject" in ic or "reject" in m:
                tags.append("reject")
                if valid:
                    out.append(Verdict("violation", "arrange refused a valid request", impl, m, None, tags, False))
                elif ("reject" in ic) != ("reject" in m):
                    out.append(Verdict("violation", "arrange accepted an invalid request", impl, m, None, tags, False))
                else:
                    out.append(Verdict("ok", "", impl, m, None, tags, False))
                continue
            r = ic["ok"]
            d0 = denote(K["weights"], K["factors"])
            if not vec_close(denote_j(r), d0):
                bad = "arrange changed the tensor"
            else:
                bad = check_normal_form(c, r, "2", c["wf"], None, c["wf"] is None, N)
            if bad is None and not close(r, m["ok"]):
                # weights before absorption decide the order: recompute them from the model without absorption
                if self._ties(c):
                    tags.append("tie")
                else:
                    out.append(Verdict("corr", "arrange differs from the model", impl, m, None, tags))
                    continue
            out.append(Verdict("violation" if bad else "ok", bad or "", impl, m, None, tags, any(x != 0 for x in d0)))
        return out

    @staticmethod
    def _ties(c):
        m = drive([{"op": "k_arrange", "K": c["K"], "wf": None, "perm": None}])[0]
        return "ok" in m and near_ties([fr(x) for x in m["ok"]["weights"]])


# ----------------------------------------------------------------------------
# 3. fixsigns
# ----------------------------------------------------------------------------
def max_abs_entry(v):
    best = v[0]
    for x in v[1:]:
        if abs(x) > abs(best):
            best = x
    return best


class Fixsigns(KFamily):
    name = "fixsigns"
    theorems = ("C08_fixsigns_denote", "C08_fixsigns_form")

    def gen(self, rng, tier):
        out = []
        kts = [gen_kt(rng, s, zero_cols=0.05) for s in FIXED_SHAPES]
        kts += [gen_kt(rng, zero_cols=0.05) for _ in range(40 if tier == "quick" else 2000)]
        # every sign pattern of the modes for one component
        for N in (1, 2, 3, 4):
            if N == 4 and tier == "quick":
                continue
            for sg in itertools.product([1, -1], repeat=N):
                shape = [2 + (n % 2) for n in range(N)]
                base = gen_kt(rng, shape, 1, zero_cols=0, wpool=[2, -3])
                for n in range(N):
                    f = base["factors"][n]
                    if (max_abs_entry(col(f, 0)) < 0) != (sg[n] < 0):
                        base["factors"][n] = [[-x for x in row] for row in f]
                kts.append(base)
        return [{"K": K} for K in kts]

    def evaluate(self, cases):
        impls, reqs = [], []
        for c in cases:
            K = mk(c["K"])

            def f(K=K):
                r = K.fixsigns()
                return {"K": kj(K), "same": r is K}
            impls.append(call(f))
            reqs.append({"op": "k_fixsigns", "K": c["K"]})
        models = drive(reqs)
        out = []
        for c, impl, m in zip(cases, impls, models):
            K = c["K"]
            N, R = len(K["factors"]), len(K["weights"])
            nneg = [sum(1 for f in K["factors"] if max_abs_entry(col(f, r)) < 0) for r in range(R)]
            tags = [f"N{N}", f"R{R}", f"maxneg{max(nneg)}"]
            if "ok" not in impl:
                out.append(Verdict("violation", "fixsigns raised", impl, m, None, tags))
                continue
            r = impl["ok"]["K"]
            d0 = denote(K["weights"], K["factors"])
            w, fs = k_frac(r)
            bad = None
            if denote(w, fs) != d0:
                bad = "fixsigns changed the tensor"
            else:
                for rr in range(R):
                    left = sum(1 for f in fs if max_abs_entry(col(f, rr)) < 0)
                    if left != nneg[rr] % 2:
                        bad = f"component {rr}: {left} modes still have a negative largest entry (expected {nneg[rr] % 2})"
                        break
                    if any(col(f0, rr) != col(f1, rr) and col(f0, rr) != [-x for x in col(f1, rr)]
                           for f0, f1 in zip(K["factors"], fs)):
                        bad = "fixsigns changed a column by more than its sign"
                        break
            if bad is None and not deep_eq(r, m):
                out.append(Verdict("corr", "fixsigns differs from the model", impl, m, None, tags))
                continue
            out.append(Verdict("violation" if bad else "ok", bad or "", impl, m, None, tags, any(x != 0 for x in d0)))
        return out


ATOL = Fraction(1, 10 ** 9)


def ref_scores(fs, ofs, r):
    """sign scores of component r: <A_n[:, r], B_n[:, r]> for every mode (exact on Fractions)"""
    return [sum(a * b for a, b in zip(col(fs[n], r), col(ofs[n], r))) for n in range(len(fs))]


def alignment_defect(scores, tol=ATOL):
    """the normal form of C08_fixsigns_ref_normal_form on one component (None when it holds): at most one
    negatively correlated mode, and then no other mode with a score of smaller magnitude"""
    neg = [n for n, x in enumerate(scores) if x < -tol]
    if len(neg) > 1:
        return f"{len(neg)} modes are negatively correlated with the reference"
    if neg:
        n = neg[0]
        for m, x in enumerate(scores):
            if m != n and x < -scores[n] - tol:
                return (f"mode {n} is left negatively correlated (score {float(scores[n]):.6g}) although mode {m} "
                        f"has a score of smaller magnitude ({float(x):.6g})")
    return None


def even_flip_gain(scores, tol=ATOL):
    """C08_fixsigns_ref_optimal on one component (None when it holds): no even set of further flips raises the sum
    of the sign scores, i.e. the scores of every even-sized set of modes add up to a non-negative number"""
    N = len(scores)
    for k in range(2, N + 1, 2):
        for F in itertools.combinations(range(N), k):
            if sum(scores[n] for n in F) < -tol:
                return f"flipping modes {list(F)} as well would raise the total correlation with the reference"
    return None


def unit_vec(n, i, s=1):
    v = [0] * n
    v[i] = s
    return v


class FixsignsRef(KFamily):
    name = "fixsigns_ref"
    kt_keys = ("K", "other")
    theorems = ("C08_fixsigns_ref_denote", "C08_fixsigns_ref_pinned_counterexample", "C08_fixsigns_ref_normal_form",
                "C08_fixsigns_ref_optimal", "C08_fixsigns_ref_even", "C08_fixsigns_ref_idem", "C08_fixsigns_ref_accepts",
                "C08_fixsigns_ref_rejects")

    @staticmethod
    def _cols_to_factors(cols_by_mode, R):
        return [[[cols[r][i] for r in range(R)] for i in range(len(cols[0]))] for cols in cols_by_mode]

    def gen(self, rng, tier):
        out = []
        # every sign pattern: the receiver is the reference with some modes negated (and optionally perturbed)
        for N in (1, 2, 3, 4):
            for sg in itertools.product([1, -1], repeat=N):
                reps = 1 if tier == "quick" else 12
                for _ in range(reps):
                    shape = [rng.randint(2, 3) for _ in range(N)]
                    R = rng.choice([1, 2, 3, 4])
                    ref = gen_kt(rng, shape, R, zero_cols=0, wpool=[1, 2, 3, -2])
                    K = {"weights": [rng.choice([1, 2, -3]) for _ in range(R)],
                         "factors": [[list(row) for row in f] for f in ref["factors"]]}
                    for r in range(R):
                        pat = sg if r == 0 else [rng.choice([1, -1]) for _ in range(N)]
                        for n in range(N):
                            for row in K["factors"][n]:
                                row[r] *= pat[n]
                    if rng.random() < 0.6:  # perturb so that the scores differ in magnitude
                        for f in K["factors"]:
                            for row in f:
                                for r in range(R):
                                    if rng.random() < 0.3:
                                        row[r] += rng.choice([-1, 1])
                    out.append({"K": K, "other": ref})
        # exact scores: unit-vector and 3-4-5 columns normalise exactly, so the sign scores are exactly
        # 0, +-1, +-24/25, +-3/5, +-4/5 in the implementation as well: every sign pattern (zero included)
        # with TIES in the magnitudes, on both sides of the "one more / one fewer" switch
        exact_pairs = {  # score -> (column of the receiver, column of the reference), length 2
            0: ([1, 0], [0, 1]), 1: ([1, 0], [1, 0]), -1: ([-1, 0], [1, 0]),
            "z": ([0, 0], [1, 0]), "zr": ([1, 0], [0, 0]),          # a zero column on either side: score 0
            "24/25": ([3, 4], [4, 3]), "-24/25": ([-3, -4], [4, 3]),
            "3/5": ([3, 4], [1, 0]), "-3/5": ([-3, -4], [1, 0]), "4/5": ([3, 4], [0, 1]), "-4/5": ([3, 4], [0, -1]),
        }
        keys = list(exact_pairs)
        for N in (2, 3, 4):
            pats = list(itertools.product(keys, repeat=N))
            take = {2: 60, 3: 60, 4: 40}[N] if tier == "quick" else {2: len(pats), 3: 700, 4: 700}[N]
            if len(pats) > take:
                pats = rng.sample(pats, take)
            for pat in pats:
                R = rng.choice([1, 1, 2, 3, 4])
                RB = rng.randint(1, R)
                kc = [[list(exact_pairs[pat[n]][0])] for n in range(N)]
                oc = [[list(exact_pairs[pat[n]][1])] for n in range(N)]
                for r in range(1, R):
                    pr = [rng.choice(keys) for _ in range(N)]
                    for n in range(N):
                        kc[n].append(list(exact_pairs[pr[n]][0]))
                        if r < RB:
                            oc[n].append(list(exact_pairs[pr[n]][1]))
                K = {"weights": [rng.choice([1, 2, -3, 0]) for _ in range(R)], "factors": self._cols_to_factors(kc, R)}
                O = {"weights": [rng.choice([1, 2, -2]) for _ in range(RB)], "factors": self._cols_to_factors(oc, RB)}
                out.append({"K": K, "other": O})
        # the same with scores in {0, +-1} only (unit-vector and zero columns, entries +-1 / +-2): floating point
        # is exact from the first normalisation to the last flip, so ties are exact ties in the implementation
        # and idempotence / the parity claim are checked without any tolerance
        ekeys = [0, 1, -1, "z", "zr"]
        for N in (1, 2, 3, 4):
            pats = list(itertools.product(ekeys, repeat=N))
            take = 40 if tier == "quick" else 400
            if len(pats) > take:
                pats = rng.sample(pats, take)
            for pat in pats:
                R = rng.choice([1, 2, 3, 4])
                RB = rng.randint(1, R)
                kc, oc = [[] for _ in range(N)], [[] for _ in range(N)]
                for r in range(R):
                    pr = pat if r == 0 else [rng.choice(ekeys) for _ in range(N)]
                    for n in range(N):
                        a, b = exact_pairs[pr[n]]
                        sa, sb = rng.choice([1, 2]), rng.choice([1, 2, 4])
                        if rng.random() < 0.5:   # swap the two coordinates: same score
                            a, b = a[::-1], b[::-1]
                        kc[n].append([sa * x for x in a])
                        if r < RB:
                            oc[n].append([sb * x for x in b])
                K = {"weights": [rng.choice([1, 2, -4, 0]) for _ in range(R)], "factors": self._cols_to_factors(kc, R)}
                O = {"weights": [rng.choice([1, 2, -2]) for _ in range(RB)], "factors": self._cols_to_factors(oc, RB)}
                out.append({"K": K, "other": O})
        for _ in range(20 if tier == "quick" else 1200):
            s = gen.shape(rng, 1, 4, 3)
            RA = rng.randint(1, 4)
            RB = rng.randint(1, RA) if rng.random() < 0.9 else RA + 1
            out.append({"K": gen_kt(rng, s, RA, zero_cols=0.05), "other": gen_kt(rng, s, RB, zero_cols=0.05)})
        # references that must be refused: another shape (one extent, one mode more, one mode fewer), more components
        for _ in range(6 if tier == "quick" else 120):
            s = gen.shape(rng, 1, 4, 3)
            RA = rng.randint(1, 4)
            K = gen_kt(rng, s, RA)
            s2 = list(s)
            s2[rng.randrange(len(s))] += 1
            out.append({"K": K, "other": gen_kt(rng, s2, rng.randint(1, RA))})
            out.append({"K": K, "other": gen_kt(rng, s + [2], rng.randint(1, RA))})
            if len(s) > 1:
                out.append({"K": K, "other": gen_kt(rng, s[:-1], rng.randint(1, RA))})
            out.append({"K": K, "other": gen_kt(rng, s, RA + rng.randint(1, 2))})
        # the witnesses of the repaired defect
        out.append({"K": {"weights": [2], "factors": [[[-1], [0]], [[3], [4]], [[1], [0]]]},
                    "other": {"weights": [1], "factors": [[[1], [0]]] * 3}})
        out.append({"K": {"weights": [2], "factors": [[[-1], [0]]] * 3}, "other": {"weights": [1], "factors": [[[1], [0]]] * 3}})
        out.append({"K": {"weights": [1] * 4, "factors": [[[-1] * 4, [0] * 4]] * 3},
                    "other": {"weights": [1] * 4, "factors": [[[1] * 4, [0] * 4]] * 3}})
        return out

    def evaluate(self, cases):
        impls, reqs = [], []
        for c in cases:
            K, O = mk(c["K"]), mk(c["other"])

            def f(K=K, O=O):
                o0 = kj(O)
                r = K.fixsigns(O)
                first = kj(K)
                # a second call with the same reference, on the object itself
                K.fixsigns(O)
                return {"K": first, "same": r is K, "again": kj(K), "ref_untouched": kj(O) == o0}
            impls.append(call(f))
            reqs.append({"op": "k_fixsigns_ref", "K": c["K"], "other": c["other"]})
        models = drive(reqs)
        out = []
        for c, impl, m in zip(cases, impls, models):
            K, O = c["K"], c["other"]
            N, RA, RB = len(K["factors"]), len(K["weights"]), len(O["weights"])
            scores = [[fr(x) for x in row] for row in m["scores"]]
            negs = [sum(1 for s in row if s < 0) for row in scores]
            tags = [f"N{N}", f"RA{RA}", f"RB{RB}"] + sorted({"oddneg" if k % 2 else "evenneg" for k in negs})
            if any(k == N and N % 2 for k in negs):
                tags.append("allneg-odd")
            if any(s == 0 for row in scores for s in row):
                tags.append("zeroscore")
            if any(len({abs(s) for s in row}) < len(row) for row in scores):
                tags.append("exact-tie")
            for row in scores:   # which way the odd case goes
                srt = sorted(row)
                k = sum(1 for s in srt if s < 0)
                if k % 2 == 1:
                    tags.append("one-more" if k < N and srt[k] < -srt[k - 1] else "one-fewer")
            tags = sorted(set(tags))
            fragile = any(near_ties([abs(s) for s in row]) or any(abs(s) < 1e-9 for s in row) for row in scores)
            # every column is a multiple +-1, +-2, +-4 of a unit vector (or zero): the implementation's arithmetic
            # is exact, ties are exact ties, and the theorems apply to it for whatever order argsort picks
            exact = all(sum(1 for x in col(f, rr) if x != 0) <= 1 and all(x in (0, 1, -1, 2, -2, 4, -4) for x in col(f, rr))
                        for T in (K, O) for f in T["factors"] for rr in range(len(T["weights"])))
            exact = exact and all(w in (0, 1, -1, 2, -2, 4, -4) for T in (K, O) for w in T["weights"])
            if exact:
                tags.append("exact-arith")
            ic = strip_exc(impl)
            mr = m["res"]
            valid = RB <= RA and shape_of(K) == shape_of(O)
            if "reject" in ic or "reject" in mr:
                tags.append("reject")
                if valid:
                    out.append(Verdict("violation", "fixsigns(reference) refused a valid request", impl, m, None, tags, False))
                elif "reject" not in ic:
                    out.append(Verdict("violation", "fixsigns(reference) accepted a reference of another shape or "
                                       "with more components", impl, m, None, tags, False))
                elif "reject" not in mr:
                    out.append(Verdict("corr", "fixsigns(reference): acceptance differs from the model", impl, m, None, tags, False))
                else:
                    out.append(Verdict("ok", "", impl, m, None, tags, False))
                continue
            r = ic["ok"]["K"]
            d0 = denote(K["weights"], K["factors"])
            bad = None
            if not ic["ok"]["ref_untouched"]:
                bad = "fixsigns(reference) modified the reference"
            elif not vec_close(denote_j(r), d0):
                bad = "fixsigns(reference) changed the tensor"
            else:
                bad = check_normal_form(c, r, "2", None, None, False, N)
            w, fs = k_frac(r)
            ow, ofs = k_frac(m["B"]["ok"])
            if bad is None:
                # the alignment normal form on the implementation's result (tolerance 1e-9 on the scores, so
                # ties and scores that are zero up to rounding are checked too)
                for rr in range(RB):
                    after = ref_scores(fs, ofs, rr)
                    d = alignment_defect(after) or even_flip_gain(after)
                    if d is None and negs[rr] % 2 == 0 and (exact or not fragile) and any(x < -ATOL for x in after):
                        d = "an even number of modes was negatively correlated, yet one is left"
                    if d is not None:
                        bad = f"component {rr}: {d}"
                        break
            if bad is None:
                # idempotence on the implementation: a second call changes nothing (beyond rounding in the
                # renormalisation; the sign pattern must stay when no decision is within rounding of a tie)
                again = ic["ok"]["again"]
                if not vec_close(denote_j(again), d0):
                    bad = "a second fixsigns(reference) changed the tensor"
                elif exact and not deep_eq(again, r):
                    bad = "a second fixsigns(reference) changed the stored tensor (not idempotent; exact arithmetic)"
                elif not fragile and not close(again, r, 1e-12):
                    bad = "a second fixsigns(reference) changed the stored tensor (not idempotent)"
                else:
                    w2, fs2 = k_frac(again)
                    for rr in range(RB):
                        d = alignment_defect(ref_scores(fs2, ofs, rr))
                        if d is not None:
                            bad = f"after a second call, component {rr}: {d}"
                            break
            if bad is None:
                # the model's own result: aligned (the theorem, executed) and a fixed point of a second call
                if not all(m["aligned"]) or len(m["aligned"]) != RB:
                    out.append(Verdict("corr", "the model's result is not in the alignment normal form", impl, m, None, tags))
                    continue
                # (the driver's square roots are exact only on rational squares: where a decision hangs on a tie
                # of irrational scores the 2^-80 perturbation of the renormalisation may tip it)
                if "ok" not in m["res2"] or ((exact or not fragile) and not close(m["res2"]["ok"], mr["ok"], 1e-15)):
                    out.append(Verdict("corr", "the model's second call changes its result", impl, m, None, tags))
                    continue
            if bad is None and not close(r, mr["ok"]):
                if fragile:
                    tags.append("tie")
                else:
                    out.append(Verdict("corr", "fixsigns(reference) differs from the model", impl, m, None, tags))
                    continue
            out.append(Verdict("violation" if bad else "ok", bad or "", impl, m, None, tags, any(x != 0 for x in d0)))
        return out


# ----------------------------------------------------------------------------
# 4. tolist
# ----------------------------------------------------------------------------
class Tolist(KFamily):
    name = "tolist"
    theorems = ("C08_tolist_denote",)

    def gen(self, rng, tier):
        out = []
        kts = [gen_kt(rng, s) for s in FIXED_SHAPES] + [gen_kt(rng) for _ in range(15 if tier == "quick" else 600)]
        kts.append(gen_kt(rng, [2, 2, 2], 2, wpool=[8, -27, 0, 1]))
        kts.append(gen_kt(rng, [3, 2], 3, wpool=[4, 9, -16, 0]))
        for K in kts:
            N = len(K["factors"])
            out.append({"K": K, "mode": None})
            for m in range(N):
                out.append({"K": K, "mode": m})
            out.append({"K": K, "mode": N})
            out.append({"K": K, "mode": -1})
        return out

    def evaluate(self, cases):
        impls, reqs = [], []
        for c in cases:
            K = mk(c["K"])
            impls.append(call(lambda K=K, c=c: [jval(np.asarray(f)) for f in K.tolist(c["mode"])]))
            reqs.append({"op": "k_tolist", "K": c["K"], "mode": c["mode"]})
        models = drive(reqs)
        out = []
        for c, impl, m in zip(cases, impls, models):
            K = c["K"]
            N, R = len(K["factors"]), len(K["weights"])
            tags = [f"N{N}", f"R{R}", "spread" if c["mode"] is None else "onemode"]
            ic = strip_exc(impl)
            valid = c["mode"] is None or 0 <= c["mode"] < N
            if "reject" in ic or "reject" in m:
                tags.append("reject")
                if valid:
                    out.append(Verdict("violation", "tolist refused a valid request", impl, m, None, tags, False))
                elif ("reject" in ic) != ("reject" in m):
                    out.append(Verdict("violation", "tolist accepted a mode outside range(ndims)", impl, m, None, tags, False))
                else:
                    out.append(Verdict("ok", "", impl, m, None, tags, False))
                continue
            r = ic["ok"]
            d0 = denote(K["weights"], K["factors"])
            fs = [[[fr(x) for x in row] for row in f] for f in r]
            bad = None
            if [len(f) for f in fs] != shape_of(K) or any(len(row) != R for f in fs for row in f):
                bad = "tolist returned matrices of another shape"
            elif not vec_close(denote([1] * R, fs), d0):
                bad = "the factor list returned by tolist does not denote the tensor"
            if bad is None and not close(r, m["ok"]):
                out.append(Verdict("corr", "tolist differs from the model", impl, m, None, tags))
                continue
            out.append(Verdict("violation" if bad else "ok", bad or "", impl, m, None, tags, any(x != 0 for x in d0)))
        return out


# ----------------------------------------------------------------------------
# 5. score
# ----------------------------------------------------------------------------
class Score(KFamily):
    name = "score"
    kt_keys = ("K", "other")
    theorems = ("C08_score_perm", "C08_score_returns", "C08_score_greedy", "C08_score_rejects",
                "C08_score_nongreedy_rejects")

    @staticmethod
    def _exact_kt(rng, shape, R, wpool):
        """columns that normalise exactly in floating point (unit vectors, 3-4-5 pairs, zero columns), so that
        congruences of 0, 1, 24/25, ... and exact TIES between them occur in the implementation too"""
        cols_by_mode = []
        for n in shape:
            cols = []
            for _ in range(R):
                u = rng.random()
                if u < 0.12:
                    v = [0] * n
                elif u < 0.6 or n < 2:
                    v = unit_vec(n, rng.randrange(n), rng.choice([1, -1, 2]))
                else:
                    v = [0] * n
                    i, j = rng.sample(range(n), 2)
                    v[i], v[j] = rng.choice([3, -3]), rng.choice([4, -4])
                cols.append(v)
            cols_by_mode.append(cols)
        return {"weights": [rng.choice(wpool) for _ in range(R)],
                "factors": [[[cols[r][i] for r in range(R)] for i in range(len(cols[0]))] for cols in cols_by_mode]}

    def gen(self, rng, tier):
        out = []
        for _ in range(25 if tier == "quick" else 1500):
            s = gen.shape(rng, 1, 4, 3)
            RA = rng.randint(1, 4)
            K = gen_kt(rng, s, RA, zero_cols=0.05, wpool=[-3, -2, 1, 2, 3, 5, 0], distinct_weights=True)
            u = rng.random()
            if u < 0.6:
                # a permuted sub-selection of K, slightly perturbed
                RB = rng.randint(1, RA)
                sel = rng.sample(range(RA), RB)
                O = {"weights": [K["weights"][i] + rng.choice([0, 0, 1]) for i in sel],
                     "factors": [[[row[i] + (rng.choice([-1, 1]) if rng.random() < 0.15 else 0) for i in sel] for row in f]
                                 for f in K["factors"]]}
            elif u < 0.9:
                O = gen_kt(rng, s, rng.randint(1, RA), zero_cols=0.05)
            else:
                O = gen_kt(rng, s, RA + 1)
            out.append({"K": K, "other": O, "wp": rng.random() < 0.7,
                        "thr": rng.choice([None, None, "1/2", 1, 0, "3/2"]), "greedy": True})
        # exact congruences with ties, zero columns and zero weights; every rank pair RB <= RA <= 4, orders 2..4
        pairs = [(ra, rb) for ra in range(1, 5) for rb in range(1, ra + 1)]
        for _ in range(5 if tier == "quick" else 60):
            for (RA, RB) in pairs:
                N = rng.choice([2, 3, 4])
                s = [rng.choice([2, 3]) for _ in range(N)] if rng.random() < 0.7 else [2] * N
                K = self._exact_kt(rng, s, RA, [1, 2, 2, 3, 0, -2])
                if rng.random() < 0.5:
                    sel = rng.sample(range(RA), RB)   # the reference repeats components of the receiver exactly
                    O = {"weights": [K["weights"][i] for i in sel],
                         "factors": [[[row[i] for i in sel] for row in f] for f in K["factors"]]}
                else:
                    O = self._exact_kt(rng, s, RB, [1, 2, 0, -2])
                out.append({"K": K, "other": O, "wp": rng.random() < 0.6,
                            "thr": rng.choice([None, "1/2", 1, 0]), "greedy": True})
        # all components identical: every entry of C ties
        K = {"weights": [2, 2, 2], "factors": [[[1, 1, 1], [0, 0, 0]], [[0, 0, 0], [1, 1, 1]]]}
        out.append({"K": K, "other": {"weights": [2, 2], "factors": [[[1, 1], [0, 0]], [[0, 0], [1, 1]]]},
                    "wp": True, "thr": None, "greedy": True})
        # a zero tensor against a zero reference: every congruence is zero
        Z = {"weights": [0, 0], "factors": [[[0, 0], [0, 0]], [[0, 0], [0, 0], [0, 0]]]}
        out.append({"K": Z, "other": Z, "wp": True, "thr": None, "greedy": True})
        out.append({"K": Z, "other": Z, "wp": False, "thr": 0, "greedy": True})
        # refused requests: another shape, greedy=False (not implemented), threshold outside [0, 1]
        K = gen_kt(rng, [2, 3])
        out.append({"K": K, "other": gen_kt(rng, [2, 4]), "wp": True, "thr": None, "greedy": True})
        out.append({"K": K, "other": gen_kt(rng, [2, 3, 2]), "wp": True, "thr": None, "greedy": True})
        for _ in range(3 if tier == "quick" else 40):
            s = gen.shape(rng, 1, 4, 3)
            RA = rng.randint(1, 4)
            K = gen_kt(rng, s, RA)
            out.append({"K": K, "other": gen_kt(rng, s, rng.randint(1, RA)), "wp": rng.random() < 0.5,
                        "thr": rng.choice([None, "1/2"]), "greedy": False})
            out.append({"K": K, "other": gen_kt(rng, s, rng.randint(1, RA)), "wp": True,
                        "thr": rng.choice(["-1/10", "11/10", 2, -1]), "greedy": True})
        return out

    def evaluate(self, cases):
        impls, reqs = [], []
        for c in cases:
            K, O = mk(c["K"]), mk(c["other"])

            def f(K=K, O=O, c=c):
                kw = {"weight_penalty": c["wp"]}
                if c["thr"] is not None:
                    kw["threshold"] = float(Fraction(c["thr"]))
                if not c.get("greedy", True):
                    kw["greedy"] = False
                k0, o0 = kj(K), kj(O)
                sc, A, flag, perm = K.score(O, **kw)
                return {"score": jval(float(sc)), "A": kj(A), "flag": bool(flag), "perm": jval(perm), "K": kj(K),
                        "untouched": kj(K) == k0 and kj(O) == o0}
            impls.append(call(f))
            reqs.append({"op": "k_score", "K": c["K"], "other": c["other"], "wp": c["wp"], "thr": c["thr"],
                         "greedy": c.get("greedy", True)})
        models = drive(reqs)
        out = []
        for c, impl, m in zip(cases, impls, models):
            K, O = c["K"], c["other"]
            N, RA, RB = len(K["factors"]), len(K["weights"]), len(O["weights"])
            greedy = c.get("greedy", True)
            tags = [f"N{N}", f"RA{RA}", f"RB{RB}", "penalty" if c["wp"] else "nopenalty"]
            if not greedy:
                tags.append("nongreedy")
            ic = strip_exc(impl)
            mr = m["res"]
            thr = None if c["thr"] is None else Fraction(c["thr"])
            # C08_score_returns / C08_score_rejects / C08_score_nongreedy_rejects: exactly these requests return
            valid = greedy and shape_of(K) == shape_of(O) and 1 <= RB <= RA and (thr is None or 0 <= thr <= 1)
            if "reject" in ic or "reject" in mr:
                tags.append("reject")
                if valid:
                    out.append(Verdict("violation", "score did not return on a valid request", impl, m, None, tags, False))
                elif "reject" not in ic:
                    out.append(Verdict("violation", "score accepted an invalid request", impl, m, None, tags, False))
                elif "reject" not in mr:
                    out.append(Verdict("corr", "score: acceptance differs from the model", impl, m, None, tags, False))
                else:
                    out.append(Verdict("ok", "", impl, m, None, tags, False))
                continue
            r = ic["ok"]
            d0 = denote(K["weights"], K["factors"])
            C = [[fr(x) for x in row] for row in m["C"]]
            thr_eff = thr if thr is not None else Fraction(99, 100) ** N
            bad = None
            if not r["untouched"]:
                bad = "score modified the receiver or the reference"
            elif sorted(r["perm"]) != list(range(RA)):
                bad = "score returned a matching that is not a permutation of the components"
            elif not vec_close(denote_j(r["A"]), d0):
                bad = "the tensor returned by score does not denote the receiver"
            else:
                bad = check_normal_form(c, r["A"], "2", None, None, False, N)
            if bad is None:
                # the reported score is the mean of the matched (penalised) congruences
                mean = sum(C[r["perm"][j]][j] for j in range(RB)) / RB
                if abs(fr(r["score"]) - mean) > Fraction(1, 10 ** 11) * max(1, abs(mean)):
                    bad = (f"the reported score {float(fr(r['score'])):.12g} is not the mean of the matched "
                           f"congruences {float(mean):.12g}")
                elif abs(mean - thr_eff) > ATOL and r["flag"] != (mean <= thr_eff):
                    bad = "the flag is not (score <= threshold)"
                else:
                    bad = self._not_greedy(C, r["perm"], RA, RB)
            if bad is None:
                # the returned tensor is the normalised receiver with its components in the matched order
                mo = mr["ok"]
                w, fs = k_frac(r["A"])
                fragile = self._fragile(m["C"], RA, RB)
                if any(x == 0 for row in C for x in row):
                    tags.append("zero-congruence")
                if fragile:
                    tags.append("tied-congruences")
                same = (r["perm"] == mo["perm"] and close(r["A"], mo["A"]) and num_close(r["score"], mo["score"], 1e-11))
                near_thr = abs(fr(mo["score"]) - thr_eff) < Fraction(1, 10 ** 9)
                if same and not near_thr and r["flag"] != mo["flag"]:
                    same = False
                if not same:
                    if fragile:
                        tags.append("tie")
                    else:
                        out.append(Verdict("corr", "score differs from the model", impl, m, None, tags))
                        continue
            out.append(Verdict("violation" if bad else "ok", bad or "", impl, m, None, tags, any(x != 0 for x in d0)))
        return out

    @staticmethod
    def _not_greedy(C, perm, RA, RB, tol=ATOL):
        """C08_score_greedy on the implementation's matching: some order of the matched pairs takes a largest
        remaining entry each time (values within tol count as tied)"""
        rows, cols = set(range(RA)), set(range(RB))
        pairs = {(perm[j], j) for j in range(RB)}
        for _ in range(RB):
            top = max(C[a][b] for a in rows for b in cols)
            pick = next(((a, b) for (a, b) in sorted(pairs) if C[a][b] >= top - tol), None)
            if pick is None:
                return (f"the matching is not greedy: no remaining matched pair reaches the largest remaining "
                        f"congruence {float(top):.6g}")
            pairs.discard(pick)
            rows.discard(pick[0])
            cols.discard(pick[1])
        return None

    @staticmethod
    def _fragile(C, RA, RB):
        """replay the greedy matching on the model's matrix; fragile when a runner-up is within 1e-9"""
        C = [[float(fr(x)) for x in row] for row in C]
        for _ in range(RB):
            flat = sorted(((C[i][j], i, j) for j in range(RB) for i in range(RA)), reverse=True)
            top = flat[0]
            if len(flat) > 1 and flat[1][0] > -5 and abs(flat[1][0] - top[0]) <= 1e-9:
                return True
            # first maximum in F order
            best = max(v for v, _, _ in flat)
            i, j = next((i, j) for j in range(RB) for i in range(RA) if C[i][j] == best)
            for b in range(RB):
                C[i][b] = -10.0
            for a in range(RA):
                C[a][j] = -10.0
        return False


# ----------------------------------------------------------------------------
# 5b. idempotence and composition
# ----------------------------------------------------------------------------
class NormalizeIdem(KFamily):
    """normalize() twice = once (C08_normalize_idem), on the implementation (up to rounding) and on the model"""
    name = "normalize_idem"
    theorems = ("C08_normalize_idem", "C08_normalize_fixed_point")

    def gen(self, rng, tier):
        kts = [gen_kt(rng, s) for s in FIXED_SHAPES]
        kts += [gen_kt(rng, zero_cols=rng.choice([0.0, 0.12, 0.4])) for _ in range(20 if tier == "quick" else 500)]
        kts.append({"weights": [0, -2], "factors": [[[0, 3], [0, 4]], [[1, 0], [2, 0]]]})
        return [{"K": K, "nt": nt} for K in kts for nt in ("1", "2", "inf")]

    def evaluate(self, cases):
        impls, reqs = [], []
        for c in cases:
            K = mk(c["K"])

            def f(K=K, c=c):
                ntv = {"1": 1, "2": 2, "inf": np.inf}[c["nt"]]
                K.normalize(normtype=ntv)
                first = kj(K)
                K.normalize(normtype=ntv)
                return {"first": first, "second": kj(K)}
            impls.append(call(f))
            reqs.append({"op": "k_normalize_twice", "K": c["K"], "nt": c["nt"]})
        models = drive(reqs)
        out = []
        for c, impl, m in zip(cases, impls, models):
            K = c["K"]
            N, R = len(K["factors"]), len(K["weights"])
            tags = [f"N{N}", f"R{R}", f"nt{c['nt']}"]
            if any(all(x == 0 for x in col(f, rr)) for f in K["factors"] for rr in range(R)):
                tags.append("zerocol")
            if any(w < 0 for w in K["weights"]):
                tags.append("negw")
            if any(w == 0 for w in K["weights"]):
                tags.append("zerow")
            ic = strip_exc(impl)
            if "ok" not in ic:
                out.append(Verdict("violation", "normalize() refused a valid request", impl, m, None, tags, False))
                continue
            a, b = ic["ok"]["first"], ic["ok"]["second"]
            d0 = denote(K["weights"], K["factors"])
            bad = None
            if not vec_close(denote_j(b), d0):
                bad = "normalising twice changed the tensor"
            elif not close(b, a, 1e-12):
                bad = "a second normalize() changed the stored tensor (not idempotent)"
            else:
                bad = check_normal_form(c, b, c["nt"], None, None, False, N)
            if bad is None:
                mf, ms = m["first"], m["second"]
                exact = c["nt"] in ("1", "inf")
                if "ok" not in mf or "ok" not in ms or not (deep_eq(ms["ok"], mf["ok"]) if exact else close(ms["ok"], mf["ok"], 1e-15)):
                    out.append(Verdict("corr", "the model's second normalize() changes its result", impl, m, None, tags))
                    continue
                if not close(a, mf["ok"]):
                    out.append(Verdict("corr", "normalize differs from the model", impl, m, None, tags))
                    continue
            out.append(Verdict("violation" if bad else "ok", bad or "", impl, m, None, tags, any(x != 0 for x in d0)))
        return out


class ArrangeCompose(KFamily):
    """arrange(permutation=p) then arrange(permutation=q) = arrange(permutation=p[q]) (C08_arrange_perm_compose)"""
    name = "arrange_compose"
    theorems = ("C08_arrange_perm_compose",)

    def shrink(self, case):
        R = len(case["K"]["weights"])
        for k2 in shrink_kt(case["K"]):
            if len(k2["weights"]) == R:     # p and q are permutations of the R components
                yield dict(case, K=k2)

    def gen(self, rng, tier):
        out = []
        kts = [gen_kt(rng, s) for s in FIXED_SHAPES] + [gen_kt(rng) for _ in range(10 if tier == "quick" else 200)]
        kts.append(gen_kt(rng, [2, 3], 4, distinct_weights=True))
        kts.append(gen_kt(rng, [3, 2, 2], 3, distinct_weights=True))
        for K in kts:
            R = len(K["weights"])
            perms = list(itertools.permutations(range(R)))
            pq = [(p, q) for p in perms for q in perms]
            k = 6 if tier == "quick" else 40
            if len(pq) > k:
                pq = rng.sample(pq, k)
            for p, q in pq:
                out.append({"K": K, "p": list(p), "q": list(q), "as": rng.choice(["list", "tuple", "array"])})
        return out

    def evaluate(self, cases):
        impls, reqs = [], []
        for c in cases:
            def f(c=c):
                K1, K2 = mk(c["K"]), mk(c["K"])
                K1.arrange(permutation=Algebra._seq(c["p"], c["as"]))
                first = kj(K1)
                K1.arrange(permutation=Algebra._seq(c["q"], c["as"]))
                pq = [c["p"][k] for k in c["q"]]
                K2.arrange(permutation=Algebra._seq(pq, c["as"]))
                return {"first": first, "second": kj(K1), "direct": kj(K2), "pq": pq}
            impls.append(call(f))
            reqs.append({"op": "k_arrange_compose", "K": c["K"], "p": c["p"], "q": c["q"]})
        models = drive(reqs)
        out = []
        for c, impl, m in zip(cases, impls, models):
            K = c["K"]
            N, R = len(K["factors"]), len(K["weights"])
            tags = [f"N{N}", f"R{R}", c["as"], "involution" if [c["p"][k] for k in c["p"]] == list(range(R)) else "cycle"]
            ic = strip_exc(impl)
            if "ok" not in ic:
                out.append(Verdict("violation", "arrange refused a permutation of the components", impl, m, None, tags, False))
                continue
            r = ic["ok"]
            d0 = denote(K["weights"], K["factors"])
            pq = r["pq"]
            w0, f0 = k_frac({"weights": K["weights"], "factors": K["factors"]})
            spec = {"weights": [w0[k] for k in pq], "factors": [[[row[k] for k in pq] for row in f] for f in f0]}
            bad = None
            w2, fs2 = k_frac(r["second"])
            if (w2, fs2) != (spec["weights"], spec["factors"]):
                bad = "arranging by p and then by q does not put component p[q[k]] at position k"
            elif not deep_eq(r["second"], r["direct"]):
                bad = "arranging by p and then by q differs from arranging by the composition p[q]"
            elif denote_j(r["second"]) != d0:
                bad = "arranging twice changed the tensor"
            if bad is None:
                ok = all("ok" in m[k] for k in ("first", "second", "direct")) and m["pq"] == pq
                if not (ok and deep_eq(m["second"]["ok"], m["direct"]["ok"]) and deep_eq(r["second"], m["second"]["ok"])
                        and deep_eq(r["first"], m["first"]["ok"])):
                    out.append(Verdict("corr", "arrange (composition) differs from the model", impl, m, None, tags))
                    continue
            out.append(Verdict("violation" if bad else "ok", bad or "", impl, m, None, tags, any(x != 0 for x in d0)))
        return out


# ----------------------------------------------------------------------------
# 6. sequences of calls on live objects
# ----------------------------------------------------------------------------
def _kbytes(K):
    return (np.asarray(K.weights).tobytes(), tuple(np.asarray(K.weights).shape),
            tuple((np.asarray(f).tobytes(), tuple(np.asarray(f).shape)) for f in K.factor_matrices))


def _snap(env):
    out = {}
    for i, K in enumerate(env["ks"]):
        out[("k", i)] = _kbytes(K)
    for i, v in enumerate(env["vs"]):
        out[("v", i)] = (np.asarray(v).tobytes(), tuple(np.asarray(v).shape))
    for i, l in enumerate(env["ls"]):
        out[("l", i)] = tuple((np.asarray(f).tobytes(), tuple(np.asarray(f).shape)) for f in l)
    return out


def _env_j(env):
    return {"ks": [kj(K) for K in env["ks"]], "vs": [jval(np.asarray(v)) for v in env["vs"]],
            "ls": [[jval(np.asarray(f)) for f in l] for l in env["ls"]]}


INPLACE = ("normalize", "arrange", "fixsigns", "fixsigns_ref", "redistribute")


class Sequences(Family):
    """multi-step programs: objects are created from one another (tovec, tolist, extract, copy, from_vector,
    update from shared vectors, + / -), then re-parameterised in place; after EVERY step the receiver must
    denote the same array, every other live object must be bitwise unchanged, the round trips must still
    reproduce the object, and the whole environment must agree with the model."""
    name = "sequences"
    theorems = ("C08_seq_inplace", "C08_seq_frame", "C08_vec_roundtrip", "C08_update_roundtrip")

    # generation --------------------------------------------------------------
    @staticmethod
    def _inplace(rng, k, Rs, N, others):
        u = rng.random()
        if u < 0.45:
            wf = rng.choice([None, None, "all"] + list(range(N)))
            mode = rng.choice([None, None, None] + list(range(N)))
            return {"op": "normalize", "k": k, "wf": wf, "sort": rng.random() < 0.4,
                    "nt": rng.choice(["1", "2", "inf"]), "mode": mode}
        if u < 0.65:
            v = rng.random()
            if v < 0.4:
                return {"op": "arrange", "k": k, "wf": None, "perm": gen.perm(rng, Rs[k])}
            return {"op": "arrange", "k": k, "wf": rng.choice([None] + list(range(N))), "perm": None}
        if u < 0.78:
            return {"op": "fixsigns", "k": k}
        if u < 0.88 and others:
            return {"op": "fixsigns_ref", "k": k, "other": rng.choice(others)}
        return {"op": "redistribute", "k": k, "mode": rng.randrange(N)}

    def _program(self, rng, s, R):
        N = len(s)
        Rs = [R, R]          # rank of every live ktensor
        vs = []              # (length, w, R)
        ls = []              # R
        prog = []
        touched = []

        def modes_for(k, v):
            ln, w, _ = vs[v]
            cand = list(range(-1, N))
            rng.shuffle(cand)
            take, need = [], 0
            for m in cand:
                c = Rs[k] if m == -1 else s[m] * Rs[k]
                if need + c <= ln and rng.random() < 0.7:
                    take.append(m)
                    need += c
            return sorted(take) or [0]

        def create():
            u = rng.random()
            k = rng.randrange(len(Rs))
            if u < 0.22 or (not vs and u < 0.60):
                w = rng.random() < 0.6
                prog.append({"op": "tovec", "k": k, "w": w})
                vs.append((Rs[k] * (sum(s) + (1 if w else 0)), w, Rs[k]))
            elif u < 0.50:
                v = rng.randrange(len(vs))
                same = [i for i, r in enumerate(Rs) if r == vs[v][2]]
                k2 = rng.choice(same) if same and rng.random() < 0.9 else k
                prog.append({"op": "update", "k": k2, "modes": modes_for(k2, v), "v": v})
                touched.append(k2)
            elif u < 0.60:
                v = rng.randrange(len(vs))
                prog.append({"op": "from_vector", "v": v, "shape": s, "w": vs[v][1]})
                Rs.append(vs[v][2])
                touched.append(len(Rs) - 1)
            elif u < 0.70:
                idx = rng.sample(range(Rs[k]), rng.randint(1, Rs[k]))
                prog.append({"op": "extract", "k": k, "idx": idx})
                Rs.append(len(idx))
                touched.append(len(Rs) - 1)
            elif u < 0.78:
                prog.append({"op": "copy", "k": k})
                Rs.append(Rs[k])
                touched.append(len(Rs) - 1)
            elif u < 0.88:
                b = rng.randrange(len(Rs))
                if Rs[k] + Rs[b] <= 5:
                    prog.append({"op": rng.choice(["add", "sub"]), "a": k, "b": b})
                    Rs.append(Rs[k] + Rs[b])
                    touched.append(len(Rs) - 1)
            elif u < 0.91:
                v = rng.random()
                if v < 0.3:
                    prog.append({"op": "smul", "k": k, "c": rng.choice([2, -3, -1, 0]), "side": rng.choice(["l", "r"]),
                                 "num": rng.choice(["int", "float"])})
                elif v < 0.45:
                    prog.append({"op": "neg", "k": k})
                elif v < 0.55:
                    prog.append({"op": "pos", "k": k})
                elif v < 0.75 or len(set(s)) != 1:
                    # permute keeps the shape only for cubic tensors; otherwise permute twice back
                    if len(set(s)) == 1:
                        prog.append({"op": "permute", "k": k, "order": gen.perm(rng, N)})
                    else:
                        prog.append({"op": "reconstruct", "k": k})
                elif v < 0.9:
                    prog.append({"op": "symmetrize", "k": k})
                else:
                    prog.append({"op": "reconstruct", "k": k})
                Rs.append(Rs[k])
                touched.append(len(Rs) - 1)
            elif u < 0.96 or not ls:
                prog.append({"op": "tolist", "k": k, "mode": rng.choice([None] + list(range(N)))})
                ls.append(Rs[k])
            else:
                l = rng.randrange(len(ls))
                prog.append({"op": "construct", "l": l})
                Rs.append(ls[l])
                touched.append(len(Rs) - 1)

        def inplace():
            k = rng.choice(touched) if touched and rng.random() < 0.7 else rng.randrange(len(Rs))
            others = [i for i, r in enumerate(Rs) if i != k and r <= Rs[k]]
            prog.append(self._inplace(rng, k, Rs, N, others))
            touched.append(k)

        for _ in range(rng.randint(1, 3)):
            create()
        for _ in range(rng.randint(1, 3)):
            inplace()
        if rng.random() < 0.5:
            create()
            inplace()
        return prog

    @staticmethod
    def _enumerated(rng):
        """(creating operation) x (in-place operation) x (which live tensor is mutated), every combination"""
        out = []
        R = 2

        def inplaces(k, other, N):
            return [
                {"op": "normalize", "k": k, "wf": None, "sort": False, "nt": "2", "mode": None},
                {"op": "normalize", "k": k, "wf": None, "sort": False, "nt": "1", "mode": 0},
                {"op": "normalize", "k": k, "wf": "all", "sort": False, "nt": "inf", "mode": None},
                {"op": "normalize", "k": k, "wf": N - 1, "sort": True, "nt": "2", "mode": None},
                {"op": "arrange", "k": k, "wf": None, "perm": None},
                {"op": "arrange", "k": k, "wf": 0, "perm": None},
                {"op": "arrange", "k": k, "wf": None, "perm": "reverse"},
                {"op": "fixsigns", "k": k},
                {"op": "fixsigns_ref", "k": k, "other": other},
                {"op": "redistribute", "k": k, "mode": N - 1},
            ]

        def creators(N):
            # (steps, operand slots, rank of the new tensor)
            return [
                ([{"op": "smul", "k": 0, "c": 2, "side": "l", "num": "int"}], [0], R),
                ([{"op": "smul", "k": 0, "c": -3, "side": "r", "num": "float"}], [0], R),
                ([{"op": "smul", "k": 0, "c": -1, "side": "l", "num": "float"}], [0], R),
                ([{"op": "neg", "k": 0}], [0], R),
                ([{"op": "pos", "k": 0}], [0], R),
                ([{"op": "add", "a": 0, "b": 1}], [0, 1], 2 * R),
                ([{"op": "sub", "a": 0, "b": 1}], [0, 1], 2 * R),
                ([{"op": "copy", "k": 0}], [0], R),
                ([{"op": "extract", "k": 0, "idx": [1, 0]}], [0], R),
                ([{"op": "extract", "k": 0, "idx": [1]}], [0], 1),
                ([{"op": "permute", "k": 0, "order": list(range(N))[::-1]}], [0], R),
                ([{"op": "permute", "k": 0, "order": list(range(N))}], [0], R),
                ([{"op": "tovec", "k": 0, "w": True}, {"op": "from_vector", "v": 0, "shape": None, "w": True}], [0], R),
                ([{"op": "tolist", "k": 0, "mode": None}, {"op": "construct", "l": 0}], [0], R),
                ([{"op": "tolist", "k": 0, "mode": 0}, {"op": "construct", "l": 0}], [0], R),
                ([{"op": "symmetrize", "k": 0}], [0], R),
                ([{"op": "reconstruct", "k": 0}], [0], R),
            ]

        shapes = ([2, 2, 2], [3, 3])
        for ci in range(len(creators(2))):
            for ii in range(10):
                for s in (shapes if creators(2)[ci][0][0]["op"] == "symmetrize" else (shapes[(ci + ii) % 2],)):
                    N = len(s)
                    steps, operands, Rnew = creators(N)[ci]
                    steps = [dict(st, shape=s) if st["op"] == "from_vector" else st for st in steps]
                    new = 2
                    live = operands + [new]
                    for side in live:
                        rk = Rnew if side == new else R
                        cand = [j for j in (1, 0, new) if j != side and (Rnew if j == new else R) <= rk]
                        other = cand[0] if cand else side
                        ip = dict(inplaces(side, other, N)[ii])
                        if ip.get("perm") == "reverse":
                            ip["perm"] = list(range(rk))[::-1]
                        # then a different in-place call on another live tensor
                        side2 = live[(live.index(side) + 1) % len(live)]
                        rk2 = Rnew if side2 == new else R
                        cand2 = [j for j in (0, 1, new) if j != side2 and (Rnew if j == new else R) <= rk2]
                        ip2 = dict(inplaces(side2, cand2[0] if cand2 else side2, N)[(ii + 3) % 10])
                        if ip2.get("perm") == "reverse":
                            ip2["perm"] = list(range(rk2))[::-1]
                        ks = [gen_kt(rng, s, R, zero_cols=0.0, wpool=[-3, -2, 1, 2, 3, 5], distinct_weights=True),
                              gen_kt(rng, s, R, zero_cols=0.0, wpool=[-3, -2, 1, 2, 3, 5], distinct_weights=True)]
                        out.append({"ks": ks, "vs": [], "ls": [], "prog": steps + [ip, ip2]})
        return out

    def gen(self, rng, tier):
        out = self._enumerated(rng)
        n = 90 if tier == "quick" else 1500
        # the fixed patterns: one vector feeding several updates, then in-place calls
        for s in ([2, 3], [3], [2, 2, 3], [3, 1, 2]):
            N = len(s)
            R = rng.choice([1, 2, 3])
            ks = [gen_kt(rng, s, R, zero_cols=0.05), gen_kt(rng, s, R, zero_cols=0.05)]
            allm = list(range(-1, N))
            fm = list(range(N))
            nrm = lambda k: {"op": "normalize", "k": k, "wf": None, "sort": False, "nt": "2", "mode": None}
            progs = [
                [{"op": "tovec", "k": 1, "w": True}] + [{"op": "update", "k": 0, "modes": [m], "v": 0} for m in fm]
                + [nrm(0), {"op": "fixsigns", "k": 0}],
                [{"op": "tovec", "k": 0, "w": True}, {"op": "update", "k": 0, "modes": allm, "v": 0},
                 {"op": "update", "k": 1, "modes": allm, "v": 0}, self._inplace(rng, 0, [R, R], N, [1]),
                 {"op": "arrange", "k": 1, "wf": None, "perm": None}],
                [{"op": "tovec", "k": 0, "w": False}, {"op": "update", "k": 1, "modes": fm, "v": 0}, nrm(1),
                 {"op": "from_vector", "v": 0, "shape": s, "w": False}, {"op": "redistribute", "k": 1, "mode": N - 1}],
                [{"op": "tolist", "k": 0, "mode": None}, {"op": "construct", "l": 0}, nrm(2),
                 {"op": "redistribute", "k": 0, "mode": 0}, {"op": "tolist", "k": 1, "mode": 0}],
                [{"op": "extract", "k": 0, "idx": [R - 1]}, {"op": "copy", "k": 0}, {"op": "add", "a": 0, "b": 1},
                 {"op": "arrange", "k": 4, "wf": None, "perm": None}, {"op": "fixsigns", "k": 2},
                 {"op": "normalize", "k": 0, "wf": "all", "sort": True, "nt": "1", "mode": None},
                 {"op": "fixsigns_ref", "k": 3, "other": 1}],
            ]
            for p in progs:
                out.append({"ks": ks, "vs": [], "ls": [], "prog": p})
        for _ in range(n):
            s = gen.shape(rng, 1, 3 if rng.random() < 0.85 else 4, 3)
            R = rng.choice([1, 2, 2, 3])
            ks = [gen_kt(rng, s, R, zero_cols=0.08), gen_kt(rng, s, R, zero_cols=0.08)]
            out.append({"ks": ks, "vs": [], "ls": [], "prog": self._program(rng, s, R)})
        return out

    def shrink(self, case):
        prog = case["prog"]
        for i in range(len(prog) - 1, -1, -1):
            yield dict(case, prog=prog[:i] + prog[i + 1:])
        if len(prog) > 1:
            yield dict(case, prog=prog[:-1])

    # one step on the implementation ------------------------------------------------
    @staticmethod
    def _do(env, st):
        op = st["op"]
        ks, vs, ls = env["ks"], env["vs"], env["ls"]
        if op == "normalize":
            kw = {"sort": st["sort"], "normtype": {"1": 1, "2": 2, "inf": np.inf}[st["nt"]]}
            if st["wf"] is not None:
                kw["weight_factor"] = st["wf"]
            if st["mode"] is not None:
                kw["mode"] = st["mode"]
            ks[st["k"]].normalize(**kw)
        elif op == "arrange":
            ks[st["k"]].arrange(weight_factor=st["wf"], permutation=st["perm"])
        elif op == "fixsigns":
            ks[st["k"]].fixsigns()
        elif op == "fixsigns_ref":
            ks[st["k"]].fixsigns(ks[st["other"]])
        elif op == "redistribute":
            ks[st["k"]].redistribute(st["mode"])
        elif op == "update":
            ks[st["k"]].update(np.array(st["modes"], dtype=int), vs[st["v"]])
        elif op == "tovec":
            vs.append(ks[st["k"]].tovec(st["w"]))
        elif op == "from_vector":
            ks.append(ttb.ktensor.from_vector(vs[st["v"]], tuple(st["shape"]), st["w"]))
        elif op == "extract":
            ks.append(ks[st["k"]].extract(list(st["idx"])))
        elif op == "copy":
            ks.append(ks[st["k"]].copy())
        elif op == "add":
            ks.append(ks[st["a"]] + ks[st["b"]])
        elif op == "sub":
            ks.append(ks[st["a"]] - ks[st["b"]])
        elif op == "tolist":
            ls.append(ks[st["k"]].tolist(st["mode"]))
        elif op == "construct":
            ks.append(ttb.ktensor(ls[st["l"]]))
        elif op == "smul":
            c = st["c"] if st.get("num") == "int" else float(st["c"])
            ks.append(c * ks[st["k"]] if st.get("side") == "l" else ks[st["k"]] * c)
        elif op == "neg":
            ks.append(-ks[st["k"]])
        elif op == "pos":
            ks.append(+ks[st["k"]])
        elif op == "permute":
            ks.append(ks[st["k"]].permute(np.array(st["order"], dtype=int)))
        elif op == "symmetrize":
            ks.append(ks[st["k"]].symmetrize())
        elif op == "reconstruct":
            K = ks[st["k"]]
            ks.append(ttb.ktensor(K.factor_matrices, K.weights, copy=True))
        else:
            raise ValueError(op)

    @staticmethod
    def _roundtrips(T):
        """the exact round trips of the property on one live object; returns a complaint or None"""
        N = T.ndims
        before = _kbytes(T)
        v = T.tovec(True)
        if not ttb.ktensor.from_vector(v, T.shape, True).isequal(T):
            return "from_vector(tovec(K)) no longer reproduces K"
        v2 = T.tovec(False)
        B = ttb.ktensor.from_vector(v2, T.shape, False)
        if any(not np.array_equal(a, b) for a, b in zip(B.factor_matrices, T.factor_matrices)):
            return "from_vector(tovec(K, False)) no longer reproduces the factor matrices"
        C = T.copy()
        if not C.isequal(T):
            return "copy() differs from the object"
        C.update(np.arange(-1, N), v)
        if not C.isequal(T):
            return "update from tovec() no longer reproduces K"
        if _kbytes(T) != before or not np.array_equal(v, T.tovec(True)):
            return "a round trip modified the object or its vector"
        return None

    def _spec_new(self, st, before_j, after_j):
        """exact value of what a creating step / update must produce (None = checked by denotation only)"""
        op = st["op"]
        ks = before_j["ks"]
        if op == "tovec":
            K = ks[st["k"]]
            R = len(K["weights"])
            want = (list(K["weights"]) if st["w"] else []) + [x for f in K["factors"] for r in range(R) for x in col(f, r)]
            return deep_eq(after_j["vs"][-1], want)
        if op == "copy":
            return deep_eq(after_j["ks"][-1], ks[st["k"]])
        if op == "extract":
            K = ks[st["k"]]
            want = {"weights": [K["weights"][i] for i in st["idx"]],
                    "factors": [[[row[i] for i in st["idx"]] for row in f] for f in K["factors"]]}
            return deep_eq(after_j["ks"][-1], want)
        if op in ("add", "sub"):
            A, B = ks[st["a"]], ks[st["b"]]
            wb = B["weights"] if op == "add" else [jval(-fr(x)) for x in B["weights"]]
            want = {"weights": list(A["weights"]) + list(wb),
                    "factors": [[ra + rb for ra, rb in zip(fa, fb)] for fa, fb in zip(A["factors"], B["factors"])]}
            return deep_eq(after_j["ks"][-1], want)
        if op in ("pos", "reconstruct"):
            return deep_eq(after_j["ks"][-1], ks[st["k"]])
        if op in ("smul", "neg"):
            K = ks[st["k"]]
            c = -1 if op == "neg" else st["c"]
            want = {"weights": [jval(c * fr(x)) for x in K["weights"]], "factors": K["factors"]}
            return deep_eq(after_j["ks"][-1], want)
        if op == "permute":
            K = ks[st["k"]]
            return deep_eq(after_j["ks"][-1], {"weights": K["weights"], "factors": [K["factors"][i] for i in st["order"]]})
        if op == "symmetrize":
            fs = after_j["ks"][-1]["factors"]
            return all(deep_eq(f, fs[0]) for f in fs) and len(fs) == len(ks[st["k"]]["factors"])
        if op == "construct":
            fs = before_j["ls"][st["l"]]
            return deep_eq(after_j["ks"][-1], {"weights": [1] * len(fs[0][0]), "factors": fs})
        if op == "from_vector":
            d, shp, w = before_j["vs"][st["v"]], st["shape"], st["w"]
            R = len(d) // (sum(shp) + (1 if w else 0))
            wts = d[:R] if w else [1] * R
            off = R if w else 0
            fs = []
            for n in shp:
                seg = d[off:off + n * R]
                fs.append([[seg[i + n * r] for r in range(R)] for i in range(n)])
                off += n * R
            return deep_eq(after_j["ks"][-1], {"weights": wts, "factors": fs})
        if op == "update":
            K = ks[st["k"]]
            d = before_j["vs"][st["v"]]
            R = len(K["weights"])
            want = {"weights": list(K["weights"]), "factors": [f for f in K["factors"]]}
            loc = 0
            for m in st["modes"]:
                if m == -1:
                    want["weights"] = d[loc:loc + R]
                    loc += R
                else:
                    n = len(K["factors"][m])
                    seg = d[loc:loc + n * R]
                    want["factors"][m] = [[seg[i + n * r] for r in range(R)] for i in range(n)]
                    loc += n * R
            return deep_eq(after_j["ks"][st["k"]], want)
        return None

    def evaluate(self, cases):
        models = drive([{"op": "k_seq", "ks": c["ks"], "vs": c["vs"], "ls": c["ls"], "prog": c["prog"]} for c in cases])
        return [self._judge(c, m) for c, m in zip(cases, models)]

    def _judge(self, c, model):
        env = {"ks": [mk(K) for K in c["ks"]], "vs": [np.array(v, dtype=float) for v in c["vs"]],
               "ls": [[np.array(f, dtype=float) for f in l] for l in c["ls"]]}
        tags = [f"N{len(c['ks'][0]['factors'])}", f"len{len(c['prog'])}"]
        compare_model = True
        trace = []
        nontrivial = nonzero_tensor(c["ks"][0])
        for i, st in enumerate(c["prog"]):
            op = st["op"]
            tags.append(op)
            before = _snap(env)
            before_j = _env_j(env)
            r = call(self._do, env, st)
            mi = model[i] if i < len(model) else None
            if "reject" in r:
                tags.append("reject")
                trace.append({"step": i, "impl": strip_exc(r)})
                if mi is not None and "reject" not in mi and compare_model:
                    return Verdict("corr", f"step {i} ({op}): the implementation refused what the model accepts",
                                   {"trace": trace, "exc": r.get("msg")}, model, None, tags, nontrivial)
                return Verdict("ok", "", {"trace": trace}, model, None, tags, nontrivial)
            after = _snap(env)
            after_j = _env_j(env)
            trace.append({"step": i, "op": op})
            target = ("k", st["k"]) if op in INPLACE or op == "update" else None
            where = f"step {i} ({op})"
            # (ii) every other live object is bitwise unchanged
            for name, val in before.items():
                if name != target and after.get(name) != val:
                    kind = {"k": "Kruskal tensor", "v": "vector", "l": "factor list"}[name[0]]
                    return Verdict("violation", f"{where}: live {kind} #{name[1]} (not the receiver) was modified",
                                   {"trace": trace, "env": after_j}, model, before_j, tags, nontrivial)
            # (i) the receiver denotes the same array / the new object is what the call prescribes
            if op in INPLACE:
                d0 = denote_j(before_j["ks"][st["k"]])
                if not vec_close(denote_j(after_j["ks"][st["k"]]), d0):
                    return Verdict("violation", f"{where}: the receiver no longer denotes the same array",
                                   {"trace": trace, "env": after_j}, model, before_j, tags, nontrivial)
            elif op == "tolist":
                K = before_j["ks"][st["k"]]
                fs = [[[fr(x) for x in row] for row in f] for f in after_j["ls"][-1]]
                if not vec_close(denote([1] * len(K["weights"]), fs), denote_j(K)):
                    return Verdict("violation", f"{where}: the factor list does not denote the tensor",
                                   {"trace": trace, "env": after_j}, model, before_j, tags, nontrivial)
            else:
                ok = self._spec_new(st, before_j, after_j)
                if ok is False:
                    return Verdict("violation", f"{where}: the result is not what the call prescribes",
                                   {"trace": trace, "env": after_j}, model, before_j, tags, nontrivial)
            # (iii) round trips on the object this step wrote or created
            T = None
            if target is not None:
                T = env["ks"][st["k"]]
            elif len(after_j["ks"]) > len(before_j["ks"]):
                T = env["ks"][-1]
            if T is not None and T.ndims > 0:
                rt = call(self._roundtrips, T)
                msg = rt.get("ok") if "ok" in rt else f"a round trip raised {rt.get('exc')}"
                if msg:
                    return Verdict("violation", f"{where}: {msg}", {"trace": trace, "env": after_j}, model, before_j,
                                   tags, nontrivial)
                if _snap(env) != after:
                    return Verdict("violation", f"{where}: a round trip modified a live object",
                                   {"trace": trace, "env": after_j}, model, before_j, tags, nontrivial)
            # (iv) full() of EVERY live tensor is the array its stored form (and the model's object) denotes
            for j, Kl in enumerate(env["ks"]):
                if Kl.ndims == 0:
                    continue
                fu = call(lambda Kl=Kl: [Fraction(float(x)) for x in np.asarray(Kl.full().data).flatten(order="F")])
                ref_j = mi["ok"]["ks"][j] if (compare_model and mi is not None and "ok" in mi and j < len(mi["ok"]["ks"])
                                              and op != "symmetrize") else after_j["ks"][j]
                if "ok" not in fu or not vec_close(fu["ok"], denote_j(ref_j), 1e-9):
                    if ref_j is not after_j["ks"][j] and "ok" in fu and vec_close(fu["ok"], denote_j(after_j["ks"][j]), 1e-9):
                        break  # stored form differs from the model: decided by the correspondence test below
                    return Verdict("violation", f"{where}: full() of live Kruskal tensor #{j} is not the array it denotes",
                                   {"trace": trace, "env": after_j}, model, before_j, tags, nontrivial)
            # model correspondence of the whole environment
            if compare_model:
                if mi is None or "reject" in mi:
                    return Verdict("corr", f"{where}: the model refuses what the implementation accepts",
                                   {"trace": trace, "env": after_j}, model, None, tags, nontrivial)
                if not close(after_j, mi["ok"], 1e-11):
                    fragile = op in ("fixsigns_ref", "symmetrize") or (
                        op in ("normalize", "arrange") and near_ties([fr(x) for x in mi["ok"]["ks"][st["k"]]["weights"]] + (
                            [fr(x) for x in before_j["ks"][st["k"]]["weights"]] if op == "arrange" else [])))
                    if op == "arrange" and st.get("wf") is not None:
                        fragile = True  # order decided by weights that are absorbed afterwards
                    if fragile:
                        tags.append("tie")
                        compare_model = False
                    else:
                        return Verdict("corr", f"{where}: the environment differs from the model",
                                       {"trace": trace, "env": after_j}, mi, None, tags, nontrivial)
        return Verdict("ok", "", {"trace": trace}, None, None, tags, nontrivial)


def families():
    return [Algebra(), Normalize(), NormalizeIdem(), Arrange(), ArrangeCompose(), Fixsigns(), FixsignsRef(), Tolist(),
            Score(), Sequences()]
