"""C15 — symmetrise and the symmetry test (dense: both algorithm versions, details on/off; Kruskal).

Exact tie: data are small integers, so every sum the implementation forms is exact and the one
division per entry is correctly rounded; the model runs over the rationals and a model rational
equals an implementation double iff it rounds to it (lib.num_eq).  Two places where floating
point cannot be exact are treated explicitly and only there:
  * re-symmetrising with the all-permutations version a result whose entries are not dyadic
    (e.g. thirds): the implementation adds n! rounded copies – compared at 1e-12 relative;
  * the Kruskal routine (norms, N-th roots): one-step trace validation at 1e-9 relative of the
    model applied to the implementation's own normalised copy; the symmetry of the *result* is
    checked exactly (equal factor matrices, exact rational evaluation of the returned object).
    "Keeps its value" / "symmetrising again changes nothing": the array clauses on the implementation
    at 1e-9; the decidable hypothesis `kaligned` of C15_kruskal_keeps_value is evaluated by the
    model on exact rationals (the implementation's normalised copy, the normalised copy of the
    result, and – for already symmetric inputs – that copy with its columns snapped to +- the first
    factor's) and recomputed here; where it holds the model's result must denote the copy's array
    exactly (driver) and the implementation's result that array at 1e-9.
"""
from __future__ import annotations

import itertools
import logging
import math
from fractions import Fraction

import numpy as np
import pyttb as ttb

from harness import gen
from harness.lib import (DriverError, Family, Verdict, call, deep_eq, dense_j, drive, frac, jval, ktensor_j,
                         strip_exc)

logging.getLogger().setLevel(logging.ERROR)  # the all-permutations version logs a layout warning per call

RULE = ("dense: every shape with <= 36 cells and order <= 4 (thorough; a seeded sample in quick) plus orders 5-6 "
        "with extents >= 2 and some singleton-padded shapes, every choice of one group or of two disjoint groups "
        "of equal length among modes of equal extent (proper subsets, non-adjacent modes, unsorted groups, "
        "1-d / None argument conventions), plus 2^6 with three groups of two and with two groups of three modes, data = small integers of both signs with zeros (random), "
        "class-constant (symmetric) and symmetric with one entry changed (nearly symmetric); every dense case with "
        "seven storage variants of the same logical operand (constructor-built F-contiguous; `.data` replaced by a "
        "C-contiguous copy; by a view contiguous in neither order; tensor grown by assignment past its extent; "
        "float64 and int64); both versions, "
        "details on/off; Kruskal: cubic integer factor matrices of order 2..4, rank 1..3 (random / non-cubic), already "
        "symmetric tensors (equal / alternately negated / per-mode scaled factors) of order 1..5, rank 1..4 with zero "
        "weights, zero columns in all or in one factor, an even / odd number of factors against the first, weights of "
        "either sign; for every accepted case the model step, the hypothesis kaligned and the exact array comparison on "
        "the normalised copy, on the normalised copy of the result (second symmetrisation) and on the snapped copy; "
        "malformed groups "
        "(unequal extents, overlapping, out of range, negative, empty, a mode listed twice) in a separate stream; non-trivial = accepted and "
        "more than one cell in a group of at least two modes; distinct = distinct case hash")
ASSUMPTIONS = [
    "np.transpose / np.sort / fancy indexing / numpy_groupies.aggregate / itertools.permutations have the "
    "semantics of the model primitives of the same name (exercised by this correspondence)",
    "Kruskal symmetrize: ktensor.normalize('all') is an external numerical service (norms and N-th roots); the "
    "model starts from the implementation's normalised copy and is compared at 1e-9 relative; for an already symmetric "
    "input the copy's columns are +- the first factor's only up to rounding, there the model also runs on the copy with "
    "those columns snapped (accepted within 1e-9 relative)",
]
EXHAUSTIVE = {"quick": False, "thorough": True}


# ----------------------------------------------------------------------------------------------
# independent reference (plain Python, Fractions)
# ----------------------------------------------------------------------------------------------
def group_perms(n, grps):
    perms = [list(range(n))]
    for g in grps:
        new = []
        for p in perms:
            for q in itertools.permutations(g):
                pp = list(p)
                for a, b in zip(g, q):
                    pp[a] = b
                new.append(pp)
        perms = new
    return perms


def f_index(shape, i):
    idx, mult = 0, 1
    for s, x in zip(shape, i):
        idx += x * mult
        mult *= s
    return idx


def permuted(shape, data, p):
    """F-order data of np.transpose(T, p) (shape of the result, data)."""
    ns = [shape[k] for k in p]
    out = []
    for j in gen.all_subs(ns):
        i = [0] * len(shape)
        for k, o in enumerate(p):
            i[o] = j[k]
        out.append(data[f_index(shape, i)])
    return ns, out


def ref_average(shape, data, grps):
    P = group_perms(len(shape), grps)
    acc = [Fraction(0)] * len(data)
    for p in P:
        ns, d = permuted(shape, data, p)
        assert ns == list(shape)
        acc = [a + Fraction(b) for a, b in zip(acc, d)]
    return [a / len(P) for a in acc]


def ref_issym(shape, data, grps):
    for p in group_perms(len(shape), grps):
        ns, d = permuted(shape, data, p)
        if ns != list(shape) or d != list(data):
            return False
    return True


def class_key(i, grps):
    i = list(i)
    for g in grps:
        vals = sorted(i[m] for m in g)
        for m, v in zip(g, vals):
            i[m] = v
    return tuple(i)


def symmetric_data(rng, shape, grps):
    vals = {}
    out = []
    for i in gen.all_subs(shape):
        k = class_key(i, grps)
        if k not in vals:
            vals[k] = 0 if rng.random() < 0.2 else rng.choice([v for v in range(-9, 10) if v])
        out.append(vals[k])
    return out


def dyadic(xs):
    for x in xs:
        d = Fraction(x).denominator
        if d & (d - 1):
            return False
    return True


def close(a, b, rel=1e-12):
    a, b = float(frac(a)), float(frac(b))
    return abs(a - b) <= rel * max(1.0, abs(a), abs(b))


# ----------------------------------------------------------------------------------------------
# shapes and groupings
# ----------------------------------------------------------------------------------------------
def all_shapes(max_cells, nmax, smin=1):
    out = []

    def rec(prefix, cells):
        if prefix:
            out.append(list(prefix))
        if len(prefix) == nmax:
            return
        for s in range(smin, max_cells // cells + 1):
            rec(prefix + [s], cells * s)

    rec([], 1)
    return out


def groupings(shape, with_single=False):
    """one group, or two disjoint groups of the same length (rows of a 2-d array), among modes of equal extent."""
    n = len(shape)
    singles = []
    for k in range(1 if with_single else 2, n + 1):
        for g in itertools.combinations(range(n), k):
            if len({shape[m] for m in g}) == 1:
                singles.append(list(g))
    res = [[g] for g in singles]
    for a, b in itertools.combinations(singles, 2):
        if len(a) == len(b) and not set(a) & set(b):
            res.append([a, b])
    return res


FIXED = [
    ([2, 2, 2], [[0, 1]]), ([2, 2, 3, 3], [[0, 1], [2, 3]]), ([3, 2, 3, 2], [[0, 2], [1, 3]]),
    ([3, 2, 2], [[1, 2]]), ([2, 3, 2], [[0, 2]]), ([2, 2, 3], [[0, 1]]), ([3, 3, 3], [[0, 2]]),
    ([3, 3, 3], [[0, 1, 2]]), ([2, 2, 2, 2], [[0, 3], [1, 2]]), ([2, 2, 2, 2], [[0, 1, 2, 3]]),
    ([2, 2, 2, 2, 2], [[0, 2, 4]]), ([2, 2, 2, 2, 2], [[0, 1, 2, 3, 4]]), ([1, 1, 1, 2, 2, 2], [[0, 1, 2], [3, 4, 5]]),
    ([3, 3, 4], [[0, 1]]), ([2, 2, 3, 3], [[2, 3]]), ([2, 2, 3, 3], [[0, 1]]), ([4, 4], [[0, 1]]), ([6, 6], [[0, 1]]), ([2, 3], [[0], [1]]), ([5], [[0]]), ([3, 3, 4], [[1, 0]]),
    ([2, 2, 2], [[2, 0, 1]]), ([2, 3, 2, 3], [[3, 1], [2, 0]]), ([1, 3, 1, 3], [[0, 2], [1, 3]]),
    # three groups (64 cells; every average is a multiple of 1/8, so still exact)
    ([2, 2, 2, 2, 2, 2], [[0, 1], [2, 3], [4, 5]]), ([2, 2, 2, 2, 2, 2], [[0, 3], [1, 4], [2, 5]]),
]

# two groups of three modes each: two divisions by 3 in a row in the class-based version; the data are
# multiples of 9 so that both quotients (and the sum / 36 of the all-permutations version) stay integers
NINE = [([2, 2, 2, 2, 2, 2], [[0, 1, 2], [3, 4, 5]]), ([2, 2, 2, 2, 2, 2], [[0, 2, 4], [5, 3, 1]])]


def scopes(rng, tier):
    out = [(s, g) for s, g in FIXED]
    pool = []
    for s in all_shapes(36, 4):
        for g in groupings(s):
            pool.append((s, g))
    for s in all_shapes(36, 6, smin=2):
        if len(s) >= 5:
            for g in groupings(s):
                pool.append((s, g))
    for s in ([1, 2, 2, 1, 2], [2, 1, 1, 2, 1], [1, 1, 1, 2, 2, 2], [2, 2, 1, 1, 3, 3]):
        for g in groupings(s):
            pool.append((s, g))
    if tier == "quick":
        pool = rng.sample(pool, 110)
    out += pool
    # a few single-mode groups and permuted presentations of the same groups
    extra = []
    for s, g in rng.sample(out, min(len(out), 25 if tier == "quick" else 200)):
        g2 = [list(x) for x in g]
        for x in g2:
            rng.shuffle(x)
        rng.shuffle(g2)
        extra.append((s, g2))
    for s in ([2, 3], [3, 3], [2, 2, 3]):
        for g in groupings(s, with_single=True):
            if len(g[0]) == 1:
                extra.append((s, g))
    return out + extra


def conv_of(rng, shape, grps):
    n = len(shape)
    if len(grps) == 1 and grps[0] == list(range(n)) and rng.random() < 0.5:
        return "none"
    if len(grps) == 1 and rng.random() < 0.3:
        return "1d"
    return "2d"


def grps_arg(case):
    if case["conv"] == "none":
        return None
    if case["conv"] == "1d":
        return np.array(case["grps"][0], dtype=int)
    return np.array(case["grps"], dtype=int).reshape(len(case["grps"]), -1)


def model_grps(case):
    return None if case["conv"] == "none" else case["grps"]


# ----------------------------------------------------------------------------------------------
# how the operand is stored: the routines must pair values with subscripts by the tensor's logical
# (first index fastest) order whatever the memory layout / dtype of `.data` is
# ----------------------------------------------------------------------------------------------
VARIANTS = (("F", "float"), ("C", "float"), ("strided", "float"), ("grown", "float"), ("grown", "int"),
            ("C", "int"), ("F", "int"))


def build_tensor(c):
    """(tensor, layout actually obtained).  layout F: constructor; C: `.data` replaced by a C-contiguous copy;
    strided: `.data` replaced by a view that is contiguous in neither order; grown: a smaller tensor enlarged by
    assigning past its extent (the public API then holds a C-ordered buffer), remaining entries assigned one by one."""
    shape = tuple(c["shape"])
    dt = np.int64 if c.get("dtype") == "int" else float
    A = np.array(c["data"], dtype=dt).reshape(shape, order="F")
    lay = c.get("layout", "F")
    X = None
    if lay == "grown":
        ms = [m for m in range(len(shape)) if shape[m] >= 2]
        if ms:
            m = ms[-1]
            try:
                base = np.take(A, range(shape[m] - 1), axis=m)
                X = ttb.tensor(np.array(base, dtype=dt, order="F"), copy=True)
                for sub in gen.all_subs(list(shape)):
                    if sub[m] == shape[m] - 1:
                        val = A[tuple(sub)]
                        X[tuple(sub)] = int(val) if dt is not float else float(val)
                if tuple(int(x) for x in X.shape) != shape:
                    X = None
            except Exception:  # noqa: BLE001
                X = None
        if X is None:
            lay = "C"
    if lay == "C":
        X = ttb.tensor(np.array(A, order="F"), copy=True)
        X.data = np.ascontiguousarray(A)
    elif lay == "strided":
        big = np.full(shape + (2,), -7, dtype=dt)
        big[..., 0] = A
        X = ttb.tensor(np.array(A, order="F"), copy=True)
        X.data = big[..., 0]
    elif lay == "F":
        X = ttb.tensor(np.array(A, order="F"), copy=True)
    got = dense_j(X)
    if got["shape"] != list(shape) or not deep_eq(got["data"], jval(list(c["data"]))):
        raise DriverError(f"harness could not build the operand of {c} (got {got})")
    return X, lay


def layout_tags(c, X, lay):
    fl = X.data.flags
    contig = "Fcontig" if fl["F_CONTIGUOUS"] else ("Ccontig" if fl["C_CONTIGUOUS"] else "noncontig")
    return [f"layout-{lay}", f"dtype-{c.get('dtype', 'float')}", contig]


def with_variants(cases):
    """every case with every storage variant of its operand (same logical tensor)."""
    out = []
    for c in cases:
        for lay, dt in VARIANTS:
            out.append(dict(c, layout=lay, dtype=dt))
    return out


def drive_memo(reqs):
    """drive(), but identical requests (the storage variants of one logical case) are sent once."""
    import json as _json
    keys = [_json.dumps(r, sort_keys=True) for r in reqs]
    uniq, pos = [], {}
    for k, r in zip(keys, reqs):
        if k not in pos:
            pos[k] = len(uniq)
            uniq.append(r)
    res = drive(uniq)
    return [res[pos[k]] for k in keys]


_REF = {}


def ref_average_memo(shape, data, grps):
    k = (tuple(shape), tuple(data), tuple(tuple(g) for g in grps))
    if k not in _REF:
        if len(_REF) > 20000:
            _REF.clear()
        _REF[k] = ref_average(shape, data, grps)
    return _REF[k]


def nontrivial_scope(shape, grps):
    return any(len(g) >= 2 and shape[g[0]] >= 2 for g in grps if g)


def test_out_j(r):
    if isinstance(r, tuple):
        return {"b": bool(r[0]), "diffs": jval(np.asarray(r[1]).reshape(-1)),
                "perms": [[int(x) for x in row] for row in np.asarray(r[2]).tolist()]}
    return {"b": bool(r)}


# ----------------------------------------------------------------------------------------------
class Symmetrize(Family):
    """symmetrize: == spec average, passes the test, idempotent, fixes symmetric input, versions agree."""
    name = "symmetrize"
    theorems = ("C15_symmetrize_eq_spec", "C15_symmetrize_is_sym", "C15_symmetrize_idem",
                "C15_symmetrize_fixes_sym", "C15_versions_agree")

    def gen(self, rng, tier):
        out = []
        for s, g in scopes(rng, tier):
            kinds = ["random", "symmetric"] if tier == "thorough" or rng.random() < 0.5 else ["random"]
            for kind in kinds:
                data = gen.dense_data(rng, s) if kind == "random" else symmetric_data(rng, s, g)
                out.append({"shape": s, "data": data, "grps": g, "conv": conv_of(rng, s, g), "kind": kind})
        for s, g in NINE[:1 if tier == "quick" else 2]:
            out.append({"shape": s, "data": [9 * v for v in gen.dense_data(rng, s)], "grps": g, "conv": "2d",
                        "kind": "random"})
        return with_variants(out)

    def evaluate(self, cases):
        reqs, impls, ltags = [], [], []
        for c in cases:
            X, lay = build_tensor(c)
            ltags.append(layout_tags(c, X, lay))
            g = grps_arg(c)
            T = {"shape": c["shape"], "data": c["data"]}
            per = {}
            for ver in (False, True):
                v = 1 if ver else None

                def run(X=X, g=g, v=v):
                    R = X.symmetrize(g, v)
                    again = R.symmetrize(g, v)
                    return {"R": dense_j(R), "again": dense_j(again), "obj": R}
                per[ver] = call(run)
                if "ok" in per[ver]:
                    R = per[ver]["ok"].pop("obj")
                    tests = []
                    for a, b in IsSymmetric.COMBOS:
                        t = call(lambda R=R, a=a, b=b: R.issymmetric(g, 1 if a else None, b))
                        tests.append("ok" in t and bool(t["ok"][0] if b else t["ok"]) is True)
                    per[ver]["ok"]["tests"] = tests
                reqs.append({"op": "sym_symmetrize", "T": T, "grps": model_grps(c), "version": ver})
            reqs.append({"op": "sym_spec", "T": T, "grps": c["grps"]})
            impls.append(per)
        models = drive_memo(reqs)
        out = []
        for k, (c, per) in enumerate(zip(cases, impls)):
            m_new, m_old, spec = models[3 * k], models[3 * k + 1], models[3 * k + 2]
            ref = ref_average_memo(c["shape"], c["data"], c["grps"])
            if not deep_eq(jval(ref), spec["data"]) or spec["shape"] != c["shape"]:
                raise DriverError(f"Lean symSpec and the Python reference disagree on {c}")
            tags = [f"N{len(c['shape'])}", f"groups{len(c['grps'])}", f"glen{len(c['grps'][0])}", c["kind"], c["conv"],
                    "proper" if sum(len(g) for g in c["grps"]) < len(c["shape"]) else "allmodes",
                    "dyadic" if dyadic(ref) else "nondyadic"] + ltags[k]
            v = Verdict("ok", "", {str(a): b for a, b in per.items()}, {"new": m_new, "old": m_old}, spec, tags,
                        nontrivial_scope(c["shape"], c["grps"]))

            def bad(status, what, v=v):
                return Verdict(status, what, v.impl, v.model, v.spec, v.tags, v.nontrivial)
            res = None
            for ver, m in ((False, m_new), (True, m_old)):
                name = "all-permutations" if ver else "class-based"
                r = per[ver]
                if "ok" not in r:
                    res = bad("violation", f"{name} symmetrize raised on valid groups: {r.get('exc')} {r.get('msg')}")
                    break
                r = r["ok"]
                if not deep_eq(r["R"], spec):
                    res = bad("violation", f"{name} symmetrize is not the average over the permutations within the groups")
                    break
                if not all(r["tests"]):
                    res = bad("violation", f"result of {name} symmetrize is not accepted by issymmetric; (version, details) in ((None,F),(1,F),(None,T),(1,T)) -> {r['tests']}")
                    break
                exact = (not ver) or dyadic(ref)
                same = deep_eq(r["again"], r["R"]) if exact else (
                    r["again"]["shape"] == r["R"]["shape"] and all(close(a, b) for a, b in zip(r["again"]["data"], r["R"]["data"])))
                if not same:
                    res = bad("violation", f"{name} symmetrize is not idempotent")
                    break
                if c["kind"] == "symmetric" and not deep_eq(r["R"], {"shape": c["shape"], "data": c["data"]}):
                    res = bad("violation", f"{name} symmetrize changed an already symmetric tensor")
                    break
                if not deep_eq({"ok": r["R"]}, m):
                    res = bad("corr", f"{name} symmetrize differs from the model")
            if res is None and "ok" in per[False] and "ok" in per[True] and \
                    not deep_eq(per[False]["ok"]["R"], per[True]["ok"]["R"]):
                res = bad("violation", "the two versions of symmetrize disagree")
            out.append(res or v)
        return out

    def shrink(self, case):
        # simpler data first: one non-zero entry at a time
        n = len(case["data"])
        for k in range(n):
            if case["data"][k] != 0:
                d = [0] * n
                d[k] = 1
                yield dict(case, data=d, kind="random")


class IsSymmetric(Family):
    """issymmetric == (tensor invariant under every permutation within the groups); details outputs."""
    name = "issymmetric"
    theorems = ("C15_issymmetric_iff", "C15_issymmetric_details")

    def gen(self, rng, tier):
        out = []
        for s, g in scopes(rng, tier):
            for kind in ("symmetric", "near", "random"):
                if tier == "quick" and rng.random() < 0.35:
                    continue
                data = gen.dense_data(rng, s) if kind == "random" else symmetric_data(rng, s, g)
                if kind == "near":
                    k = rng.randrange(len(data))
                    data[k] += rng.choice([-2, -1, 1, 3])
                out.append({"shape": s, "data": data, "grps": g, "conv": conv_of(rng, s, g), "kind": kind})
        return with_variants(out)

    COMBOS = ((False, False), (True, False), (False, True), (True, True))

    def evaluate(self, cases):
        reqs, impls, ltags = [], [], []
        for c in cases:
            X, lay = build_tensor(c)
            ltags.append(layout_tags(c, X, lay))
            g = grps_arg(c)
            T = {"shape": c["shape"], "data": c["data"]}
            per = []
            for ver, det in self.COMBOS:
                per.append(call(lambda X=X, g=g, ver=ver, det=det: test_out_j(X.issymmetric(g, 1 if ver else None, det))))
                reqs.append({"op": "sym_issymmetric", "T": T, "grps": model_grps(c), "version": ver, "details": det})
            reqs.append({"op": "sym_isSym", "T": T, "grps": c["grps"]})
            impls.append(per)
        models = drive_memo(reqs)
        out = []
        for k, (c, per) in enumerate(zip(cases, impls)):
            ms = models[5 * k:5 * k + 4]
            spec = models[5 * k + 4]
            want = ref_issym(c["shape"], c["data"], c["grps"])
            if spec != want:
                raise DriverError(f"Lean IsSym and the Python reference disagree on {c}")
            tags = [f"N{len(c['shape'])}", f"groups{len(c['grps'])}", f"glen{len(c['grps'][0])}", c["kind"], c["conv"],
                    "sym" if want else "notsym",
                    "proper" if sum(len(g) for g in c["grps"]) < len(c["shape"]) else "allmodes"] + ltags[k]
            v = Verdict("ok", "", per, ms, want, tags, nontrivial_scope(c["shape"], c["grps"]))
            for (ver, det), r, m in zip(self.COMBOS, per, ms):
                name = f"issymmetric(version={'1' if ver else 'None'}, return_details={det})"
                if "ok" not in r:
                    v = Verdict("violation", f"{name} raised on valid groups: {r.get('exc')} {r.get('msg')}", per, ms, want, tags)
                    break
                if r["ok"]["b"] != want:
                    v = Verdict("violation", f"{name} answered {r['ok']['b']}, the tensor is "
                                + ("" if want else "not ") + "invariant under the permutations within the groups", per, ms, want, tags)
                    break
                if det:
                    if "diffs" not in r["ok"]:
                        v = Verdict("violation", f"{name} returned no details", per, ms, want, tags)
                        break
                    # every listed permutation: difference zero iff the tensor is invariant under it
                    okd = True
                    for d, p in zip(r["ok"]["diffs"], r["ok"]["perms"]):
                        ns, pd = permuted(c["shape"], c["data"], p) if sorted(p) == list(range(len(p))) else (None, None)
                        inv = ns == c["shape"] and pd == c["data"]
                        if (frac(d) == 0) != inv:
                            okd = False
                    if not okd or len(r["ok"]["diffs"]) != len(r["ok"]["perms"]):
                        v = Verdict("violation", f"{name}: a reported difference is zero for a permutation that changes the tensor (or the reverse)", per, ms, want, tags)
                        break
                if not deep_eq(strip_exc(r), m) and v.status == "ok":
                    v = Verdict("corr", f"{name} differs from the model", per, ms, want, tags)
            out.append(v)
        return out


# ----------------------------------------------------------------------------------------------
def malformed_groups(rng, shape):
    n = len(shape)
    out = []
    # unequal extents
    for a, b in itertools.combinations(range(n), 2):
        if shape[a] != shape[b]:
            out.append(("unequal", [[a, b]]))
            out.append(("unequal", [[b, a]]))
    eq = [g for g in itertools.combinations(range(n), 2) if shape[g[0]] == shape[g[1]]]
    # overlapping
    for a, b in itertools.permutations(eq, 2):
        if set(a) & set(b):
            out.append(("overlap", [list(a), list(b)]))
    for g in eq:
        out.append(("overlap", [list(g), list(g)]))
    out.append(("overlap", [[0], [0]]))
    for g in eq:
        for a, b in itertools.combinations(range(n), 2):
            if shape[a] != shape[b] and not set(g) & {a, b}:
                out.append(("unequal", [list(g), [a, b]]))
                out.append(("unequal", [[a, b], list(g)]))
    # out of range
    out.append(("range", [[0, n]]))
    out.append(("range", [[n]]))
    out.append(("range", [[n + 1, 0]]))
    for g in eq[:2]:
        out.append(("range", [list(g), [n, n + 1]]))
        out.append(("range", [[n, n + 1], list(g)]))
    # empty row
    out.append(("empty", [[]]))
    # a negative mode (NumPy would wrap it; the argument check refuses it)
    out.append(("negative", [[-1]]))
    out.append(("negative", [[0, -1]]))
    if n >= 2:
        out.append(("negative", [[0, 1], [-2, -1]]))
    # a mode listed twice in one group
    out.append(("repeat", [[0, 0]]))
    if n >= 2 and shape[0] == shape[1]:
        out.append(("repeat", [[1, 1, 0]]))
        out.append(("repeat", [[0, 1, 0]]))
    # rows of one length only (a 2-d array)
    return [(k, g) for k, g in out if len({len(x) for x in g}) == 1]


class Malformed(Family):
    """unequal extents / overlapping groups / modes out of range, negative or listed twice: symmetrize rejects;
    issymmetric rejects modes that are out of range, negative or listed twice and answers False for unequal
    extents; model and implementation agree on reject-or-not for every malformed input."""
    name = "malformed"
    theorems = ("C15_symmetrize_rejects", "C15_symmetrize_accepts_iff", "C15_issymmetric_rejects",
                "C15_issymmetric_unequal_sizes")

    def gen(self, rng, tier):
        out = []
        shapes = [[2, 2, 3], [2, 3], [3, 3], [2, 2, 2], [2, 3, 2, 3], [3, 1, 3], [2], [2, 2, 3, 3]]
        shapes += [gen.shape(rng, 1, 4, 3) for _ in range(4 if tier == "quick" else 30)]
        for s in shapes:
            data = gen.dense_data(rng, s)
            ms = malformed_groups(rng, s)
            if tier == "quick" and len(ms) > 10:
                ms = rng.sample(ms, 10)
            for kind, g in ms:
                out.append({"shape": s, "data": data if rng.random() < 0.6 else [1] * len(data), "grps": g, "bad": kind})
        return out

    def evaluate(self, cases):
        reqs, impls = [], []
        for c in cases:
            X = gen.mk_tensor(ttb, c["shape"], c["data"])
            g = np.array(c["grps"], dtype=int).reshape(len(c["grps"]), -1)
            T = {"shape": c["shape"], "data": c["data"]}
            per = []
            for ver in (False, True):
                per.append(call(lambda X=X, g=g, ver=ver: dense_j(X.symmetrize(g, 1 if ver else None))))
                reqs.append({"op": "sym_symmetrize", "T": T, "grps": c["grps"], "version": ver})
            for ver, det in IsSymmetric.COMBOS:
                per.append(call(lambda X=X, g=g, ver=ver, det=det: test_out_j(X.issymmetric(g, 1 if ver else None, det))))
                reqs.append({"op": "sym_issymmetric", "T": T, "grps": c["grps"], "version": ver, "details": det})
            impls.append(per)
        models = drive(reqs)
        out = []
        for k, (c, per) in enumerate(zip(cases, impls)):
            ms = models[6 * k:6 * k + 6]
            tags = [c["bad"], f"N{len(c['shape'])}"]
            v = Verdict("ok", "", per, ms, None, tags, False)
            names = ["symmetrize()", "symmetrize(version=1)"] + [f"issymmetric({a},{b})" for a, b in IsSymmetric.COMBOS]
            for i, (r, m, nm) in enumerate(zip(per, ms, names)):
                if i < 2 and c["bad"] in ("unequal", "overlap", "range", "repeat", "negative") and "ok" in r:
                    v = Verdict("violation", f"{nm} accepted malformed groups ({c['bad']}): {c['grps']}", per, ms, None, tags)
                    break
                if i >= 2 and c["bad"] in ("range", "repeat", "negative") and "ok" in r:
                    v = Verdict("violation", f"{nm} accepted groups that do not list distinct modes of the tensor "
                                f"({c['bad']}): {c['grps']}", per, ms, None, tags)
                    break
                if i >= 2 and c["bad"] == "unequal" and not ("ok" in r and r["ok"]["b"] is False):
                    v = Verdict("violation", f"{nm} did not answer False for groups of modes with different extents", per, ms, None, tags)
                    break
                if not deep_eq(strip_exc(r), m) and v.status == "ok":
                    v = Verdict("corr", f"{nm} on malformed groups differs from the model", per, ms, None, tags)
            out.append(v)
        return out


# ----------------------------------------------------------------------------------------------
def _kfull(weights, factors):
    """plain-NumPy array of a Kruskal tensor"""
    fs = [np.asarray(f, dtype=float) for f in factors]
    w = np.asarray(weights, dtype=float).reshape(-1)
    out = np.zeros(tuple(f.shape[0] for f in fs))
    for r in range(len(w)):
        t = np.array(w[r])
        for f in fs:
            t = np.multiply.outer(t, f[:, r])
        out = out + t
    return out


def _components_parallel(factors, weights=None):
    """every component is a multiple of a symmetric rank-one term (exact, integers): column j of every factor is
    a non-zero multiple of column j of the first factor, or the component vanishes (weight zero or a zero
    column in some factor)"""
    f0 = factors[0]
    R = len(f0[0]) if f0 else 0
    for j in range(R):
        cols = [[row[j] for row in f] for f in factors]
        if (weights is not None and weights[j] == 0) or any(not any(c) for c in cols):
            continue
        a = cols[0]
        for b in cols[1:]:
            if any(a[i] * b[k] != a[k] * b[i] for i in range(len(a)) for k in range(len(a))):
                return False
    return True


def _aligned_py(Kn):
    """the decidable hypothesis `kaligned` of C15_kruskal_keeps_value, recomputed here on exact rationals:
    order >= 1, all factors with the row count of the first and one entry per component in every row, column j
    of every factor = column j of the first factor or its negation"""
    fs = [[[frac(x) for x in row] for row in f] for f in Kn["factors"]]
    R = len(Kn["weights"])
    if not fs:
        return False
    f0 = fs[0]
    for f in fs:
        if len(f) != len(f0) or any(len(row) != R for row in f):
            return False
        for j in range(R):
            a, b = [row[j] for row in f0], [row[j] for row in f]
            if b != a and b != [-x for x in a]:
                return False
    return True


def _snap(Kn, rel=1e-9):
    """the implementation's normalised copy with every column of the modes >= 1 replaced by +- the first
    factor's column (sign of the dot product) when it is that column up to `rel` (relative to the column's
    largest entry) - what the copy of an already symmetric tensor is in exact arithmetic.  None when some
    column is further away."""
    fs = [[[frac(x) for x in row] for row in f] for f in Kn["factors"]]
    R = len(Kn["weights"])
    f0 = fs[0]
    out = [f0]
    for f in fs[1:]:
        g = [list(row) for row in f]
        for j in range(R):
            a, b = [row[j] for row in f0], [row[j] for row in f]
            dot = sum(x * y for x, y in zip(a, b))
            sg = -1 if dot < 0 else 1
            scale = max([abs(x) for x in a] + [abs(x) for x in b] + [Fraction(0)])
            if any(abs(y - sg * x) > Fraction(rel) * scale for x, y in zip(a, b)):
                return None
            for i in range(len(g)):
                g[i][j] = sg * a[i]
        out.append(g)
    return {"weights": Kn["weights"], "factors": jval(out)}


def jval_f(o):
    """a model reply with its (very long) exact rationals shortened to doubles, for reports only"""
    if isinstance(o, dict):
        return {k: jval_f(v) for k, v in o.items()}
    if isinstance(o, list):
        return [jval_f(v) for v in o]
    if isinstance(o, str) and "/" in o:
        return float(frac(o))
    return o


def _flat(Kj):
    return list(Kj["weights"]) + [x for f in Kj["factors"] for row in f for x in row]


def _step_close(impl_K, model_K, rel=1e-9):
    a, b = _flat(impl_K), _flat(model_K)
    return len(a) == len(b) and all(close(x, y, rel) for x, y in zip(a, b))


class Kruskal(Family):
    """ktensor.symmetrize: result symmetric in all modes and passes ktensor.issymmetric; an already symmetric
    tensor keeps its value and symmetrising again changes nothing (array clauses on the implementation, the
    decidable hypothesis `kaligned` and the model's result on the normalised copies); ktensor.issymmetric against
    its model; non-cubic tensors rejected."""
    name = "kruskal"
    theorems = ("C15_kruskal_sym", "C15_kruskal_passes_test", "C15_kruskal_issymmetric_iff", "C15_kruskal_rejects",
                "C15_kruskal_keeps_value", "C15_kruskal_keeps_value_input", "C15_kruskal_keeps_value_stored",
                "C15_kruskal_keeps_value_of_parallel", "C15_kruskal_fixes_sym", "C15_kruskal_idem",
                "C15_kruskal_sym_array")

    def gen(self, rng, tier):
        out = []
        n = 60 if tier == "quick" else 1200
        for _ in range(n):
            N = rng.choice([2, 3, 3, 4])
            m = rng.randint(1, 3)
            R = rng.randint(1, 3)
            kind = rng.choice(["random", "random", "equal", "negated", "parallel", "parallel", "noncubic"])
            if kind in ("equal", "negated", "parallel"):
                # the already-symmetric kinds: every order 1..5 of either parity, rank up to 4
                N = rng.choice([1, 2, 3, 3, 4, 4, 5])
                R = rng.randint(1, 4)
                if N == 5:
                    m = rng.randint(1, 2)
            w = gen.int_values(rng, R, -3, 3, nonzero=rng.random() < 0.8)
            if kind == "noncubic":
                sizes = [m] * N
                sizes[rng.randrange(N)] = m + 1
                fac = [gen.matrix(rng, s, R) for s in sizes]
            elif kind == "equal":
                A = gen.matrix(rng, m, R)
                fac = [[list(r) for r in A] for _ in range(N)]
            elif kind == "negated":
                A = gen.matrix(rng, m, R)
                fac = [[[x * (-1 if (k % 2) else 1) for x in r] for r in A] for k in range(N)]
            elif kind == "parallel":
                # every component is a symmetric rank-one term up to scaling: column j of every factor is a non-zero
                # multiple of one vector (signs and sizes differ per mode) - an already symmetric Kruskal tensor
                A = gen.matrix(rng, m, R)
                fac = []
                for k in range(N):
                    cs = [rng.choice([-3, -2, -1, 1, 2, 3]) for _ in range(R)]
                    fac.append([[x * cs[j] for j, x in enumerate(r)] for r in A])
            else:
                fac = [gen.matrix(rng, m, R) for _ in range(N)]
            if kind in ("equal", "negated", "parallel"):
                # zero weights, zero columns in every factor, a zero column in one factor only (a vanishing
                # component: the tensor stays symmetric)
                if rng.random() < 0.3:
                    w = list(w)
                    w[rng.randrange(R)] = 0
                if rng.random() < 0.3:
                    j = rng.randrange(R)
                    fac = [[[0 if jj == j else x for jj, x in enumerate(r)] for r in f] for f in fac]
                if rng.random() < 0.15:
                    j, k = rng.randrange(R), rng.randrange(N)
                    fac = [[[0 if (jj == j and kk == k) else x for jj, x in enumerate(r)] for r in f]
                           for kk, f in enumerate(fac)]
            out.append({"weights": w, "factors": fac, "kind": kind})
        # enumerated (added after seed C15u): symmetric Kruskal tensors of order 2..5 whose sign pattern makes an even /
        # odd number of factors point against the first one, with weights of either sign
        for N in (2, 3, 4, 5):
            for neg in ([], [1], [1, 2], [N - 1], list(range(1, N))):
                if any(k >= N for k in neg):
                    continue
                for wsign in ((1, 1), (-1, 1), (-1, -1)):
                    A = [[1, 2], [-2, 1], [3, 1]] if N <= 4 else [[1, 2], [-2, 1]]
                    fac = [[[x * (-1 if k in neg else 1) for x in r] for r in A] for k in range(N)]
                    out.append({"weights": [2 * wsign[0], 3 * wsign[1]], "factors": fac, "kind": "parallel"})
        # symmetric ARRAY whose components are not symmetric one by one (sum over all mode orders of a1 x a2 x .. x aN):
        # ktensor.symmetrize averages the factor matrices, not the array, so these do not keep their value by design -
        # every other clause applies; whether the value changed is recorded as a tag
        for _ in range(3 if tier == "quick" else 40):
            N = rng.choice([2, 2, 3])
            m = rng.randint(2, 3)
            vecs = [gen.int_values(rng, m, -3, 3) for _ in range(N)]
            perms = list(itertools.permutations(range(N)))
            fac = [[[vecs[p[k]][i] for p in perms] for i in range(m)] for k in range(N)]
            out.append({"weights": [rng.choice([-2, 1, 3])] * len(perms), "factors": fac, "kind": "arraysym"})
        # enumerated: rank 4 with a zero weight and a zero column, per-mode scales of either sign (powers of two are
        # exact in floating point, 3 is not), orders 1..5
        for N in (1, 2, 3, 4, 5):
            A = [[1, 2, 0, -1], [-2, 1, 0, 3]]
            for scales in ([1, -1, 2, -2, 1], [3, -1, -3, 2, -1], [-1, -1, -1, -1, -1]):
                for w in ([2, -3, 5, 0], [-1, -1, -1, -1], [1, 0, 1, -2]):
                    fac = [[[x * scales[k] for x in r] for r in A] for k in range(N)]
                    out.append({"weights": list(w), "factors": fac, "kind": "parallel"})
        return out

    def evaluate(self, cases):
        reqs, impls, snaps = [], [], {}
        for c in cases:
            K = gen.mk_ktensor(ttb, c["weights"], c["factors"])

            def run(K=K, c=c):
                R = K.symmetrize()
                Kn = K.copy().normalize("all")
                b, d = R.issymmetric(return_diffs=True)
                # the property's own clauses on the arrays (plain NumPy, independent of the model)
                FK, FR = _kfull(c["weights"], c["factors"]), _kfull(R.weights, R.factor_matrices)
                R2 = R.symmetrize()
                Kn2 = R.copy().normalize("all")
                FR2 = _kfull(R2.weights, R2.factor_matrices)
                FKn = _kfull(Kn.weights, Kn.factor_matrices)
                # scale of the rounding errors: the largest entry of sum_r |w_r| |a_r| x .. x |a_r| (the components may
                # cancel in the array itself, e.g. 2 a^3 - a^3 - 3 (-a)^3 ... = 0 for one-row factors)
                mag = max(1e-300, float(np.max(_kfull(np.abs(c["weights"]), [np.abs(f) for f in c["factors"]]))),
                          float(np.max(_kfull(np.abs(R.weights), [np.abs(f) for f in R.factor_matrices]))))
                return {"R": ktensor_j(R), "Kn": ktensor_j(Kn), "b": bool(b), "b_plain": bool(R.issymmetric()),
                        "R2": ktensor_j(R2), "Kn2": ktensor_j(Kn2),
                        "err_keep": float(np.max(np.abs(FR - FK))) / mag,
                        "err_keep_n": float(np.max(np.abs(FR - FKn))) / mag,
                        "err_idem": float(np.max(np.abs(FR2 - FR))) / mag,
                        "array_sym": float(max(np.max(np.abs(FR - np.transpose(FR, p)))
                                               for p in itertools.permutations(range(FR.ndim)))) / mag,
                        "diffs": jval(np.asarray(d)),
                        "same_factors": all(np.array_equal(R.factor_matrices[0], f) for f in R.factor_matrices)}
            r = call(run)

            def test(K=K):
                b, d = K.issymmetric(return_diffs=True)
                return {"b": bool(b), "diffs": np.asarray(d).tolist(), "plain": bool(K.issymmetric())}
            t = call(test)
            impls.append((r, t))
            Kj = {"weights": c["weights"], "factors": c["factors"]}
            reqs.append({"op": "sym_ksymmetrize_check", "K": Kj})
            reqs.append({"op": "sym_kissymmetric", "K": Kj})
            reqs.append({"op": "sym_ksymmetrize_full", "K": Kj})
            if "ok" in r:
                # the model's step, the hypothesis `kaligned` and the exact array comparison: on the implementation's
                # normalised copy, on the normalised copy of the result (second symmetrisation), and - for the already
                # symmetric kinds - on the snapped copy
                snap = None
                if c["kind"] in ("equal", "negated", "parallel") and _components_parallel(c["factors"], c["weights"]):
                    snap = _snap(r["ok"]["Kn"])
                snaps[id(c)] = snap
                reqs.append({"op": "sym_ksymmetrize_aligned", "Kn": r["ok"]["Kn"]})
                reqs.append({"op": "sym_kfull_symmetric", "K": r["ok"]["R"]})
                reqs.append({"op": "sym_kissymmetric", "K": r["ok"]["R"]})
                reqs.append({"op": "sym_ksymmetrize_aligned", "Kn": r["ok"]["Kn2"]})
                if snap is not None:
                    reqs.append({"op": "sym_ksymmetrize_aligned", "Kn": snap})
        models = drive(reqs)
        out, pos = [], 0
        for c, (r, t) in zip(cases, impls):
            chk, mt, full = models[pos], models[pos + 1], models[pos + 2]
            pos += 3
            N = len(c["factors"])
            tags = [c["kind"], f"N{N}", f"R{len(c['weights'])}"]
            v = Verdict("ok", "", {"sym": r, "test": t}, {"check": chk, "test": mt}, None, tags, "ok" in r)
            # ktensor.issymmetric on the input against its model
            if "ok" not in t:
                v = Verdict("violation", "ktensor.issymmetric raised", v.impl, v.model, None, tags)
            else:
                ti = t["ok"]
                want_b = all(fa == c["factors"][0] for fa in c["factors"])
                okd = ti["b"] == mt["b"] == ti["plain"] == want_b
                for i in range(N):
                    for j in range(N):
                        d = ti["diffs"][i][j]
                        if j <= i:
                            okd = okd and d == 0
                            continue
                        md = mt["upper"][i][j - i - 1]
                        if md == "zero":
                            okd = okd and d == 0
                        elif md == "inf":
                            okd = okd and math.isinf(d) and d > 0
                        else:
                            okd = okd and close(d, math.sqrt(float(frac(md["sq"]))), 1e-9) and d > 0
                if not okd:
                    v = Verdict("violation", "ktensor.issymmetric differs from 'all factor matrices equal' / the model's differences", v.impl, v.model, None, tags)
            if "ok" in r:
                stepm, fullsym, rtest, step2 = models[pos], models[pos + 1], models[pos + 2], models[pos + 3]
                pos += 4
                snap, steps = snaps.get(id(c)), None
                if snap is not None:
                    steps = models[pos]
                    pos += 1
                core = stepm["R"]
                ro = r["ok"]
                symkind = c["kind"] in ("equal", "negated", "parallel") and _components_parallel(c["factors"], c["weights"])
                # internal consistency of the model side (never the implementation's fault): the Lean predicate is the
                # predicate recomputed here, and where it holds the model's result denotes the copy's array exactly
                # (the conclusion of C15_kruskal_keeps_value, evaluated by the driver)
                for nm, Kj, st in (("Kn", ro["Kn"], stepm), ("Kn2", ro["Kn2"], step2), ("snap", snap, steps)):
                    if st is None:
                        continue
                    if st["aligned"] != _aligned_py(Kj):
                        raise DriverError(f"C15 kruskal: kaligned({nm}) of the model is {st['aligned']}, the harness "
                                          f"computes {_aligned_py(Kj)}: {Kj}")
                    if st["aligned"] and not st["same_array"]:
                        raise DriverError(f"C15 kruskal: the model's result on the aligned copy {nm} denotes another "
                                          f"array: {Kj}")
                if steps is not None and not steps["aligned"]:
                    raise DriverError(f"C15 kruskal: the snapped copy is not aligned: {snap}")
                tags.append("aligned" if stepm["aligned"] else "not-aligned")
                if symkind:
                    tags.append("snapped" if snap is not None else "snap-failed")
                if c["kind"] == "arraysym":
                    tags.append("arraysym-value-changed" if ro["err_keep"] > 1e-9 else "arraysym-value-kept")
                v.tags = tuple(tags)
                if "reject" in chk:
                    v = Verdict("violation", "ktensor.symmetrize accepted a tensor that is not cubic", v.impl, v.model, None, tags)
                elif not ro["same_factors"] or not fullsym:
                    v = Verdict("violation", "the result of ktensor.symmetrize is not symmetric in all modes", v.impl, v.model, None, tags)
                elif not (ro["b"] and ro["b_plain"] and rtest["b"]) or any(x != 0 for row in ro["diffs"] for x in row):
                    v = Verdict("violation", "the result of ktensor.symmetrize fails ktensor.issymmetric", v.impl, v.model, None, tags)
                elif ro["array_sym"] > 1e-9:
                    v = Verdict("violation", "the array of the result of ktensor.symmetrize is not invariant under every "
                                f"permutation of the modes (relative deviation {ro['array_sym']:.2e})", v.impl, v.model, None, tags)
                elif ro["err_idem"] > 1e-9:
                    v = Verdict("violation", "symmetrising the result of ktensor.symmetrize again changes the array "
                                f"(relative deviation {ro['err_idem']:.2e})", v.impl, v.model, None, tags)
                elif symkind and ro["err_keep"] > 1e-9:
                    v = Verdict("violation", "an already symmetric Kruskal tensor (every component a multiple of a symmetric "
                                f"rank-one term) does not keep its value (relative deviation {ro['err_keep']:.2e})",
                                v.impl, v.model, None, tags)
                elif stepm["aligned"] and ro["err_keep_n"] > 1e-9:
                    v = Verdict("violation", "the normalised copy is symmetric component by component (kaligned) but the result "
                                f"of ktensor.symmetrize denotes another array (relative deviation {ro['err_keep_n']:.2e})",
                                v.impl, dict(v.model, step=stepm), None, tags)
                elif not step2["aligned"]:
                    v = Verdict("corr", "the normalised copy of the result of ktensor.symmetrize is not symmetric component by "
                                "component", v.impl, dict(v.model, step2=step2), None, tags)
                elif not _step_close(ro["R2"], step2["R"]):
                    v = Verdict("corr", "the second ktensor.symmetrize differs from the model step on the normalised copy of "
                                "the first result", v.impl, dict(v.model, step2=step2), None, tags)
                elif symkind and snap is None:
                    v = Verdict("corr", "the implementation's normalised copy of an already symmetric Kruskal tensor is not "
                                "symmetric component by component within 1e-9", v.impl, v.model, None, tags)
                elif steps is not None and not _step_close(ro["R"], steps["R"]):
                    v = Verdict("corr", "ktensor.symmetrize on an already symmetric Kruskal tensor differs from the model step "
                                "on the (snapped) aligned normalised copy", v.impl, dict(v.model, snap=steps), None, tags)
                elif v.status == "ok":
                    # one-step trace validation of the model from the implementation's normalised copy
                    Kn = ro["Kn"]
                    f0 = Kn["factors"][0]
                    near = False
                    for fi in Kn["factors"][1:]:
                        for j in range(len(Kn["weights"])):
                            dot = sum(frac(a[j]) * frac(b[j]) for a, b in zip(f0, fi))
                            zero_col = all(frac(a[j]) == 0 for a in f0) or all(frac(b[j]) == 0 for b in fi)
                            # a dot product that is zero up to rounding: its sign in floating point is noise
                            if abs(dot) < Fraction(1, 10 ** 9) and not zero_col:
                                near = True
                    if near:
                        v.tags = tuple(tags + ["near-orthogonal-skipped"])
                    else:
                        flat_i = ro["R"]["weights"] + [x for f in ro["R"]["factors"] for row in f for x in row]
                        flat_m = core["weights"] + [x for f in core["factors"] for row in f for x in row]
                        if len(flat_i) != len(flat_m) or not all(close(a, b, 1e-9) for a, b in zip(flat_i, flat_m)):
                            v = Verdict("corr", "ktensor.symmetrize differs from the model step", v.impl, dict(v.model, core=core), None, tags)
                        # the whole model from the un-normalised input (normalize("all") of Ops/KruskalReparam with
                        # rational square / N-th roots accurate to 2^-80)
                        elif "ok" not in full:
                            v = Verdict("corr", "the model of ktensor.symmetrize with its own normalisation refuses the input",
                                        v.impl, dict(v.model, full=full), None, tags)
                        elif not _step_close(ro["Kn"], full["ok"]["Kn"]):
                            v = Verdict("corr", "copy().normalize('all') differs from the model's normalised copy",
                                        v.impl, dict(v.model, full=jval_f(full["ok"])), None, tags)
                        elif not _step_close(ro["R"], full["ok"]["R"]):
                            v = Verdict("corr", "ktensor.symmetrize differs from the model run from the un-normalised input",
                                        v.impl, dict(v.model, full=jval_f(full["ok"])), None, tags)
                        elif full["ok"]["aligned"]:
                            v.tags = tuple(tags + ["model-copy-aligned"])
            else:
                if "ok" in chk:
                    v = Verdict("violation", f"ktensor.symmetrize raised on a cubic tensor: {r.get('exc')} {r.get('msg')}", v.impl, v.model, None, tags)
            out.append(v)
        return out


def families():
    return [Symmetrize(), IsSymmetric(), Malformed(), Kruskal()]
