"""C10 — HOSVD and Tucker-ALS: translator cross-check, exact correspondence of the dense
operations the two algorithms are made of, trace validation of whole runs with the recorded
`eigh` / `nvecs` / `uniform` calls, and the property itself evaluated on the implementation
with an independent NumPy reference."""
from __future__ import annotations

import contextlib
import importlib
import io
import itertools
import math
import struct

import numpy as np
import pyttb as ttb

from harness import gen
from harness.lib import Family, Verdict, call, deep_eq, drive, jval

RULE = ("cases are drawn from random.Random(VERIF_SEED).  hosvd: dense data of order 1..3 (4 in thorough) with "
        "extents 1..6 — (a) data with PRESCRIBED spectra X = G x_n Q_n (core with one entry per position class so "
        "that every unfolding has orthogonal rows, random orthonormal Q_n) and a tolerance placed so that the "
        "discarded eigenvalue tail of the first processed mode sits just below / just above the threshold "
        "(relative distance 1e-7, 1e-4, 1e-2; never closer than 1e-10), (b) random data with tolerances in (0,1), "
        "(c) explicit rank vectors incl. rank 1, rank = extent and 0 (automatic) entries; both truncation strategies; "
        "every mode order for N <= 3; rank / order arguments as list, tuple, ndarray.  tucker_als: order 2..3 "
        "(4 in thorough; order 1 only in the reject stream: `ttm` of a list with no mode left raises), rank as int / "
        "1-list / list / tuple / ndarray, the three initialisations (random under seeds, 'nvecs' / 'NVECS' / 'eigs', "
        "given list), every mode order, iteration limits 1..6, stop tolerances 1e-2, 1e-4, 0, -1.  A "
        "stream of integer-valued data handed over as float64 / int64 / int32 / int16 / uint8 (magnitudes whose squares "
        "overflow the integer types): same ranks, same Tucker tensor, same error bound as for float64.  A separate "
        "malformed stream (ranks above the extent of their mode, negative ranks, rank 0 for tucker_als — all of which "
        "must be rejected —, wrong-length ranks, non-permutation orders, maxiters 0 / -1, unknown init, wrong init "
        "shapes, short rank vectors, 1-way data for tucker_als).  A case is non-trivial when the implementation "
        "accepted it and the data is not constant; distinct = distinct case hash")
ASSUMPTIONS = [
    "scipy.linalg.eigh returns orthonormal eigenpairs of the symmetric matrix it is given (Tk.EighContract; checked on every recorded call: symmetry, |V'V - I| <= 1e-10, |ZV - VD| <= 1e-9 |Z|; satisfiable: C10_contracts_satisfiable)",
    "tensor.nvecs returns r orthonormal columns spanning a dominant eigenspace of the Gram matrix of the unfolding (Tk.NvecsContract / Tk.NvecsLeading; checked on every recorded call against numpy eigvalsh: captured energy >= top-r energy - 1e-8 trace)",
    "Ky Fan's maximum principle is PROVED (C10_ky_fan, bridged from C14's ky_fan_list in Lemmas/TuckerKyFan.lean), so C10_tucker_fit_monotone is unconditional given the nvecs service contracts (orthonormal columns; eigenvectors for the r largest eigenvalues of the Gram matrix it is given)",
    "the theorems speak about successful runs of the model; C10_hosvd_accepts / C10_tucker_accepts show that valid requests are accepted (hosvd: all-automatic with tol^2 < 1 on non-zero data, or all ranks given; tucker_als: order >= 2)",
    "tensor.ttm and to_tenmat enter the model by their entry-wise meaning (tied to the real methods by the exact integer family `dense_ops`; the code-level equivalence is C02 / C01)",
    "IEEE rounding is not modelled: whole runs are replayed by the model at Float with the recorded service outputs and compared at relative 1e-9; the reported fit is compared through its square (1 - fit)^2, because sqrt(|a - b|) amplifies rounding when the fit is (nearly) exact",
    "np.argsort ties: the model sorts stably; cases whose eigenvalue list has exact ties skip the comparison of the sorting permutation",
    "runs of tucker_als with different iteration limits are compared with each other only when the longer run reproduces the shorter one (a requested rank above the rank of the projected unfolding leaves columns of a factor arbitrary and ARPACK's start vector is not reproducible); monotonicity of the fit along each single run is always checked from the recorded factors",
    "hosvd with mixed ranks (some given, some 0) may raise when a user truncation leaves no eigenvalue sum above the threshold; such a rejection is accepted when the model rejects at the same place (outside the property's quantifier)",
]
EXHAUSTIVE = {"quick": False, "thorough": False}


# ----------------------------------------------------------------------------
# helpers
# ----------------------------------------------------------------------------
def bits(x):
    return str(struct.unpack("<Q", struct.pack("<d", float(x)))[0])


def unbits(s):
    return struct.unpack("<d", struct.pack("<Q", int(s)))[0]


def fmat(a):
    a = np.asarray(a, dtype=float)
    if a.ndim != 2:
        return []
    return [[bits(v) for v in row] for row in a.tolist()]


def fvec(a):
    return [bits(v) for v in np.asarray(a, dtype=float).reshape(-1).tolist()]


def fdense(a):
    a = np.asarray(a, dtype=float)
    return {"shape": [int(s) for s in a.shape], "data": fvec(a.flatten(order="F"))}


def unmat(j):
    if not j:
        return np.zeros((0, 0))
    return np.array([[unbits(v) for v in row] for row in j], dtype=float)


def undense(j):
    d = np.array([unbits(v) for v in j["data"]], dtype=float)
    return d.reshape(j["shape"], order="F")


def near(a, b, rel=1e-9, scale=None):
    a, b = np.asarray(a, dtype=float), np.asarray(b, dtype=float)
    if a.shape != b.shape:
        return False
    if a.size == 0:
        return True
    s = scale if scale is not None else max(1.0, float(np.abs(a).max()), float(np.abs(b).max()))
    return bool(np.all(np.abs(a - b) <= rel * s + 1e-300))


def ref_ttm(A, U, n, transpose):
    """independent reference of the mode-n product (tensordot, no pyttb)"""
    W = U.T if transpose else U
    return np.moveaxis(np.tensordot(W, A, axes=(1, n)), 0, n)


def ref_core(A, Us):
    for n, U in enumerate(Us):
        A = ref_ttm(A, U, n, True)
    return A


def ref_full(G, Us):
    for n, U in enumerate(Us):
        G = ref_ttm(G, U, n, False)
    return G


def ref_gram(A, n):
    M = np.moveaxis(A, n, 0).reshape(A.shape[n], -1)
    return M @ M.T


def to_array(shape, data):
    return np.array(data, dtype=float).reshape(shape, order="F")


def mk_tensor(A):
    return ttb.tensor(np.array(A, dtype=float, order="F"), shape=tuple(A.shape))


def conv_vec(v, how):
    """an index / rank vector in the calling convention `how`"""
    if v is None:
        return None
    if how == "tuple":
        return tuple(v)
    if how == "ndarray":
        return np.array(v, dtype=int)
    if how == "ndarray2d":
        return np.array([v], dtype=int)
    if how == "int":
        return int(v[0])
    return list(v)


def orth(rng, m, p):
    """m x p matrix with orthonormal columns from the case rng"""
    A = np.array([[rng.gauss(0, 1) for _ in range(p)] for _ in range(m)])
    Q, R = np.linalg.qr(A)
    return Q * np.sign(np.where(np.diag(R) == 0, 1, np.diag(R)))


def flist(a):
    return [float(v) for v in np.asarray(a, dtype=float).flatten(order="F").tolist()]


class _Attr:
    """attribute proxy: everything comes from `base` except the overrides"""

    def __init__(self, base, **over):
        object.__setattr__(self, "_base", base)
        object.__setattr__(self, "_over", over)

    def __getattr__(self, name):
        over = object.__getattribute__(self, "_over")
        if name in over:
            return over[name]
        return getattr(object.__getattribute__(self, "_base"), name)


def run_hosvd(A, tol, dimorder, sequential, ranks, dtype=None):
    """hosvd with `scipy.linalg.eigh` recorded in the namespace of pyttb.hosvd; `dtype`: the element type the
    (integer-valued) data is handed over in"""
    H = importlib.import_module("pyttb.hosvd")
    rec = []
    orig = H.scipy

    def eigh(Z, *a, **k):
        D, V = orig.linalg.eigh(Z, *a, **k)
        rec.append((np.array(Z, copy=True), np.array(D, copy=True), np.array(V, copy=True)))
        return D, V

    H.scipy = _Attr(orig, linalg=_Attr(orig.linalg, eigh=eigh))
    try:
        X = mk_tensor(A) if dtype is None else ttb.tensor(np.array(A, dtype=dtype, order="F"), shape=tuple(A.shape))
        dt_before = X.data.dtype
        T = H.hosvd(X, tol, verbosity=0, dimorder=dimorder, sequential=sequential, ranks=ranks)
        return {"core": np.array(T.core.data, copy=True), "factors": [np.array(f, copy=True) for f in T.factor_matrices],
                "X_after": np.array(X.data, copy=True), "dtype_kept": X.data.dtype == dt_before}, rec
    finally:
        H.scipy = orig


def run_tucker(A, rank, stoptol, maxiters, dimorder, init, seed):
    """tucker_als with tensor.nvecs and np.random.uniform (as seen from pyttb.tucker_als) recorded"""
    TA = importlib.import_module("pyttb.tucker_als")
    nv, un = [], []
    orig_np = TA.np
    orig_nvecs = ttb.tensor.nvecs

    def nvecs(self, n, r, *a, **k):
        out = orig_nvecs(self, n, r, *a, **k)
        nv.append((np.array(self.data, copy=True), int(n), int(r), np.array(out, copy=True)))
        return out

    def uniform(*a, **k):
        out = orig_np.random.uniform(*a, **k)
        un.append(np.array(out, copy=True))
        return out

    state = np.random.get_state()
    # every spelling of a unit variate of the global stream is the same draw to the property (lib.unit_spellings)
    unit = lambda size=None: uniform(0.0, 1.0, size)  # noqa: E731
    TA.np = _Attr(orig_np, random=_Attr(orig_np.random, uniform=uniform, random_sample=unit, random=unit, ranf=unit, sample=unit,
                                        rand=(lambda *dims: uniform(0.0, 1.0, (dims if dims else None)))))
    ttb.tensor.nvecs = nvecs
    try:
        if seed is not None:
            np.random.seed(seed)
        X = mk_tensor(A)
        with contextlib.redirect_stdout(io.StringIO()):  # the "nvecs" initialisation prints unconditionally
            M, Uinit, out = TA.tucker_als(X, rank, stoptol=stoptol, maxiters=maxiters, dimorder=dimorder, init=init,
                                          printitn=0)
        res = {"core": np.array(M.core.data, copy=True), "factors": [np.array(f, copy=True) for f in M.factor_matrices],
               "uinit": [None if u is None else np.array(u, copy=True) for u in Uinit], "uinit_obj": Uinit,
               "iters": int(out["iters"]), "fit": float(out["fit"]), "normresidual": float(out["normresidual"]),
               "X_after": np.array(X.data, copy=True)}
        return res, nv, un
    except Exception:
        run_tucker.last = (nv, un)
        raise
    finally:
        ttb.tensor.nvecs = orig_nvecs
        TA.np = orig_np
        np.random.set_state(state)


run_tucker.last = ([], [])


def V(status, what, impl=None, model=None, spec=None, tags=(), nontrivial=True):
    return Verdict(status, what, impl, model, spec, tags, nontrivial)


# ----------------------------------------------------------------------------
# 1. translator cross-check
# ----------------------------------------------------------------------------
class Formulas(Family):
    """The regenerated Lean formulas, evaluated by the driver at Float, against the anchored
    Python source expressions evaluated by Python on the same points."""

    name = "formulas"
    theorems = ("C10_hosvd_rank_auto", "C10_hosvd_rank_given", "C10_tucker_fit")

    def gen(self, rng, tier):
        out = []
        for _ in range(40 if tier == "quick" else 400):
            normX = rng.uniform(0.1, 50)
            es = sorted([rng.uniform(0, 10) for _ in range(rng.randint(1, 6))], reverse=True)
            es = list(np.cumsum(es[::-1])[::-1])
            out.append({"tol": rng.uniform(1e-3, 0.999), "normxsqr": rng.uniform(0.01, 500), "d": rng.randint(1, 5),
                        "normX": normX, "normCore": normX * rng.choice([rng.uniform(0, 1), 1.0, rng.uniform(1, 1.01)]),
                        "fitold": rng.uniform(0, 1), "stoptol": rng.choice([1e-4, 0.0, -1.0, rng.uniform(0, 1)]),
                        "eigsum": [float(e) for e in es]})
        return out

    def evaluate(self, cases):
        from harness.translate import gen_tucker
        try:
            h, t, read_lost = gen_tucker.sources()
        except Exception as e:  # noqa: BLE001
            h, t, read_lost = {}, {}, [f"{type(e).__name__}: {e}"]
        # what the translator read: Python expressions over the parameter names of the generated definitions.  A
        # definition whose anchor was lost has nothing to be cross-checked against (the pinned definition is in use; the
        # lost anchor is reported by the proof side: tie by correspondence only, thorough size); the others still are.
        have = {k: h[k]["python"] for k in ("eigsumthresh", "rank_cut", "slice_bound", "auto_marker") if k in h}
        have.update({k: t[k]["python"] for k in ("normresidual", "fit", "fitchange", "stop", "iters") if k in t})
        if not have:
            return [V("ok", f"translator lost anchors: {read_lost}", None, None, None, ["anchor-lost"], False) for _ in cases]
        reqs = [{"op": "c10_formulas", "scalar": "float", "tol": bits(c["tol"]), "normxsqr": bits(c["normxsqr"]),
                 "d": c["d"], "normX": bits(c["normX"]), "normCore": bits(c["normCore"]), "fitold": bits(c["fitold"]),
                 "stoptol": bits(c["stoptol"]), "eigsum": [bits(e) for e in c["eigsum"]]} for c in cases]
        models = drive(reqs)
        out = []
        for c, m in zip(cases, models):
            env = {"np": np, "abs": abs, "tol": c["tol"], "normxsqr": np.float64(c["normxsqr"]), "d": c["d"],
                   "normX": np.float64(c["normX"]), "normCore": np.float64(c["normCore"]), "fitold": c["fitold"],
                   "stoptol": c["stoptol"], "eigsum": np.array(c["eigsum"])}
            py = {}
            try:
                # inputs of a definition that was not read come from the model's (pinned) definition
                env["eigsumthresh"] = float(eval(have["eigsumthresh"], dict(env))) if "eigsumthresh" in have \
                    else unbits(m["eigsumthresh"])
                if "eigsumthresh" in have:
                    py["eigsumthresh"] = env["eigsumthresh"]
                env["normresidual"] = eval(have["normresidual"], dict(env)) if "normresidual" in have \
                    else np.float64(unbits(m["normresidual"]))
                if "normresidual" in have:
                    py["normresidual"] = float(env["normresidual"])
                env["fit"] = eval(have["fit"], dict(env)) if "fit" in have else np.float64(unbits(m["fit"]))
                if "fit" in have:
                    py["fit"] = float(env["fit"])
                env["fitchange"] = eval(have["fitchange"], dict(env)) if "fitchange" in have \
                    else np.float64(unbits(m["fitchange"]))
                if "fitchange" in have:
                    py["fitchange"] = float(env["fitchange"])
                if "stop" in have:
                    py["stop"] = bool(eval(have["stop"], dict(env)))
                if "rank_cut" in have:
                    try:
                        py["rank_cut"] = int(eval(have["rank_cut"], dict(env)))
                    except IndexError:
                        py["rank_cut"] = None
                if "slice_bound" in have:
                    sl = eval(have["slice_bound"], {"V": np.arange(20).reshape(1, 20), "pi": np.arange(20), "ranks": [5], "k": 0})
                    py["slice_bound_5"] = int(sl.shape[1])
                if "iters" in have:
                    py["iters_7"] = int(eval(have["iters"], {"iteration": 7}))
                if "auto_marker" in have:
                    mk = m["auto_marker"]
                    py["auto_marker"] = mk if (eval(have["auto_marker"], {"ranks": [mk], "k": 0})
                                               and not eval(have["auto_marker"], {"ranks": [mk + 1], "k": 0})) else None
            except Exception as e:  # noqa: BLE001
                out.append(V("corr", f"anchored Python expression could not be evaluated: {type(e).__name__}: {e}", None, m))
                continue
            bad = []
            for k in ("eigsumthresh", "normresidual", "fit", "fitchange"):
                if k not in py:
                    continue
                a, b = py[k], unbits(m[k])
                # not bit-exact: numpy's `**` goes through pow(), and 1 - x cancels; a misread formula is O(1) off
                if not (a == b or abs(a - b) <= 1e-13 * max(1.0, abs(a), abs(b))):
                    bad.append(k)
            for k in ("stop", "rank_cut", "slice_bound_5", "iters_7", "auto_marker"):
                if k in py and py[k] != m[k]:
                    bad.append(k)
            tags = ["stop" if py.get("stop", m["stop"]) else "continue",
                    "cut-none" if py.get("rank_cut", m["rank_cut"]) is None else "cut"]
            if read_lost:
                tags.append("anchor-lost")
            if bad:
                out.append(V("corr", f"generated Lean formula differs from the Python source expression: {bad}", py, m, None, tags))
            else:
                out.append(V("ok", "", py, None, None, tags))
        return out


# ----------------------------------------------------------------------------
# 2. exact correspondence of the dense operations (small integers, model at Rat)
# ----------------------------------------------------------------------------
def int_mat(rng, m, p):
    return [[rng.randint(-3, 3) for _ in range(p)] for _ in range(m)]


class DenseOps(Family):
    """gram of an unfolding, ttm (one matrix / list / exclude), core + reconstruction + error:
    exact comparison of pyttb with the model executed at Rat on small-integer data."""

    name = "dense_ops"
    theorems = ("C10_hosvd_core", "C10_tucker_core", "C10_tucker_fit")

    def gen(self, rng, tier):
        out = []
        n = 70 if tier == "quick" else 700
        nmax = 3 if tier == "quick" else 4
        for _ in range(n):
            N = rng.randint(1, nmax)
            s = [rng.randint(1, 4) for _ in range(N)]
            if N > 1 and rng.random() < 0.6:
                s = rng.sample(range(1, 5), N) if N <= 4 else s
            data = gen.int_values(rng, gen.numel(s), -4, 4)
            kind = rng.choice(["gram", "ttm", "ttm", "list_all", "list_excl", "list_one", "core"])
            c = {"k": kind, "shape": s, "data": data}
            if kind == "gram":
                c["mode"] = rng.randrange(N)
            elif kind == "ttm":
                nn = rng.randrange(N)
                tr = rng.random() < 0.5
                p = rng.randint(1, 3)
                inner = s[nn]
                bad = rng.random() < 0.15
                if bad:
                    inner = inner + 1
                c.update({"mode": nn if rng.random() > 0.07 else N, "transpose": tr,
                          "U": int_mat(rng, inner, p) if tr else int_mat(rng, p, inner)})
            else:
                tr = True if kind != "list_all" else rng.random() < 0.5
                Us = []
                for k in range(N):
                    p = rng.randint(1, 3)
                    Us.append(int_mat(rng, s[k], p) if tr else int_mat(rng, p, s[k]))
                if kind == "core":
                    tr = True
                    Us = [int_mat(rng, s[k], rng.randint(1, 3)) for k in range(N)]
                if rng.random() < 0.1 and kind != "core":
                    Us = Us[:-1] if rng.random() < 0.5 else Us + [int_mat(rng, 2, 2)]
                c.update({"Us": Us, "transpose": tr})
                if kind in ("list_excl", "list_one"):
                    c["mode"] = rng.randrange(N)
                    if kind == "list_excl" and rng.random() < 0.6:
                        c["Us"] = [None if k == c["mode"] else U for k, U in enumerate(c["Us"])]
            out.append(c)
        return out

    def evaluate(self, cases):
        reqs, impls = [], []
        for c in cases:
            A = to_array(c["shape"], c["data"])
            Tj = {"shape": c["shape"], "data": c["data"]}
            if c["k"] == "gram":
                def f():
                    Yk = mk_tensor(A).to_tenmat(np.array([c["mode"]])).double()
                    return jval(np.dot(Yk, Yk.transpose()))
                impls.append(call(f))
                reqs.append({"op": "c10_gram", "T": Tj, "k": c["mode"]})
            elif c["k"] == "ttm":
                def f():
                    Y = mk_tensor(A).ttm(np.array(c["U"], dtype=float), int(c["mode"]), transpose=c["transpose"])
                    return {"shape": [int(x) for x in Y.shape], "data": jval(Y.data.flatten(order="F"))}
                impls.append(call(f))
                reqs.append({"op": "c10_ttm", "T": Tj, "U": c["U"], "n": c["mode"], "transpose": c["transpose"]})
            elif c["k"] == "core":
                def f():
                    X = mk_tensor(A)
                    Us = [np.array(U, dtype=float) for U in c["Us"]]
                    G = X.ttm(Us, transpose=True)
                    F = ttb.ttensor(G, Us).full()
                    return {"core": {"shape": [int(x) for x in G.shape], "data": jval(G.data.flatten(order="F"))},
                            "full": {"shape": [int(x) for x in F.shape], "data": jval(F.data.flatten(order="F"))},
                            "errsq": jval(((X - F) ** 2).collapse()), "normxsq": jval((X ** 2).collapse()),
                            "normgsq": jval((G ** 2).collapse())}
                impls.append(call(f))
                reqs.append({"op": "c10_core", "X": Tj, "Us": c["Us"]})
            else:
                def f():
                    Us = [None if U is None else np.array(U, dtype=float) for U in c["Us"]]
                    X = mk_tensor(A)
                    if c["k"] == "list_all":
                        Y = X.ttm(Us, transpose=c["transpose"])
                    elif c["k"] == "list_excl":
                        Y = X.ttm(Us, exclude_dims=c["mode"], transpose=c["transpose"])
                    else:
                        Y = X.ttm(Us, c["mode"], transpose=c["transpose"])
                    return {"shape": [int(x) for x in Y.shape], "data": jval(Y.data.flatten(order="F"))}
                impls.append(call(f))
                reqs.append({"op": "c10_ttm_list", "T": Tj, "Us": [[] if U is None else U for U in c["Us"]],
                             "transpose": c["transpose"], "mode": {"list_all": "all", "list_excl": "excl", "list_one": "one"}[c["k"]],
                             "n": c.get("mode", 0)})
        models = drive(reqs)
        out = []
        for c, impl, m in zip(cases, impls, models):
            tags = [c["k"], f"N{len(c['shape'])}"]
            if c["k"] == "gram":
                m = {"ok": m}
            if impl.get("reject"):
                tags.append("reject")
                ok = isinstance(m, dict) and m.get("reject") is True
            else:
                ok = isinstance(m, dict) and "ok" in m and deep_eq(impl["ok"], m["ok"])
            # independent reference (the property's own words) for the accepted products
            spec_bad = None
            if not impl.get("reject"):
                A = to_array(c["shape"], c["data"])
                if c["k"] == "core":
                    Us = [np.array(U, dtype=float) for U in c["Us"]]
                    G = ref_core(A, Us)
                    F = ref_full(G, Us)
                    got = to_array(impl["ok"]["core"]["shape"], [float(x) for x in impl["ok"]["core"]["data"]])
                    if not (got.shape == G.shape and np.array_equal(got, G)):
                        spec_bad = "X.ttm(Us, transpose=True) is not X multiplied in every mode by the transposed matrix"
                    elif float(impl["ok"]["errsq"]) != float(((A - F) ** 2).sum()):
                        spec_bad = "|X - full|^2 differs from the reference"
            if spec_bad:
                out.append(V("violation", spec_bad, impl, m, None, tags))
            elif not ok:
                # ttm / to_tenmat themselves are C02 / C01 matter: a disagreement here is a broken tie
                out.append(V("corr", "dense operation: implementation differs from the model", impl, m, None, tags))
            else:
                out.append(V("ok", "", impl, None, None, tags, nontrivial=not impl.get("reject")))
        return out

    def shrink(self, case):
        return []


# ----------------------------------------------------------------------------
# 3. hosvd
# ----------------------------------------------------------------------------
def spectra_case(rng, N, smax):
    """X = G x_n Q_n with a core whose unfoldings have orthogonal rows (no two entry positions
    differ in exactly one coordinate): the mode-n eigenvalues are the sums of the squared
    entries per mode-n index.  Returns (shape, data, mode spectra)."""
    for _ in range(200):
        cshape = [rng.randint(2, smax) for _ in range(N)]
        m = rng.randint(2, min(cshape) + (1 if N > 1 else 0))
        pos = []
        tries = 0
        while len(pos) < m and tries < 200:
            tries += 1
            p = [rng.randrange(x) for x in cshape]
            if any(sum(1 for a, b in zip(p, q) if a != b) <= 1 for q in pos):
                continue
            pos.append(p)
        if len(pos) < 2:
            continue
        # well separated values
        vals = []
        v = rng.uniform(3, 9)
        for _ in pos:
            vals.append(v * rng.choice([1, -1]))
            v = v / rng.uniform(1.4, 3.0)
        G = np.zeros(cshape)
        for p, x in zip(pos, vals):
            G[tuple(p)] = x
        shape = [c + rng.randint(0, 2) for c in cshape]
        Qs = [orth(rng, shape[n], cshape[n]) for n in range(N)]
        X = ref_full(G, Qs)
        spectra = []
        for n in range(N):
            mu = [float((G.take(a, axis=n) ** 2).sum()) for a in range(cshape[n])]
            spectra.append(sorted(mu, reverse=True))
        return shape, X, spectra
    return None


def least_rank(eigs, thresh):
    """least r with sum(eigs[r:]) <= thresh, and how close the nearest tail is to the threshold"""
    n = len(eigs)
    tails = [float(sum(eigs[r:])) for r in range(n + 1)]
    r = next(r for r in range(n + 1) if tails[r] <= thresh)
    margin = min(abs(t - thresh) for t in tails) / max(thresh, 1e-300)
    return r, margin


class HosvdTrace(Family):
    """hosvd on the real code with eigh recorded; the model replays the run at Float with the
    recorded eigenpairs; the property is recomputed independently at 1e-8."""

    name = "hosvd_trace"
    theorems = ("C10_hosvd_orthonormal", "C10_hosvd_core", "C10_hosvd_rank_auto", "C10_hosvd_rank_given",
                "C10_hosvd_error_bound", "C10_hosvd_accepts", "C10_hosvd_rank_given_pinned_counterexample")
    malformed = False

    def gen(self, rng, tier):
        out = []
        nmax = 3 if tier == "quick" else 4
        n_pres = 36 if tier == "quick" else 300
        n_rand = 30 if tier == "quick" else 260
        convs = ["list", "tuple", "ndarray", "list", "ndarray2d"]

        def orders(N):
            return [None] + [list(p) for p in itertools.permutations(range(N))]

        # (a) prescribed spectra, cut-off pinned in the first processed mode
        count = 0
        while count < n_pres:
            N = rng.randint(2, min(nmax, 3))
            sc = spectra_case(rng, N, 4 if tier == "quick" else 5)
            if sc is None:
                continue
            shape, X, spectra = sc
            order = rng.choice(orders(N))
            k0 = 0 if order is None else order[0]
            lam = spectra[k0]
            total = float((X ** 2).sum())
            rstar = rng.randint(1, len(lam) - 1) if len(lam) > 1 else 1
            tail = sum(lam[rstar:])
            if tail <= 0:
                continue
            side = rng.choice(["below", "above"])
            delta = rng.choice([1e-7, 1e-4, 1e-2])
            # thresh = tol^2 total / N ;  below: tail = thresh (1 - delta)  -> rank rstar
            thresh = tail / (1 - delta) if side == "below" else tail / (1 + delta)
            tol2 = thresh * N / total
            if not (1e-6 < tol2 < 0.98):
                continue
            expect = rstar if side == "below" else rstar + 1
            # the next larger tail must stay above the threshold
            if sum(lam[rstar - 1:]) <= thresh * (1 + 1e-3):
                continue
            out.append({"kind": "prescribed", "shape": shape, "data": flist(X), "tol": math.sqrt(tol2),
                        "sequential": rng.random() < 0.5, "dimorder": order, "dimorder_conv": rng.choice(convs[:3]),
                        "ranks": None, "ranks_conv": "list", "side": side, "delta": delta, "first_mode": k0,
                        "expect_first_rank": expect})
            count += 1
        # (b) random data, automatic ranks; (c) explicit rank vectors
        for i in range(n_rand):
            N = rng.randint(1, nmax)
            shape = [rng.randint(1, 5) for _ in range(N)]
            if rng.random() < 0.7 and N <= 5:
                shape = rng.sample(range(1, 6), N)
            X = np.array([rng.gauss(0, 1) for _ in range(gen.numel(shape))]).reshape(shape, order="F")
            if rng.random() < 0.25:
                # low multilinear rank plus noise: a real decision for the cut-off
                r = [max(1, x - rng.randint(0, 2)) for x in shape]
                G = np.array([rng.gauss(0, 1) for _ in range(gen.numel(r))]).reshape(r, order="F")
                X = ref_full(G, [orth(rng, shape[n], r[n]) for n in range(N)]) + 1e-3 * X
            order = rng.choice(orders(N)) if N <= 3 else rng.choice([None, rng.sample(range(N), N)])
            c = {"kind": "random", "shape": shape, "data": flist(X), "tol": rng.choice([0.05, 0.1, 0.3, 0.5, 0.9, rng.uniform(0.001, 0.999)]),
                 "sequential": rng.random() < 0.5, "dimorder": order, "dimorder_conv": rng.choice(convs[:3]),
                 "ranks": None, "ranks_conv": "list"}
            if rng.random() < 0.35:
                # automatic ranks requested with an explicit vector of zeros
                c.update({"ranks": [0] * N, "ranks_conv": rng.choice(["list", "ndarray", "ndarray"])})
            if i % 2 == 1:
                how = rng.choice(["rand", "full", "one", "mixed"])
                if how == "rand":
                    rk = [rng.randint(1, x) for x in shape]
                elif how == "full":
                    rk = list(shape)
                elif how == "one":
                    rk = [1] * N
                else:
                    rk = [rng.choice([0, rng.randint(1, x)]) for x in shape]
                c.update({"kind": "given", "ranks": rk, "ranks_conv": rng.choice(convs)})
            out.append(c)
        return out

    def evaluate(self, cases):
        runs, reqs = [], []
        for c in cases:
            A = to_array(c["shape"], c["data"])
            ranks = conv_vec(c["ranks"], c["ranks_conv"])
            order = conv_vec(c["dimorder"], c["dimorder_conv"])
            snap = (None if not isinstance(ranks, np.ndarray) else ranks.copy(),
                    None if not isinstance(order, np.ndarray) else order.copy(),
                    None if not isinstance(ranks, list) else list(ranks),
                    None if not isinstance(order, list) else list(order))
            rec = []

            def f():
                res, r = run_hosvd(A, c["tol"], order, c["sequential"], ranks)
                rec.extend(r)
                return res
            try:
                H = importlib.import_module("pyttb.hosvd")
                saved = H.scipy
                impl = call(f)
            finally:
                H.scipy = saved
            if impl.get("reject"):
                # what was recorded before the failure
                pass
            runs.append((A, ranks, order, snap, rec, impl))
            reqs.append({"op": "c10_hosvd", "scalar": "float", "X": fdense(A), "tol": bits(c["tol"]),
                         "dimorder": c["dimorder"], "ranks": c["ranks"], "sequential": c["sequential"],
                         "eigh": [{"D": fvec(D), "V": fmat(Vm)} for (_, D, Vm) in rec]})
        models = drive(reqs)
        return [self.judge(c, run, m) for c, run, m in zip(cases, runs, models)]

    def judge(self, c, run, m):
        A, ranks, order, snap, rec, impl = run
        N = len(c["shape"])
        tags = [c["kind"], f"N{N}", "seq" if c["sequential"] else "nonseq",
                "order-default" if c["dimorder"] is None else ("order-id" if c["dimorder"] == list(range(N)) else "order-perm"),
                "ranks-" + ("none" if c["ranks"] is None else c["ranks_conv"]),
                "auto" if (c["ranks"] is None or all(r == 0 for r in c["ranks"])) else
                ("mixed" if any(r == 0 for r in c["ranks"]) else "given")]
        if c["kind"] == "prescribed":
            tags.append(f"{c['side']}-{c['delta']:g}")
        const = bool(np.all(A == A.flat[0])) if A.size else True
        mixed = c["ranks"] is not None and any(r == 0 for r in c["ranks"]) and any(r != 0 for r in c["ranks"])
        if impl.get("reject"):
            tags.append("reject")
            if mixed and c["sequential"] and m.get("reject"):
                # a hard user truncation followed by an automatic mode can leave no eigenvalue sum above the
                # threshold (np.where(...)[0][-1] raises); outside the property's quantifier, the model agrees
                return V("ok", "", impl, None, None, tags + ["mixed-empty-cut"], False)
            if not self.malformed:
                return V("violation", f"hosvd raised {impl.get('exc')} on a valid request: {impl.get('msg')}", impl, None, None, tags)
            if not m.get("reject"):
                return V("corr", "implementation rejects, model accepts", impl, m, None, tags, False)
            return V("ok", "", impl, None, None, tags, False)
        if c.get("must_reject"):
            return V("violation", f"hosvd accepted the rank vector {c['ranks']} for shape {c['shape']} "
                                  "(a rank must lie between 0 and the extent of its mode)", None, m, None, tags)
        res = impl["ok"]
        Us, G = res["factors"], res["core"]
        scale = max(1.0, float(np.abs(A).max()))
        normx = float(np.sqrt((A ** 2).sum()))
        summary = {"core_shape": list(G.shape), "factor_shapes": [list(u.shape) for u in Us]}
        # ---- the property on the implementation, recomputed independently ----
        if normx > 0:
            for n, U in enumerate(Us):
                if U.ndim != 2 or U.shape[0] != c["shape"][n]:
                    return V("violation", f"factor {n} has shape {U.shape}", summary, None, None, tags)
                if not near(U.T @ U, np.eye(U.shape[1]), 1e-8, 1.0):
                    return V("violation", f"factor {n} does not have orthonormal columns", summary, None, None, tags)
            Gref = ref_core(A, Us)
            if not near(G, Gref, 1e-8, scale * max(1.0, normx)):
                return V("violation", "core is not the data multiplied in every mode by the transposed factor", summary, None, None, tags)
            relerr = float(np.sqrt(((A - ref_full(G, Us)) ** 2).sum())) / normx
            summary["relerr"] = relerr
            req = c["ranks"] if c["ranks"] is not None else [0] * N
            for n in range(N):
                if req[n] != 0 and Us[n].shape[1] != req[n]:
                    return V("violation", f"mode {n}: {Us[n].shape[1]} columns kept, {req[n]} requested", summary, None, req, tags)
            if all(r == 0 for r in req) and relerr > c["tol"] + 1e-8:
                return V("violation", f"relative error {relerr} exceeds the tolerance {c['tol']}", summary, None, None, tags)
            # least rank with discarded tail <= threshold, from an independent eigenvalue computation
            thresh = c["tol"] ** 2 * normx ** 2 / N
            Y = A
            for k in (c["dimorder"] if c["dimorder"] is not None else list(range(N))):
                if req[k] == 0:
                    ev = sorted([max(float(x), 0.0) for x in np.linalg.eigvalsh(ref_gram(Y, k))], reverse=True)
                    rr, margin = least_rank(ev, thresh)
                    if margin > 1e-9 and Us[k].shape[1] != rr:
                        return V("violation", f"mode {k}: kept {Us[k].shape[1]} columns, the least count with discarded "
                                              f"eigenvalue tail <= tol^2|X|^2/d is {rr}", summary, None, rr, tags)
                    if margin <= 1e-9:
                        tags.append("tie")
                if c["sequential"]:
                    Y = ref_ttm(Y, Us[k], k, True)
            if c["kind"] == "prescribed" and Us[c["first_mode"]].shape[1] != c["expect_first_rank"]:
                return V("violation", f"first mode {c['first_mode']}: kept {Us[c['first_mode']].shape[1]}, the prescribed "
                                      f"spectrum puts the cut at {c['expect_first_rank']}", summary, None, c["expect_first_rank"], tags)
        if not np.array_equal(res["X_after"], A):
            return V("violation", "hosvd modified the data tensor", summary, None, None, tags)
        if (snap[0] is not None and not np.array_equal(snap[0], ranks)) or (snap[2] is not None and snap[2] != ranks):
            return V("violation", f"hosvd modified the caller's rank vector: {snap[0] if snap[0] is not None else snap[2]} -> {ranks}",
                     summary, None, None, tags)
        if (snap[1] is not None and not np.array_equal(snap[1], order)) or (snap[3] is not None and snap[3] != order):
            return V("violation", "hosvd modified the caller's mode order", summary, None, None, tags)
        # ---- contract of the recorded service calls ----
        for (Z, D, Vm) in rec:
            zs = max(1.0, float(np.abs(Z).max()))
            if not (near(Z, Z.T, 1e-12, zs) and near(Vm.T @ Vm, np.eye(Vm.shape[1]), 1e-10, 1.0)
                    and near(Z @ Vm, Vm * D, 1e-9, zs)):
                return V("corr", "a recorded eigh call does not satisfy the service contract", summary, None, None, tags, False)
        # ---- correspondence with the model (Float replay with the recorded eigenpairs) ----
        if m.get("reject"):
            return V("corr", "model rejects, implementation accepts", summary, m, None, tags)
        mo = m["ok"]
        ordl = c["dimorder"] if c["dimorder"] is not None else list(range(N))
        if len(mo["trace"]) != len(rec) or len(rec) != N:
            return V("corr", f"{len(rec)} eigh calls recorded, model made {len(mo['trace'])}", summary, None, None, tags)
        for i, (tr, (Z, D, Vm)) in enumerate(zip(mo["trace"], rec)):
            if tr["k"] != ordl[i]:
                return V("corr", f"pass {i}: model works on mode {tr['k']}, order says {ordl[i]}", summary, None, None, tags)
            if not near(unmat(tr["gram"]), Z, 1e-9):
                return V("corr", f"pass {i}: Gram matrix handed to eigh differs from the model's", summary, None, None, tags)
            if len(set(D.tolist())) == len(D):
                if tr["pi"] != [int(x) for x in np.argsort(-D, kind="quicksort")]:
                    return V("corr", f"pass {i}: sorting permutation differs", summary, tr["pi"], None, tags)
            else:
                tags.append("eig-ties")
            if tr["rank"] != Us[tr["k"]].shape[1]:
                return V("corr", f"pass {i} (mode {tr['k']}): implementation kept {Us[tr['k']].shape[1]} columns, model {tr['rank']}",
                         summary, tr["rank"], None, tags)
        for n in range(N):
            if not near(unmat(mo["factors"][n]), Us[n], 1e-12):
                return V("corr", f"factor {n} differs from the model's", summary, None, None, tags)
        if not near(undense(mo["core"]), G, 1e-9, scale * max(1.0, normx)):
            return V("corr", "core differs from the model's (Float replay)", summary, None, None, tags)
        tags.append("rank<full" if any(Us[n].shape[1] < c["shape"][n] for n in range(N)) else "rank=full")
        return V("ok", "", summary, None, None, tags, nontrivial=not const)

    def shrink(self, case):
        c = case
        if c.get("dimorder") is not None:
            yield {**c, "dimorder": None}
        if c.get("ranks_conv") != "list":
            yield {**c, "ranks_conv": "list"}
        if c.get("dimorder_conv") != "list":
            yield {**c, "dimorder_conv": "list"}
        if c.get("kind") != "prescribed":
            A = to_array(c["shape"], c["data"])
            for n, x in enumerate(c["shape"]):
                if x > 1 and (c["ranks"] is None or c["ranks"][n] < x):
                    B = np.take(A, range(x - 1), axis=n)
                    yield {**c, "shape": list(B.shape), "data": flist(B)}
            yield {**c, "data": [float(round(v * 4) / 4) for v in c["data"]]}


DTYPE_CLASSES = [
    # (largest magnitude, signed, element types that hold the values; the squares overflow all integer types listed
    #  last in each class)
    (255, False, ["float64", "int64", "int32", "int16", "uint8"]),
    (30000, True, ["float64", "int64", "int32", "int16"]),
    (2000000, True, ["float64", "int64", "int32"]),
    (4000000000, True, ["float64", "int64"]),
]


class HosvdDtype(HosvdTrace):
    """The same integer-valued numbers handed over as float64 / int64 / int32 / int16 / uint8 data: the float64
    run is judged like every other hosvd case (model replay included); every other element type must give
    the same ranks, the same reconstruction and the error bound (the sum of squares must not wrap around:
    2517f75)."""

    name = "hosvd_dtype"
    theorems = ("C10_hosvd_rank_auto", "C10_hosvd_error_bound")

    def gen(self, rng, tier):
        out = []
        for i in range(16 if tier == "quick" else 120):
            big, signed, dts = DTYPE_CLASSES[i % len(DTYPE_CLASSES)]
            N = rng.randint(1, 3)
            shape = [rng.randint(1, 4) for _ in range(N)]
            if rng.random() < 0.6:
                shape = rng.sample(range(1, 5), N)
            n = gen.numel(shape)
            how = rng.choice(["large", "large", "mixed", "diag"])
            vals = []
            for j in range(n):
                m = big if how == "large" or (how == "mixed" and rng.random() < 0.5) else max(1, big // 50)
                v = rng.randint(m // 2, m)
                if rng.random() < 0.25:
                    v = rng.randint(0, max(1, m // 100))
                vals.append(float(-v if signed and rng.random() < 0.5 else v))
            if how == "diag":
                A = np.zeros(shape)
                for j in range(min(shape)):
                    A[(j,) * N] = float(rng.randint(big // 3, big)) / (j + 1) // 1
                vals = flist(A)
            if not any(vals):
                vals[0] = float(big)   # the property speaks about non-zero data
            order = rng.choice([None] + [list(p) for p in itertools.permutations(range(N))])
            out.append({"kind": "dtype", "shape": shape, "data": vals, "tol": rng.choice([0.1, 0.3, 0.5, 0.7, 0.9]),
                        "sequential": rng.random() < 0.5, "dimorder": order, "dimorder_conv": "list",
                        "ranks": None, "ranks_conv": "list", "dtypes": dts, "class": f"max{big}"})
        return out

    def evaluate(self, cases):
        base = super().evaluate(cases)
        out = []
        for c, v in zip(cases, base):
            if v.status != "ok":
                out.append(v)
                continue
            A = to_array(c["shape"], c["data"])
            normx = float(np.sqrt((A ** 2).sum()))
            scale = max(1.0, float(np.abs(A).max())) * max(1.0, normx)
            ref, _ = run_hosvd(A, c["tol"], c["dimorder"], c["sequential"], None, dtype="float64")
            ref_shape = [list(u.shape) for u in ref["factors"]]
            ref_full_ = ref_full(ref["core"], ref["factors"])
            tags = list(v.tags) + [c["class"]]
            bad = None
            for dt in c["dtypes"][1:]:
                r = call(lambda: run_hosvd(A, c["tol"], c["dimorder"], c["sequential"], None, dtype=dt)[0])
                if r.get("reject"):
                    bad = V("violation", f"hosvd raised {r.get('exc')} on {dt} data: {r.get('msg')}", r, None, None, tags)
                    break
                res = r["ok"]
                shp = [list(u.shape) for u in res["factors"]]
                summ = {"dtype": dt, "factor_shapes": shp, "float64_factor_shapes": ref_shape}
                if shp != ref_shape:
                    bad = V("violation", f"the same numbers as {dt} data give ranks {[x[1] for x in shp]}, as float64 data "
                                         f"{[x[1] for x in ref_shape]}", summ, None, ref_shape, tags)
                    break
                full = ref_full(np.asarray(res["core"], dtype=float), res["factors"])
                relerr = float(np.sqrt(((A - full) ** 2).sum())) / normx if normx > 0 else 0.0
                summ["relerr"] = relerr
                if normx > 0 and relerr > c["tol"] + 1e-8:
                    bad = V("violation", f"{dt} data: relative error {relerr} exceeds the tolerance {c['tol']}", summ, None, None, tags)
                    break
                if not near(full, ref_full_, 1e-8, scale):
                    bad = V("violation", f"the same numbers as {dt} data give a different Tucker tensor than as float64 data",
                            summ, None, None, tags)
                    break
                if not res["dtype_kept"] or not np.array_equal(np.asarray(res["X_after"], dtype=float), A):
                    bad = V("violation", f"hosvd modified its {dt} data tensor", summ, None, None, tags)
                    break
            out.append(bad if bad is not None else Verdict("ok", "", v.impl, None, None, tuple(tags), v.nontrivial))
        return out

    def shrink(self, case):
        for dt in case["dtypes"][1:]:
            if len(case["dtypes"]) > 2:
                yield {**case, "dtypes": ["float64", dt]}
        if case.get("dimorder") is not None:
            yield {**case, "dimorder": None}


class HosvdMalformed(HosvdTrace):
    name = "hosvd_malformed"
    theorems = ()
    malformed = True

    def gen(self, rng, tier):
        out = []
        for _ in range(12 if tier == "quick" else 80):
            N = rng.randint(1, 3)
            shape = [rng.randint(1, 4) for _ in range(N)]
            X = [rng.gauss(0, 1) for _ in range(gen.numel(shape))]
            c = {"kind": "malformed", "shape": shape, "data": X, "tol": 0.3, "sequential": rng.random() < 0.5,
                 "dimorder": None, "dimorder_conv": "list", "ranks": None, "ranks_conv": "list", "expect_reject": True}
            what = rng.choice(["ranks-short", "ranks-long", "order-dup", "order-range", "order-short",
                               "ranks-over", "ranks-over", "ranks-neg"])
            if what in ("ranks-over", "ranks-neg"):
                # rejected since b0b6c00: a rank above the extent of its mode, a negative rank
                rk = [rng.choice([0, rng.randint(1, x)]) for x in shape]
                k = rng.randrange(N)
                rk[k] = shape[k] + rng.choice([1, 1, 3]) if what == "ranks-over" else -rng.randint(1, 2)
                c.update({"ranks": rk, "ranks_conv": rng.choice(["list", "tuple", "ndarray"]), "must_reject": True})
            elif what == "ranks-short":
                c["ranks"] = [1] * (N - 1)
                if N == 1:
                    c["ranks"] = [1, 1]
            elif what == "ranks-long":
                c["ranks"] = [1] * (N + 1)
            elif what == "order-dup":
                c["dimorder"] = [0] * N if N > 1 else [0, 0]
            elif what == "order-range":
                c["dimorder"] = list(range(1, N + 1))
            else:
                c["dimorder"] = list(range(N - 1)) if N > 1 else [0, 0]
            c["what"] = what
            out.append(c)
        return out

    def shrink(self, case):
        return []


# ----------------------------------------------------------------------------
# 4. tucker_als
# ----------------------------------------------------------------------------
def fit_tolerance(gap):
    """rounding of sqrt(|a - b|)/normX when the relative residual is `gap`"""
    return max(1e-10, 1e-13 / max(gap, 1e-12))


class TuckerTrace(Family):
    """tucker_als on the real code with nvecs / uniform recorded; the model replays the run at
    Float; every recorded mode update is validated as one model step; the property is
    recomputed independently at 1e-8."""

    name = "tucker_trace"
    theorems = ("C10_tucker_orthonormal", "C10_tucker_core", "C10_tucker_fit", "C10_tucker_iters_le",
                "C10_tucker_fit_monotone", "C10_tucker_accepts")
    malformed = False

    def problem(self, rng, tier, nmin=2):
        nmax = 3 if tier == "quick" else 4
        N = rng.randint(nmin, nmax)
        shape = rng.sample(range(2, 7), N) if rng.random() < 0.7 else [rng.randint(1, 5) for _ in range(N)]
        if rng.random() < 0.15:
            shape[rng.randrange(N)] = 1
        X = np.array([rng.gauss(0, 1) for _ in range(gen.numel(shape))]).reshape(shape, order="F")
        if rng.random() < 0.4:
            r = [max(1, x - rng.randint(1, 2)) for x in shape]
            G = np.array([rng.gauss(0, 1) for _ in range(gen.numel(r))]).reshape(r, order="F")
            X = ref_full(G, [orth(rng, shape[n], r[n]) for n in range(N)]) + rng.choice([0.0, 1e-2, 0.3]) * X
        how = rng.choice(["rand", "rand", "full", "one", "int"])
        if how == "rand":
            rank = [rng.randint(1, x) for x in shape]
            conv = rng.choice(["list", "tuple", "ndarray"])
        elif how == "full":
            rank, conv = list(shape), rng.choice(["list", "ndarray"])
        elif how == "one":
            rank, conv = [1] * N, rng.choice(["list", "tuple"])
        else:
            rank, conv = [rng.randint(1, min(shape))], rng.choice(["int", "list"])
        if len(rank) == N and rng.random() < 0.85:
            # a rank above the product of the other ranks leaves the trailing columns of that factor
            # arbitrary (null space of the Gram matrix): keep such degenerate requests rare
            for _ in range(3):
                for n in range(N):
                    others = 1
                    for m in range(N):
                        if m != n:
                            others *= rank[m]
                    rank[n] = max(1, min(rank[n], others))
        order = rng.choice([None] + [list(p) for p in itertools.permutations(range(N))]) if N <= 3 \
            else rng.choice([None, rng.sample(range(N), N)])
        full_rank = rank * N if len(rank) == 1 else rank
        init = rng.choice(["random", "random", "nvecs", "NVECS", "eigs", "Random", "list", "list"])
        c = {"shape": shape, "data": flist(X), "rank": rank, "rank_conv": conv, "dimorder": order,
             "dimorder_conv": rng.choice(["list", "tuple", "ndarray"]), "init": init, "seed": rng.randrange(2 ** 31),
             "stoptol": rng.choice([1e-2, 1e-4, 1e-4, 0.0, -1.0]), "maxiters": rng.randint(1, 6)}
        if init == "list":
            c["init_list"] = [[[rng.uniform(0, 1) for _ in range(full_rank[n])] for _ in range(shape[n])] for n in range(N)]
        return c

    def gen(self, rng, tier):
        return [dict(self.problem(rng, tier), kind="valid") for _ in range(45 if tier == "quick" else 420)]

    # -- running ------------------------------------------------------------
    def run_case(self, c, maxiters=None, stoptol=None):
        A = to_array(c["shape"], c["data"])
        rank = conv_vec(c["rank"], c["rank_conv"])
        order = conv_vec(c["dimorder"], c["dimorder_conv"])
        init = c["init"]
        init_arrays = None
        if init == "list":
            init_arrays = [np.array(M, dtype=float).reshape(len(M), len(M[0]) if M else 0) for M in c["init_list"]]
            init = list(init_arrays)
        snap = {"rank": rank.copy() if isinstance(rank, np.ndarray) else (list(rank) if isinstance(rank, list) else rank),
                "order": order.copy() if isinstance(order, np.ndarray) else (list(order) if isinstance(order, list) else order),
                "init": None if init_arrays is None else [a.copy() for a in init_arrays]}
        nv, un = [], []

        def f():
            res, a, b = run_tucker(A, rank, c["stoptol"] if stoptol is None else stoptol,
                                   c["maxiters"] if maxiters is None else maxiters, order, init, c["seed"])
            nv.extend(a)
            un.extend(b)
            return res
        run_tucker.last = ([], [])
        TA = importlib.import_module("pyttb.tucker_als")
        saved_np, saved_nvecs = TA.np, ttb.tensor.nvecs
        try:
            impl = call(f)
        finally:
            TA.np, ttb.tensor.nvecs = saved_np, saved_nvecs
        if impl.get("reject"):
            nv, un = run_tucker.last
        return {"A": A, "rank": rank, "order": order, "init": init, "init_arrays": init_arrays, "snap": snap,
                "nv": nv, "un": un, "impl": impl}

    def request(self, c, run, maxiters=None, stoptol=None):
        init = c["init"] if c["init"] != "list" else [fmat(np.array(M, dtype=float).reshape(len(M), len(M[0]) if M else 0))
                                                       for M in c["init_list"]]
        return {"op": "c10_tucker_als", "scalar": "float", "X": fdense(run["A"]), "rank": c["rank"],
                "stoptol": bits(c["stoptol"] if stoptol is None else stoptol),
                "maxiters": c["maxiters"] if maxiters is None else maxiters, "dimorder": c["dimorder"], "init": init,
                "nvecs": [fmat(o) for (_, _, _, o) in run["nv"]], "uniform": [fmat(o) for o in run["un"]]}

    def step_requests(self, c, run):
        """one request per recorded mode update of the main loop (at most the first 3 sweeps)"""
        N = len(c["shape"])
        order = c["dimorder"] if c["dimorder"] is not None else list(range(N))
        res = run["impl"].get("ok")
        if res is None:
            return [], []
        U = [np.zeros((0, 0)) if u is None else u for u in res["uinit"]]
        ninit = len(run["nv"]) - N * (res["iters"] + 1)
        if ninit < 0 or ninit > N:
            return [], []
        rank = c["rank"] * N if len(c["rank"]) == 1 else c["rank"]
        reqs, meta = [], []
        for j, (Win, n, r, outm) in enumerate(run["nv"][ninit:]):
            if j < 3 * N:
                reqs.append({"op": "c10_hooi_mode", "scalar": "float", "X": fdense(run["A"]),
                             "Us": [fmat(u) for u in U], "n": order[j % N], "rank": rank, "nvecs_out": fmat(outm)})
                meta.append((j, Win, n, r))
            U = list(U)
            U[order[j % N]] = outm
        return reqs, meta

    def evaluate(self, cases):
        runs = [self.run_case(c) for c in cases]
        reqs = [self.request(c, r) for c, r in zip(cases, runs)]
        spans = []
        for c, r in zip(cases, runs):
            sr, meta = self.step_requests(c, r)
            spans.append((len(reqs), len(sr), meta))
            reqs += sr
        models = drive(reqs)
        out = []
        for i, (c, r) in enumerate(zip(cases, runs)):
            a, n, meta = spans[i]
            out.append(self.judge(c, r, models[i], models[a:a + n], meta))
        return out

    # -- judging ------------------------------------------------------------
    def spec_check(self, c, run, tags):
        """the property on the implementation; returns a Verdict or None"""
        res = run["impl"]["ok"]
        A = run["A"]
        N = len(c["shape"])
        Us, G = res["factors"], res["core"]
        rank = c["rank"] * N if len(c["rank"]) == 1 else c["rank"][:N]
        normx = float(np.sqrt((A ** 2).sum()))
        scale = max(1.0, float(np.abs(A).max())) * max(1.0, normx)
        summary = {"core_shape": list(G.shape), "factor_shapes": [list(u.shape) for u in Us], "iters": res["iters"],
                   "fit": res["fit"]}
        for n, U in enumerate(Us):
            if U.shape != (c["shape"][n], rank[n]):
                return V("violation", f"factor {n} has shape {U.shape}, requested ({c['shape'][n]}, {rank[n]})", summary, None, None, tags)
            if not near(U.T @ U, np.eye(U.shape[1]), 1e-8, 1.0):
                return V("violation", f"factor {n} does not have orthonormal columns", summary, None, None, tags)
        if not near(G, ref_core(A, Us), 1e-8, scale):
            return V("violation", "core is not the data multiplied in every mode by the transposed factor", summary, None, None, tags)
        resid = float(np.sqrt(((A - ref_full(G, Us)) ** 2).sum()))
        gap = resid / normx
        summary["recomputed_fit"] = 1 - gap
        if abs((1 - res["fit"]) ** 2 - gap ** 2) > 1e-10 or abs(res["normresidual"] ** 2 - resid ** 2) > 1e-10 * normx ** 2:
            return V("violation", f"reported fit {res['fit']} is not 1 - |X - T|/|X| = {1 - gap}", summary, None, 1 - gap, tags)
        if gap >= 1e-3 and abs(res["fit"] - (1 - gap)) > 1e-8:
            return V("violation", f"reported fit {res['fit']} is not 1 - |X - T|/|X| = {1 - gap}", summary, None, 1 - gap, tags)
        tags.append("gap>=1e-3" if gap >= 1e-3 else "gap<1e-3")
        sweeps = res["iters"] + 1
        ninit = len(run["nv"]) - N * sweeps
        if sweeps > c["maxiters"] or ninit < 0:
            return V("violation", f"{sweeps} iterations reported with limit {c['maxiters']}", summary, None, None, tags)
        if (len(run["nv"]) - (N - 1 if c["init"].lower() in ("nvecs", "eigs") else 0)) != N * sweeps:
            return V("violation", f"{len(run['nv'])} nvecs calls do not match {sweeps} reported iterations", summary, None, None, tags)
        # fit along the recorded trajectory (the factors after every sweep) never decreases
        order = c["dimorder"] if c["dimorder"] is not None else list(range(N))
        U = [None] * N
        for n in order[1:]:
            U[n] = res["uinit"][n]
        prev, traj = None, []
        for j, (_, n, r, outm) in enumerate(run["nv"][ninit:]):
            U[order[j % N]] = outm
            if j % N == N - 1:
                g2 = float((ref_core(A, U) ** 2).sum())
                traj.append(g2)
                if prev is not None and g2 < prev - 1e-10 * normx ** 2:
                    return V("violation", f"|core|^2 (hence the fit) decreased in iteration {j // N}: {prev} -> {g2}", summary, None, None, tags)
                prev = g2
        summary["core_energy"] = traj
        # inputs
        if not np.array_equal(res["X_after"], A):
            return V("violation", "tucker_als modified the data tensor", summary, None, None, tags)
        s = run["snap"]
        same = (lambda a, b: np.array_equal(a, b) if isinstance(a, np.ndarray) else a == b)
        if not same(s["rank"], run["rank"]) or not same(s["order"], run["order"]):
            return V("violation", "tucker_als modified the caller's rank vector or mode order", summary, None, None, tags)
        if s["init"] is not None:
            if len(run["init"]) != len(s["init"]) or any(x is not y for x, y in zip(run["init"], run["init_arrays"])) \
                    or any(not np.array_equal(x, y) for x, y in zip(s["init"], run["init_arrays"])):
                return V("violation", "tucker_als modified the caller's initial guess", summary, None, None, tags)
        # service contract of the recorded nvecs calls
        for (Win, n, r, outm) in run["nv"]:
            Z = ref_gram(Win, n)
            ev = np.sort(np.linalg.eigvalsh(Z))[::-1]
            if outm.shape != (Win.shape[n], r) or not near(outm.T @ outm, np.eye(r), 1e-9, 1.0) \
                    or float(np.trace(outm.T @ Z @ outm)) < float(ev[:r].sum()) - 1e-8 * max(1e-300, float(np.trace(Z))):
                return V("corr", "a recorded nvecs call does not satisfy the service contract", summary, None, None, tags, False)
        return summary

    def judge(self, c, run, m, steps, meta):
        N = len(c["shape"])
        A = run["A"]
        impl = run["impl"]
        tags = [c.get("kind", "valid"), f"N{N}", "init-" + c["init"].lower(), "rank-" + c["rank_conv"],
                "order-default" if c["dimorder"] is None else ("order-id" if c["dimorder"] == list(range(N)) else "order-perm"),
                f"maxiters{c['maxiters']}", f"stoptol{c['stoptol']:g}"]
        if impl.get("reject"):
            tags.append("reject")
            if not self.malformed:
                return V("violation", f"tucker_als raised {impl.get('exc')} on a valid request: {impl.get('msg')}", impl, None, None, tags)
            if not m.get("reject"):
                return V("corr", "implementation rejects, model accepts", impl, m, None, tags, False)
            return V("ok", "", impl, None, None, tags, False)
        if c.get("must_reject"):
            return V("violation", f"tucker_als accepted the rank {c['rank']} for shape {c['shape']} "
                                  "(a rank must lie between 1 and the extent of its mode)", None, m, None, tags)
        r = self.spec_check(c, run, tags)
        if isinstance(r, Verdict):
            return r
        summary = r
        res = impl["ok"]
        if m.get("reject"):
            return V("corr", "model rejects, implementation accepts", summary, m, None, tags)
        mo = m["ok"]
        normx = float(np.sqrt((A ** 2).sum()))
        scale = max(1.0, float(np.abs(A).max())) * max(1.0, normx)
        near_stop = any(abs(unbits(t["fitchange"]) - c["stoptol"]) <= 1e-7 for t in mo["trace"])
        if near_stop:
            tags.append("stop-near")
        if mo["iters"] != res["iters"]:
            if near_stop:
                return V("ok", "", summary, None, None, tags)
            return V("corr", f"implementation reports iters={res['iters']}, model {mo['iters']}", summary, mo["iters"], None, tags)
        uin = [np.zeros((0, 0)) if u is None else u for u in res["uinit"]]
        if len(uin) != len(mo["uinit"]) or any(not near(unmat(a), b, 1e-15) for a, b in zip(mo["uinit"], uin)):
            return V("corr", "initial guess differs from the model's", summary, None, None, tags)
        for n in range(N):
            if not near(unmat(mo["factors"][n]), res["factors"][n], 1e-12):
                return V("corr", f"factor {n} differs from the model's", summary, None, None, tags)
        if not near(undense(mo["core"]), res["core"], 1e-9, scale):
            return V("corr", "core differs from the model's (Float replay)", summary, None, None, tags)
        if abs(unbits(mo["normresidual"]) ** 2 - res["normresidual"] ** 2) > 1e-11 * max(1.0, normx ** 2) \
                or abs((1 - unbits(mo["fit"])) ** 2 - (1 - res["fit"]) ** 2) > 1e-11:
            return V("corr", "reported fit / normresidual differ from the model's", summary, [unbits(mo["fit"])], None, tags)
        for (j, Win, n, rr), sm in zip(meta, steps):
            if sm.get("reject") or sm["ok"]["Utilde"] is None:
                return V("corr", f"mode update {j}: model rejects", summary, sm, None, tags)
            if not near(undense(sm["ok"]["Utilde"]), Win, 1e-9, scale):
                return V("corr", f"mode update {j}: tensor handed to nvecs differs from the model's", summary, None, None, tags)
        tags.append("stopped-early" if res["iters"] + 1 < c["maxiters"] else "ran-to-limit")
        const = bool(np.all(A == A.flat[0]))
        return V("ok", "", summary, None, None, tags, nontrivial=not const)

    def shrink(self, case):
        c = case
        if c.get("dimorder") is not None:
            yield {**c, "dimorder": None}
        if c.get("maxiters", 1) > 1:
            yield {**c, "maxiters": c["maxiters"] - 1}
        if c.get("rank_conv") not in ("list", "int"):
            yield {**c, "rank_conv": "list"}
        if c.get("dimorder_conv") != "list":
            yield {**c, "dimorder_conv": "list"}


class TuckerMalformed(TuckerTrace):
    name = "tucker_malformed"
    theorems = ()
    malformed = True

    def gen(self, rng, tier):
        out = []
        for _ in range(24 if tier == "quick" else 160):
            what = rng.choice(["maxiters0", "maxiters-1", "order-dup", "order-range", "init-unknown", "init-len",
                               "init-shape", "init-shape-first", "rank-short", "rank-long", "oneway",
                               "rank-zero", "rank-neg", "rank-over", "rank-over"])
            c = self.problem(rng, tier, nmin=2)
            N = len(c["shape"])
            c.update({"kind": "malformed", "what": what, "expect_reject": True})
            full = c["rank"] * N if len(c["rank"]) == 1 else c["rank"]
            order = c["dimorder"] if c["dimorder"] is not None else list(range(N))

            def mk_list(shapes):
                return [[[rng.uniform(0, 1) for _ in range(p)] for _ in range(mm)] for (mm, p) in shapes]
            if what in ("rank-zero", "rank-neg", "rank-over"):
                # rejected since 35fe719: a rank below one or above the extent of its mode
                bad = {"rank-zero": 0, "rank-neg": -rng.randint(1, 2)}.get(what)
                if rng.random() < 0.3:
                    r = bad if bad is not None else min(c["shape"]) + 1
                    c["rank"], c["rank_conv"] = [r], rng.choice(["int", "list"])
                else:
                    rk = list(full)
                    k = rng.randrange(N)
                    rk[k] = bad if bad is not None else c["shape"][k] + rng.choice([1, 2])
                    c["rank"], c["rank_conv"] = rk, rng.choice(["list", "tuple", "ndarray"])
                if c["init"] == "list":
                    c["init"] = rng.choice(["random", "nvecs"])
                c["must_reject"] = True
            elif what == "maxiters0":
                c["maxiters"] = 0
            elif what == "maxiters-1":
                c["maxiters"] = -1
            elif what == "order-dup":
                c["dimorder"] = [0] * N
            elif what == "order-range":
                c["dimorder"] = list(range(1, N + 1))
            elif what == "init-unknown":
                c["init"] = rng.choice(["zeros", "rand", ""])
            elif what == "init-len":
                c["init"] = "list"
                c["init_list"] = mk_list([(c["shape"][n], full[n]) for n in range(N)])[:-1]
            elif what == "init-shape":
                c["init"] = "list"
                shapes = [(c["shape"][n], full[n]) for n in range(N)]
                n = order[-1]
                shapes[n] = (shapes[n][0] + 1, shapes[n][1]) if rng.random() < 0.5 else (shapes[n][0], shapes[n][1] + 1)
                c["init_list"] = mk_list(shapes)
            elif what == "init-shape-first":
                # the factor of the first processed mode is never looked at: accepted
                c["init"] = "list"
                shapes = [(c["shape"][n], full[n]) for n in range(N)]
                shapes[order[0]] = (shapes[order[0]][0] + 1, shapes[order[0]][1] + 2)
                c["init_list"] = mk_list(shapes)
                c["expect_reject"] = False
            elif what == "rank-short":
                if N < 3:
                    c["shape"] = c["shape"] + [2]
                    c["data"] = c["data"] + c["data"]
                    c["dimorder"] = None
                    if c["init"] == "list":
                        c["init"] = "random"
                    N = 3
                c["rank"], c["rank_conv"] = [1, 1], "list"
            elif what == "rank-long":
                # rejected since 11afd42 (`len(rank) != N`)
                c["rank"], c["rank_conv"] = full + [1], "list"
                if c["init"] == "list":
                    c["init_list"] = mk_list([(c["shape"][n], full[n]) for n in range(N)])
            else:
                c["shape"] = [rng.randint(2, 5)]
                c["data"] = [rng.gauss(0, 1) for _ in range(c["shape"][0])]
                c["rank"], c["rank_conv"], c["dimorder"] = [1], "int", None
                if c["init"] == "list":
                    c["init"] = "random"
            out.append(c)
        return out

    def shrink(self, case):
        return []


class TuckerMonotone(TuckerTrace):
    """the same problem under iteration limits 1..k with the stop test disabled: the fits form
    a non-decreasing sequence, each run respects its limit, and the model's iteration records
    (one Float replay of the longest run) reproduce the fit of every shorter run."""

    name = "tucker_monotone"
    theorems = ("C10_tucker_fit_monotone", "C10_tucker_iters_le")

    def gen(self, rng, tier):
        out = []
        for _ in range(10 if tier == "quick" else 70):
            c = self.problem(rng, tier)
            c.update({"kind": "monotone", "maxiters": rng.randint(3, 5 if tier == "quick" else 7),
                      "stoptol": rng.choice([0.0, -1.0])})
            out.append(c)
        return out

    def evaluate(self, cases):
        allruns, reqs = [], []
        for c in cases:
            runs = [self.run_case(c, maxiters=k) for k in range(1, c["maxiters"] + 1)]
            allruns.append(runs)
            reqs.append(self.request(c, runs[-1]))
        models = drive(reqs)
        out = []
        for c, runs, m in zip(cases, allruns, models):
            N = len(c["shape"])
            tags = ["monotone", f"N{N}", "init-" + c["init"].lower(), f"k{c['maxiters']}"]
            bad = next((r for r in runs if r["impl"].get("reject")), None)
            if bad is not None:
                out.append(V("violation", f"tucker_als raised {bad['impl'].get('exc')} on a valid request", bad["impl"], None, None, tags))
                continue
            fits = [r["impl"]["ok"]["fit"] for r in runs]
            A = runs[0]["A"]
            normx = float(np.sqrt((A ** 2).sum()))
            energies = [float((r["impl"]["ok"]["core"] ** 2).sum()) for r in runs]

            def same_start(k):
                """run k (limit k+1) reproduces the whole run k-1: only then is the comparison of their fits a
                statement about ONE trajectory (a requested rank above the rank of the projected unfolding
                leaves columns of a factor arbitrary, and ARPACK's start vector is not reproducible)"""
                a, b = runs[k - 1]["nv"], runs[k]["nv"]
                return len(b) >= len(a) and all(x[3].shape == y[3].shape and near(x[3], y[3], 1e-7, 1.0) for x, y in zip(a, b))
            verdict = None
            diverged = False
            for k in range(len(runs)):
                res = runs[k]["impl"]["ok"]
                if res["iters"] + 1 != k + 1:
                    verdict = V("violation", f"limit {k + 1} with the stop test disabled: {res['iters'] + 1} iterations reported", fits, None, None, tags)
                    break
                sub = dict(c, maxiters=k + 1)
                sc = self.spec_check(sub, runs[k], [])   # includes: fit never decreases along this run
                if isinstance(sc, Verdict):
                    verdict = sc
                    break
                if k > 0:
                    if not same_start(k):
                        diverged = True
                        continue
                    gap = 1 - fits[k - 1]
                    if fits[k] < fits[k - 1] - fit_tolerance(abs(gap)) or energies[k] < energies[k - 1] - 1e-10 * normx ** 2:
                        verdict = V("violation", f"fit decreased from limit {k} to limit {k + 1}: {fits[k - 1]} -> {fits[k]}", fits, None, None, tags)
                        break
            if verdict is not None:
                out.append(verdict)
                continue
            if m.get("reject"):
                out.append(V("corr", "model rejects, implementation accepts", fits, m, None, tags))
                continue
            tr = m["ok"]["trace"]
            if len(tr) != len(runs):
                out.append(V("corr", f"model executed {len(tr)} iterations, limit {len(runs)}", fits, None, None, tags))
                continue
            mf = [unbits(t["fit"]) for t in tr]
            if abs((1 - mf[-1]) ** 2 - (1 - fits[-1]) ** 2) > 1e-9:
                out.append(V("corr", "last fit of the model's iteration records differs from the run it replays", fits, mf, None, tags))
                continue
            if any(mf[i + 1] < mf[i] - fit_tolerance(abs(1 - mf[i])) for i in range(len(mf) - 1)):
                out.append(V("violation", "fit decreased along the iterations of one run", fits, mf, None, tags))
                continue
            if diverged:
                tags.append("trajectory-diverged")
            elif any(abs((1 - a) ** 2 - (1 - b) ** 2) > 1e-9 for a, b in zip(mf, fits)):
                out.append(V("corr", "fits of the model's iteration records differ from the runs with shorter limits", fits, mf, None, tags))
                continue
            tags.append("strict-increase" if fits[-1] > fits[0] + 1e-9 else "flat")
            out.append(V("ok", "", fits, None, None, tags))
        return out

    def shrink(self, case):
        if case.get("maxiters", 2) > 2:
            yield {**case, "maxiters": case["maxiters"] - 1}
        if case.get("dimorder") is not None:
            yield {**case, "dimorder": None}


def families():
    return [Formulas(), DenseOps(), HosvdTrace(), HosvdDtype(), HosvdMalformed(), TuckerTrace(), TuckerMalformed(), TuckerMonotone()]
