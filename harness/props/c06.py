"""C06 — sparse results are well-formed and independent of the stored order of nonzeros.

For every public operation of sptensor / sptenmat (and the functions that build them) each
case is run under every stored order of each sparse operand (all n! orders for n <= 4 stored
entries, 24 random orders beyond).  Checked on the implementation, by direct inspection:
 (1) no order makes a valid request raise,
 (2) every returned sptensor / sptenmat is well-formed: one value per subscript row, a value
     column, integer subscripts inside the shape, pairwise distinct rows, nnz = stored rows,
     and no explicit zero for operations that combine or filter entries,
 (3) the result denotes the same array (or is the same number / dense array) for every order,
and, where an operation model exists (element-wise operations, from_aggregator, permute,
reshape, squeeze, to_sptenmat, sptenmat.to_sptensor, tensor.to_sptensor; ttv, ttm, collapse, contract,
scale through the C02 driver ops; squash; __getitem__ / __setitem__ through the C04 driver op; the
sptenmat constructor; sptendiag and sptenrand (on its recorded draws) through the C20 driver ops; copy /
__deepcopy__ and every sptenmat operation — copy, __deepcopy__, +M, -M, __setitem__ sequences, double, full,
norm, nnz, isequal, to_sptensor — through the C06 driver ops `sp_copy`, `spm_*`),
 (4) the stored form equals the Lean model's for every order.
The list of public methods that can return a sparse object is introspected from the classes and
compared with the list covered here; the evidence tags name what is covered without a model
(`unmodelled:<name>`) and anything not covered at all (`uncovered:<name>`).
"""
from __future__ import annotations

import copy as _copy
import inspect
import itertools
import math
import operator
import warnings

import numpy as np
import pyttb as ttb

from harness import gen
from harness import lib
from harness.lib import Family, Verdict, call, deep_eq, dense_j, drive, jval, sparse_j

warnings.filterwarnings("ignore")

VALUES = [-2, -1, 1, 2, 3]

RULE = ("every public sparse operation (13 binary element-wise operations x {scalar, sparse, dense}, unary, elemfun, "
        "c*S, c/S, S*ktensor, mask, extract, from_aggregator, constructor/copy, collapse, contract, permute, reshape, "
        "squeeze, scale, squash, ttv, ttm, __getitem__, __setitem__, to_sptenmat, full/double/norm/innerprod/"
        "isequal/mttkrp, sptenmat constructor / to_sptensor / neg / copy / __setitem__ / from_array, "
        "tensor.to_sptensor, sptendiag, sptenrand, from_function) on shapes of order 1..4 with <= 24 cells and 0..6 "
        "stored entries of both signs; each case under all n! stored orders of each sparse operand for n <= 4 "
        "(both operands: the full product when it has <= 36 combinations, otherwise each operand alone plus 12 "
        "random pairs) and 24 random orders beyond; a family `cell_pairs` that ENUMERATES every pair of distinct cells (and sampled triples) of the non-cubical "
        "shapes (2,3) (2,3,4) (1,2,3,4) ((3,2) (4,3,2) in thorough) as rows of one from_aggregator call (sum / max / len) "
        "and split over the operands of S+T, S-T, logical_or / xor / and, every stored order, against the dense "
        "reference; a deterministic family `collisions`: for ttv / ttm / collapse / "
        "contract / mttkrp / to_sptenmat / __getitem__ / squash / scale, fixed shapes (3,5,3) (2,3,4) (4,2,3) (3,4) "
        "(4,3) (2,2,3,2) ..., EVERY choice of modes (every subset for order <= 3; first / each middle / last / last "
        "several / all but one / all for order 4; every pair of equal modes for contract), operands with 3..5 "
        "entries of which two or more share the remaining subscripts (collide after the operation) and are stored "
        "non-adjacently, summing and cancelling, hitting at most half and more than half of the result cells (both "
        "sides of the densify switch), under all n! stored orders; a family `sptenmat_ops`: sparse matricized tensors built "
        "with copy=False over tshapes of order 1..3 (singleton modes, repeated and pairwise distinct extents, an empty row or "
        "column side), 0..6 stored (row, col) pairs of both signs under all n! stored orders: copy / __deepcopy__ / +M / -M / "
        "double / full / norm / nnz / to_sptensor / isequal against the model, the dense matrix reference and across orders; "
        "__setitem__ sequences of 1..3 assignments with key elements int / list / ndarray / slice (negative bounds, steps), "
        "values Python int / float / column / 1-d array / list, over stored pairs only, new pairs only, both, several pairs, "
        "(as separate classes) zero values and repeated cells, and malformed requests (non-tuple key, 3-tuple, index outside "
        "the matrix, negative index, value array of the wrong size, zero slice step) that must leave the object unchanged; "
        "non-trivial = at least two stored entries in a reordered "
        "operand and an accepted request; distinct = distinct case hash")
ASSUMPTIONS = [
    "values are small integers, so sums formed in different orders are the same double",
    "the plain constructor is given well-formed input (it stores what it is given; C06_ctor_keeps)",
    "sptenmat.__setitem__ is modelled for Python int / float values and 1-d / column arrays with float stored values "
    "(NumPy integer scalars and matrix-shaped value arrays are refused or mis-read by the code: input validation, C19)",
]
EXHAUSTIVE = {"quick": False, "thorough": False}
# functions mirrored by the hand-written model Ops/SptenmatOps.lean (advisory drift detection)
ANCHORS = [("pyttb/sptenmat.py", "sptenmat.copy"), ("pyttb/sptenmat.py", "sptenmat.__deepcopy__"),
           ("pyttb/sptenmat.py", "sptenmat.__pos__"), ("pyttb/sptenmat.py", "sptenmat.__neg__"),
           ("pyttb/sptenmat.py", "sptenmat.__setitem__"), ("pyttb/sptenmat.py", "sptenmat.double"),
           ("pyttb/sptenmat.py", "sptenmat.full"), ("pyttb/sptenmat.py", "sptenmat.norm"), ("pyttb/sptenmat.py", "sptenmat.nnz"),
           ("pyttb/sptenmat.py", "sptenmat.isequal"), ("pyttb/sptenmat.py", "sptenmat.to_sptensor"),
           ("pyttb/sptenmat.py", "sptenmat.shape"), ("pyttb/sptensor.py", "sptensor.copy"),
           ("pyttb/sptensor.py", "sptensor.__deepcopy__")]


# ----------------------------------------------------------------------------
# canonical forms and inspection
# ----------------------------------------------------------------------------
def wf_sptensor(x, no_zero):
    subs, vals = np.asarray(x.subs), np.asarray(x.vals)
    n = subs.shape[0] if subs.size else 0
    if vals.size != n:
        return f"{vals.size} values for {n} stored subscripts"
    if x.nnz != n:
        return f"nnz reports {x.nnz} for {n} stored subscripts"
    if not all(isinstance(s, (int, np.integer)) and s > 0 for s in x.shape):
        return f"shape {x.shape} is not a tuple of positive integers"
    if n == 0:
        return None
    if subs.ndim != 2 or subs.shape[1] != len(x.shape):
        return f"subs has shape {subs.shape} for a {len(x.shape)}-way tensor"
    if vals.shape != (n, 1):
        return f"vals has shape {vals.shape} for {n} subscripts"
    if not np.issubdtype(subs.dtype, np.integer):
        return f"subscripts have dtype {subs.dtype}"
    if (subs < 0).any() or (subs >= np.array(x.shape)).any():
        return "a subscript is outside the shape"
    if len({tuple(r) for r in subs.tolist()}) != n:
        return "a subscript is stored twice"
    if no_zero and (vals == 0).any():
        return "an explicit zero is stored"
    return None


def wf_sptenmat(m, no_zero):
    subs, vals = np.asarray(m.subs), np.asarray(m.vals)
    n = subs.shape[0] if subs.size else 0
    if vals.size != n:
        return f"{vals.size} values for {n} stored subscripts"
    if m.nnz != n:
        return f"nnz reports {m.nnz} for {n} stored subscripts"
    dims = sorted(list(np.asarray(m.rdims).tolist()) + list(np.asarray(m.cdims).tolist()))
    if dims != list(range(len(m.tshape))):
        return f"rdims {m.rdims} and cdims {m.cdims} do not partition the modes"
    if n == 0:
        return None
    if subs.ndim != 2 or subs.shape[1] != 2:
        return f"subs has shape {subs.shape}"
    if vals.shape != (n, 1):
        return f"vals has shape {vals.shape} for {n} subscripts"
    if not np.issubdtype(subs.dtype, np.integer):
        return f"subscripts have dtype {subs.dtype}"
    if (subs < 0).any() or (subs >= np.array(m.shape)).any():
        return "a subscript is outside the matrix"
    if len({tuple(r) for r in subs.tolist()}) != n:
        return "a subscript is stored twice"
    if no_zero and (vals == 0).any():
        return "an explicit zero is stored"
    return None


def sptenmat_j(m):
    subs, vals = np.asarray(m.subs), np.asarray(m.vals)
    return {"tshape": [int(x) for x in m.tshape], "rdims": jval(np.asarray(m.rdims)), "cdims": jval(np.asarray(m.cdims)),
            "subs": [] if subs.size == 0 else jval(subs.astype(int)), "vals": [] if vals.size == 0 else jval(vals.reshape(-1))}


def sorted_entries(subs, vals):
    return [[list(k), v] for k, v in sorted(((tuple(r), jval(v)) for r, v in zip(subs, vals)), key=lambda e: (e[0], str(e[1])))]


def stored(r):
    """canonical stored form (order kept)."""
    if isinstance(r, ttb.sptensor):
        return {"sp": sparse_j(r)}
    if isinstance(r, ttb.sptenmat):
        return {"spm": sptenmat_j(r)}
    if isinstance(r, ttb.tensor):
        return {"dn": dense_j(r)}
    if isinstance(r, ttb.tenmat):
        return {"tenmat": {"tshape": list(r.tshape), "data": jval(np.asarray(r.data))}}
    if isinstance(r, np.ndarray):
        return {"arr": {"shape": list(r.shape), "data": jval(r.flatten(order="F"))}}
    if isinstance(r, (tuple, list)):
        return {"tuple": [stored(x) for x in r]}
    if isinstance(r, dict):
        return {"dict": {str(k): stored(v) for k, v in r.items()}}
    if isinstance(r, (bool, np.bool_)):
        return {"bool": bool(r)}
    if isinstance(r, (int, float, np.integer, np.floating)):
        return {"num": jval(r)}
    if hasattr(r, "toarray"):
        return {"arr": {"shape": list(r.shape), "data": jval(np.asarray(r.toarray()).flatten(order="F"))}}
    return {"repr": repr(r)[:200]}


def denote(r):
    """order-free canonical form."""
    if isinstance(r, ttb.sptensor):
        j = sparse_j(r)
        return {"sp": {"shape": j["shape"], "entries": sorted_entries(j["subs"], j["vals"])}}
    if isinstance(r, ttb.sptenmat):
        j = sptenmat_j(r)
        return {"spm": {**{k: j[k] for k in ("tshape", "rdims", "cdims")}, "entries": sorted_entries(j["subs"], j["vals"])}}
    if isinstance(r, (tuple, list)):
        return {"tuple": [denote(x) for x in r]}
    return stored(r)


def sparse_objects(r):
    if isinstance(r, (ttb.sptensor, ttb.sptenmat)):
        yield r
    elif isinstance(r, (tuple, list)):
        for x in r:
            yield from sparse_objects(x)


def reorder(ent, perm):
    return {"subs": [ent["subs"][k] for k in perm], "vals": [ent["vals"][k] for k in perm]}


def orders_of(n, rng):
    if n <= 4:
        return [list(p) for p in itertools.permutations(range(n))]
    out = [list(range(n)), list(range(n))[::-1]]
    while len(out) < 24:
        p = list(range(n))
        rng.shuffle(p)
        out.append(p)
    return out


def order_pairs(na, nb, rng):
    oa, ob = orders_of(na, rng), orders_of(nb, rng)
    if len(oa) * len(ob) <= 36:
        return [(a, b) for a in oa for b in ob]
    out = [(a, ob[0]) for a in oa] + [(oa[0], b) for b in ob[1:]]
    for _ in range(12):
        out.append((rng.choice(oa), rng.choice(ob)))
    return out


def mk(shape, ent):
    return gen.mk_sptensor(ttb, shape, ent["subs"], ent["vals"])


def rand_entries(rng, shape, kmax=6, klass=None):
    cells = gen.all_subs(shape)
    klass = klass or rng.choice(["empty", "one", "some", "some", "some", "all"])
    k = {"empty": 0, "one": 1, "all": min(len(cells), kmax)}.get(klass, rng.randint(2, max(2, min(kmax, len(cells)))))
    k = min(k, len(cells))
    subs = rng.sample(cells, k)
    return {"subs": subs, "vals": [rng.choice(VALUES) for _ in subs]}


def small_shape(rng, nmin=1, nmax=4, cells=24):
    while True:
        s = gen.shape(rng, nmin, nmax, 4)
        if gen.numel(s) <= cells:
            return s


# ----------------------------------------------------------------------------
# the operations: name -> (generator of parameters, runner, model request, flags)
# a case is {"op", "shape", "a", ["b"], "p": params}
# ----------------------------------------------------------------------------
BIN = {
    "add": lambda a, b: a + b, "sub": lambda a, b: a - b, "mul": lambda a, b: a * b, "div": lambda a, b: a / b,
    "and": lambda a, b: a.logical_and(b), "or": lambda a, b: a.logical_or(b), "xor": lambda a, b: a.logical_xor(b),
    "eq": operator.eq, "ne": operator.ne, "lt": operator.lt, "le": operator.le, "gt": operator.gt, "ge": operator.ge,
}
ELEMFUNS = {"neg": lambda v: -v, "sqm1": lambda v: v * v - 1, "plus1": lambda v: v + 1, "half": lambda v: v / 2}


def dense_of(shape, ent):
    a = np.zeros(tuple(shape))
    for s, v in zip(ent["subs"], ent["vals"]):
        a[tuple(s)] += v
    return ttb.tensor(a.copy(order="F"), copy=False)


def Aj(c, a):
    return {"shape": c["shape"], **a}


def Xj(c, a):
    return {"kind": "sparse", "shape": c["shape"], **a}


def matarg(M):
    return {"rows": M, "m": len(M), "n": len(M[0]) if M else 0}


def m_ttv(c, a, b):
    p = c["p"]
    dims = p["dims"] if "dims" in p else [p["d"]]
    vs = p["vs"] if "vs" in p else [p["v"]]
    return {"op": "c02_ttv", "X": Xj(c, a), "vs": vs, "dims": dims, "excl": None, "sel": sorted(dims),
            "ws": [vs[dims.index(d)] for d in sorted(dims)]}


def m_ttm(c, a, b):
    p = c["p"]
    dims = p["dims"] if "dims" in p else [p["d"]]
    Ms = [matarg(M) for M in (p["Ms"] if "Ms" in p else [p["M"]])]
    return {"op": "c02_ttm", "X": Xj(c, a), "Ms": Ms, "dims": dims, "excl": None, "tr": False, "sel": sorted(dims),
            "msel": [Ms[dims.index(d)] for d in sorted(dims)]}


def m_collapse(c, a, b):
    p = c["p"]
    return {"op": "c02_collapse", "X": Xj(c, a), "dims": p["dims"], "fun": p["f"], "sel": sorted(p["dims"])}


def m_scale(kind):
    def f(c, a, b):
        p = c["p"]
        F = {"kind": "array", "data": p["v"]} if kind == "array" else {"kind": "dense", "shape": [len(p["v"])], "data": p["v"]}
        return {"op": "c02_scale", "X": Xj(c, a), "dims": [p["d"]], "sel": [p["d"]], "F": F}
    return f


FULL = {"slice": [None, None, None]}


def m_index(kind):
    def f(c, a, b):
        p, N = c["p"], len(c["shape"])
        if kind == "slices":
            op = {"op": "read", "key": {"k": "region", "parts": [{"slice": [lo, None, None]} for lo in p["lo"]]}}
        elif kind == "subs":
            op = {"op": "read", "key": {"k": "subs", "rows": p["q"]}}
        elif kind == "int":
            op = {"op": "read", "key": {"k": "region", "parts": [{"int": p["k"]} if m == p["n"] else FULL for m in range(N)]}}
        elif kind == "list":
            op = {"op": "read", "key": {"k": "region", "parts": [{"list": p["ks"]} if m == p["n"] else FULL for m in range(N)]}}
        elif kind == "set:scalar":
            op = {"op": "write", "key": {"k": "region", "parts": [{"int": x} for x in p["i"]]}, "rhs": {"r": "scalar", "v": p["v"]}}
        else:  # set:subs
            op = {"op": "write", "key": {"k": "subs", "rows": p["q"]}, "rhs": {"r": "col", "v": p["v"]}}
        return {"op": "c04_sparse", "start": Aj(c, a), "ops": [op]}
    return f


def unwrap_model(m):
    """replies of the C02 (model + spec) and C04 (history) driver ops in the {"ok": ...} / reject form."""
    if not isinstance(m, dict):
        return m
    if "model" in m:
        return m["model"]
    if "steps" in m:
        st = m["steps"][0]
        out = st["out"]
        if out.get("reject"):
            return {"reject": True}
        if out.get("written"):
            return {"ok": {"sp": st["state"]}}
        if "sptensor" in out:
            return {"ok": {"sp": out["sptensor"]}}
        if "scalar" in out:
            return {"ok": {"num": out["scalar"]}}
        if "vec" in out:
            return {"ok": {"arr": {"shape": [len(out["vec"]), 1], "data": out["vec"]}}}
    return m


class Op:
    def __init__(self, name, params, run, model=None, two=False, no_zero=True, public=None, nmin=1):
        self.name, self.params, self.run, self.model, self.two, self.no_zero = name, params, run, model, two, no_zero
        self.public = public or name
        self.nmin = nmin


def _none(rng, shape):
    return {}


def _scalar(rng, shape):
    return {"c": rng.choice([-2, -1, 0, 1, 2, 0.0, 2.0])}


def _dims1(rng, shape):
    return {"d": rng.randrange(len(shape))}


OPS = []
for _op in BIN:
    OPS.append(Op(f"{_op}:sparse", _none, (lambda A, B, p, f=BIN[_op]: f(A, B)),
                  (lambda c, a, b, o=_op: {"op": "sp_binop", "name": o, "A": Aj(c, a), "rhs": {"kind": "sparse", "v": Aj(c, b)}}),
                  two=True, public=_op))
    OPS.append(Op(f"{_op}:scalar", _scalar, (lambda A, B, p, f=BIN[_op]: f(A, p["c"])),
                  (lambda c, a, b, o=_op: {"op": "sp_binop", "name": o, "A": Aj(c, a), "rhs": {"kind": "scalar", "v": jval(c["p"]["c"])}}),
                  public=_op))
    OPS.append(Op(f"{_op}:dense", (lambda rng, shape: {"d": rand_entries(rng, shape, 24)}),
                  (lambda A, B, p, f=BIN[_op]: f(A, dense_of(A.shape, p["d"]))),
                  (lambda c, a, b, o=_op: {"op": "sp_binop", "name": o, "A": Aj(c, a), "rhs": {"kind": "dense", "v": {
                      "shape": c["shape"], "data": jval(np.asarray(dense_of(c["shape"], c["p"]["d"]).data).flatten(order="F"))}}}),
                  public=_op))
OPS += [
    Op("neg", _none, lambda A, B, p: -A, lambda c, a, b: {"op": "sp_unop", "name": "neg", "A": Aj(c, a)}),
    Op("pos", _none, lambda A, B, p: +A, lambda c, a, b: {"op": "sp_unop", "name": "pos", "A": Aj(c, a)}),
    Op("logical_not", _none, lambda A, B, p: A.logical_not(), lambda c, a, b: {"op": "sp_unop", "name": "not", "A": Aj(c, a)}),
    Op("ones", _none, lambda A, B, p: A.ones(), lambda c, a, b: {"op": "sp_unop", "name": "ones", "A": Aj(c, a)}),
    Op("elemfun", lambda rng, s: {"f": rng.choice(list(ELEMFUNS))}, lambda A, B, p: A.elemfun(ELEMFUNS[p["f"]]),
       lambda c, a, b: {"op": "sp_elemfun", "A": Aj(c, a), "f": c["p"]["f"]}),
    Op("rmul", _scalar, lambda A, B, p: p["c"] * A,
       lambda c, a, b: {"op": "sp_binop", "name": "mul", "A": Aj(c, a), "rhs": {"kind": "scalar", "v": jval(c["p"]["c"])}}),
    Op("rtruediv", _scalar, lambda A, B, p: p["c"] / A, lambda c, a, b: {"op": "sp_rdiv", "A": Aj(c, a), "c": jval(c["p"]["c"])}),
    Op("mul:ktensor", lambda rng, s: {"K": {"weights": [rng.choice([-1, 1, 2]) for _ in range(2)],
                                             "factors": [[[rng.choice([-1, 0, 1, 2]) for _ in range(2)] for _ in range(m)] for m in s]}},
       lambda A, B, p: A * gen.mk_ktensor(ttb, p["K"]["weights"], p["K"]["factors"]),
       lambda c, a, b: {"op": "sp_mulk", "A": Aj(c, a), "K": c["p"]["K"]}, public="mul"),
    Op("extract", lambda rng, s: {"q": [rng.choice(gen.all_subs(s)) for _ in range(rng.randint(1, 4))]},
       lambda A, B, p: A.extract(np.array(p["q"], dtype=int)), None),
    Op("mask", _none, lambda A, B, p: A.mask(B), None, two=True),
    Op("copy", _none, lambda A, B, p: A.copy(), lambda c, a, b: {"op": "sp_copy", "S": Aj(c, a)}, no_zero=True),
    Op("deepcopy", _none, lambda A, B, p: _copy.deepcopy(A), lambda c, a, b: {"op": "sp_copy", "S": Aj(c, a)}, no_zero=True,
       public="__deepcopy__"),
    Op("getitem:mixed", lambda rng, s: {"parts": [rand_key_part(rng, e) for e in s]},
       lambda A, B, p: A[_region_key3(p["parts"])],
       lambda c, a, b: {"op": "c04_sparse", "start": Aj(c, a),
                        "ops": [{"op": "read", "key": {"k": "region", "parts": p_parts3(c["p"]["parts"])}}]},
       public="__getitem__"),
    Op("full", _none, lambda A, B, p: A.full(), None),
    Op("double", _none, lambda A, B, p: A.double(), None),
    Op("norm", _none, lambda A, B, p: A.norm(), None),
    Op("innerprod", _none, lambda A, B, p: A.innerprod(B), None, two=True),
    Op("innerprod:dense", lambda rng, s: {"d": rand_entries(rng, s, 24)}, lambda A, B, p: A.innerprod(dense_of(A.shape, p["d"])), None),
    Op("isequal", _none, lambda A, B, p: A.isequal(B), None, two=True),
    Op("mttkrp", lambda rng, s: {"n": rng.randrange(len(s)), "U": [[[rng.choice([-1, 0, 1, 2]) for _ in range(2)] for _ in range(m)] for m in s]},
       lambda A, B, p: A.mttkrp([np.array(u, dtype=float) for u in p["U"]], p["n"]), None, nmin=2),
    Op("collapse", lambda rng, s: {"dims": sorted(rng.sample(range(len(s)), rng.randint(1, len(s)))), "f": rng.choice(["sum", "max"])},
       lambda A, B, p: A.collapse(np.array(p["dims"]), sum if p["f"] == "sum" else np.max), m_collapse),
    Op("permute", lambda rng, s: {"order": gen.perm(rng, len(s))}, lambda A, B, p: A.permute(np.array(p["order"])),
       lambda c, a, b: {"op": "sp_permute", "S": Aj(c, a), "order": c["p"]["order"]}),
    Op("squeeze", _none, lambda A, B, p: A.squeeze(), lambda c, a, b: {"op": "sp_squeeze", "S": Aj(c, a)}),
    Op("scale:vector", lambda rng, s: (lambda d: {"d": d, "v": [rng.choice([-1, 0, 1, 2]) for _ in range(s[d])]})(rng.randrange(len(s))),
       lambda A, B, p: A.scale(np.array(p["v"], dtype=float), p["d"]), m_scale("array"), public="scale"),
    Op("scale:tensor", lambda rng, s: (lambda d: {"d": d, "v": [rng.choice([-1, 0, 1, 2]) for _ in range(s[d])]})(rng.randrange(len(s))),
       lambda A, B, p: A.scale(ttb.tensor(np.array(p["v"], dtype=float)), np.array([p["d"]])), m_scale("dense"), public="scale"),
    Op("squash", _none, lambda A, B, p: A.squash(), lambda c, a, b: {"op": "sp_squash", "A": Aj(c, a)}, nmin=1),
    Op("ttv", lambda rng, s: (lambda d: {"d": d, "v": [rng.choice([-1, 0, 1, 2]) for _ in range(s[d])]})(rng.randrange(len(s))),
       lambda A, B, p: A.ttv(np.array(p["v"], dtype=float), p["d"]), m_ttv),
    Op("ttm", lambda rng, s: (lambda d: {"d": d, "M": [[rng.choice([-1, 0, 1, 2]) for _ in range(s[d])] for _ in range(rng.randint(1, 3))]})(rng.randrange(len(s))),
       lambda A, B, p: A.ttm(np.array(p["M"], dtype=float), p["d"]), m_ttm),
    Op("getitem:slices", lambda rng, s: {"lo": [rng.randrange(m) for m in s]},
       lambda A, B, p: A[tuple(slice(lo, None) for lo in p["lo"])], m_index("slices"), public="__getitem__"),
    Op("getitem:subs", lambda rng, s: {"q": [rng.choice(gen.all_subs(s)) for _ in range(rng.randint(1, 4))]},
       lambda A, B, p: A[np.array(p["q"], dtype=int)], m_index("subs"), public="__getitem__"),
    Op("setitem:scalar", lambda rng, s: {"i": rng.choice(gen.all_subs(s)), "v": rng.choice([0, 5, -3])},
       lambda A, B, p: _setitem(A, tuple(p["i"]), p["v"]), m_index("set:scalar"), public="__setitem__"),
    Op("setitem:subs", lambda rng, s: (lambda q: {"q": q, "v": [rng.choice([0, 7, -4]) for _ in q]})(
        [list(t) for t in {tuple(rng.choice(gen.all_subs(s))) for _ in range(rng.randint(1, 3))}]),
       lambda A, B, p: _setitem(A, np.array(p["q"], dtype=int), np.array(p["v"], dtype=float).reshape(-1, 1)), m_index("set:subs"), public="__setitem__"),
    Op("to_sptenmat", lambda rng, s: (lambda o, k: {"r": o[:k], "c": o[k:]})(gen.perm(rng, len(s)), rng.randint(0, len(s))),
       lambda A, B, p: A.to_sptenmat(np.array(p["r"], dtype=int), np.array(p["c"], dtype=int)),
       lambda c, a, b: {"op": "to_sptenmat", "S": Aj(c, a), "rdims": c["p"]["r"], "cdims": c["p"]["c"]}),
    Op("sptenmat.to_sptensor", lambda rng, s: (lambda o, k: {"r": o[:k], "c": o[k:]})(gen.perm(rng, len(s)), rng.randint(0, len(s))),
       lambda A, B, p: A.to_sptenmat(np.array(p["r"], dtype=int), np.array(p["c"], dtype=int)).to_sptensor(), None,
       public="to_sptensor"),
    Op("sptenmat.neg_copy", lambda rng, s: {"r": [0]},
       lambda A, B, p: (-A.to_sptenmat(np.array(p["r"], dtype=int)), +A.to_sptenmat(np.array(p["r"], dtype=int)),
                        A.to_sptenmat(np.array(p["r"], dtype=int)).copy()), None, public="sptenmat.__neg__"),
    Op("sptenmat.setitem", lambda rng, s: {"i": rng.randrange(s[0]), "j": rng.randrange(gen.numel(s[1:])), "v": rng.choice([5, -3])},
       lambda A, B, p: _spm_setitem(A, p), None, public="sptenmat.__setitem__"),
    Op("sptenmat.from_array", _none,
       lambda A, B, p: ttb.sptenmat.from_array(A.to_sptenmat(np.array([0], dtype=int)).double(), np.array([0], dtype=int),
                                               np.arange(1, len(A.shape), dtype=int), tuple(A.shape)), None,
       public="sptenmat.from_array"),
    Op("ttv:dims", None, lambda A, B, p: A.ttv([np.array(v, dtype=float) for v in p["vs"]], np.array(p["dims"], dtype=int)),
       m_ttv, public="ttv"),
    Op("ttm:dims", None, lambda A, B, p: A.ttm([np.array(M, dtype=float) for M in p["Ms"]], np.array(p["dims"], dtype=int)),
       m_ttm, public="ttm"),
    Op("setitem:region", None, lambda A, B, p: _setitem(A, _region_key(p["parts"]), p["v"]), lambda c, a, b: {
        "op": "c04_sparse", "start": Aj(c, a),
        "ops": [{"op": "write", "key": {"k": "region", "parts": p_parts(c["p"]["parts"])}, "rhs": {"r": "scalar", "v": c["p"]["v"]}}]},
       public="__setitem__"),
    Op("getitem:int", None, lambda A, B, p: A[_key_at(A, p["n"], p["k"])], m_index("int"), public="__getitem__"),
    Op("getitem:list", None, lambda A, B, p: A[_key_at(A, p["n"], list(p["ks"]))], m_index("list"), public="__getitem__"),
    Op("sptenmat.full_norm", lambda rng, s: {"r": [0]},
       lambda A, B, p: (A.to_sptenmat(np.array(p["r"], dtype=int)).full(), A.to_sptenmat(np.array(p["r"], dtype=int)).norm(),
                        A.to_sptenmat(np.array(p["r"], dtype=int)).double()), None, public="sptenmat.full"),
]


def _key_at(A, n, k):
    return tuple(k if m == n else slice(None) for m in range(len(A.shape)))


def _region_key(parts):
    """parts: per mode ["int", k] | ["slice", lo, hi] | ["list", [..]]"""
    key = []
    for q in parts:
        if q[0] == "int":
            key.append(int(q[1]))
        elif q[0] == "slice":
            key.append(slice(q[1], q[2]))
        else:
            key.append(list(q[1]))
    return tuple(key)


def p_parts(parts):
    out = []
    for q in parts:
        if q[0] == "int":
            out.append({"int": q[1]})
        elif q[0] == "slice":
            out.append({"slice": [q[1], q[2], None]})
        else:
            out.append({"list": q[1]})
    return out


def rand_key_part(rng, ext):
    """one element of a region key: ["int", k] (also negative) | ["slice", a, b, c] | ["list", [...]] (entries may repeat)"""
    k = rng.choice(["int", "neg", "slice", "slice", "list", "list", "full"])
    if k == "int":
        return ["int", rng.randrange(ext)]
    if k == "neg":
        return ["int", -rng.randint(1, ext)]
    if k == "full":
        return ["slice", None, None, None]
    if k == "slice":
        return ["slice", rng.choice([None, 0, 1, -1, -2, ext, ext + 1]), rng.choice([None, 0, 1, 2, -1, ext, ext + 2]),
                rng.choice([None, 1, 2, -1, -2])]
    return ["list", [rng.randrange(ext) for _ in range(rng.randint(1, 3))]]


def _region_key3(parts):
    return tuple(int(q[1]) if q[0] == "int" else slice(q[1], q[2], q[3]) if q[0] == "slice" else list(q[1]) for q in parts)


def p_parts3(parts):
    return [{"int": q[1]} if q[0] == "int" else {"slice": [q[1], q[2], q[3]]} if q[0] == "slice" else {"list": q[1]}
            for q in parts]


def _spm_setitem(A, p):
    M = A.to_sptenmat(np.array([0], dtype=int))
    M[p["i"], p["j"]] = p["v"]
    return M


def _setitem(A, key, val):
    A = A.copy()
    A[key] = val
    return A


def _contract_params(rng, s):
    return {}


class OrderIndependence(Family):
    name = "order_independence"
    theorems = ("C06_denote_perm", "C06_wf_perm", "C06_nnz_reports", "C06_no_explicit_zero", "C06_wf_unary",
                "C06_wf_add_sub", "C06_wf_mul", "C06_wf_div", "C06_wf_logic", "C06_wf_eq_ne", "C06_wf_lt", "C06_wf_le",
                "C06_wf_gt", "C06_wf_ge", "C06_wf_shape_ops", "C06_wf_conversions", "C06_perm_add", "C06_perm_sub",
                "C06_perm_mul", "C06_perm_div", "C06_perm_and", "C06_perm_or", "C06_perm_xor", "C06_perm_eq",
                "C06_perm_ne", "C06_perm_lt", "C06_perm_le", "C06_perm_gt", "C06_perm_ge", "C06_perm_unary",
                "C06_perm_lookups", "C06_perm_shape_ops", "C06_same_array_same_entries", "C06_wf_ttv", "C06_perm_ttv",
                "C06_perm_ttv_core", "C06_wf_collapse", "C06_perm_collapse", "C06_wf_contract", "C06_perm_contract",
                "C06_wf_perm_scale", "C06_wf_ttm", "C06_perm_ttm", "C06_wf_squash", "C06_perm_squash", "C06_perm_indexing",
                "C06_wf_getitem_region", "C06_wf_sptensor_copy", "C06_perm_sptensor_copy")

    def gen(self, rng, tier):
        out = []
        reps = 3 if tier == "quick" else 50
        for op in OPS:
            if op.params is None:
                continue
            for _ in range(reps):
                s = small_shape(rng, op.nmin)
                a = rand_entries(rng, s, 5 if op.two else 6)
                c = {"op": op.name, "shape": s, "a": a, "p": op.params(rng, s), "seed": rng.getrandbits(32)}
                if op.name == "collapse" and not a["subs"]:
                    c["p"]["f"] = "sum"   # np.max of no values raises inside the user's reducer: not a sparse-tensor matter
                if op.two:
                    c["b"] = rand_entries(rng, s, 4)
                    if op.name == "isequal" and rng.random() < 0.5:
                        c["b"] = reorder(a, gen.perm(rng, len(a["subs"])))
                out.append(c)
        # contract needs two modes of equal extent
        for _ in range(reps * 2):
            m = rng.randint(1, 3)
            extra = [rng.randint(1, 3) for _ in range(rng.randint(0, 2))]
            s = [m, m] + extra
            order = gen.perm(rng, len(s))
            s2 = [s[k] for k in order]
            i0, i1 = order.index(0), order.index(1)
            out.append({"op": "contract", "shape": s2, "a": rand_entries(rng, s2, 6), "p": {"i": i0, "j": i1}, "seed": rng.getrandbits(32)})
        # reshape: every factorisation target of small shapes
        for _ in range(reps * 2):
            s = small_shape(rng, 1, 3)
            n = gen.numel(s)
            targets = [t for t in gen.all_shapes(n, 3) if gen.numel(t) == n]
            out.append({"op": "reshape", "shape": s, "a": rand_entries(rng, s, 6), "p": {"t": rng.choice(targets)}, "seed": rng.getrandbits(32)})
        return out

    def run_one(self, c, a, b):
        s = c["shape"]
        A = mk(s, a)
        B = mk(s, b) if b is not None else None
        if c["op"] == "contract":
            return call(lambda: A.contract(c["p"]["i"], c["p"]["j"]))
        if c["op"] == "reshape":
            return call(lambda: A.reshape(tuple(c["p"]["t"])))
        op = OPMAP[c["op"]]
        return call(lambda: op.run(A, B, c["p"]))

    def model_req(self, c, a, b):
        if c["op"] == "reshape":
            return {"op": "sp_reshape", "S": Aj(c, a), "shape": c["p"]["t"], "old_modes": None}
        if c["op"] == "contract":
            return {"op": "c02_contract", "X": Xj(c, a), "a": c["p"]["i"], "b": c["p"]["j"]}
        op = OPMAP[c["op"]]
        return op.model(c, a, b) if op.model else None

    def evaluate(self, cases):
        import random
        plans = []
        reqs = []
        for c in cases:
            rng = random.Random(c["seed"])
            a, b = c["a"], c.get("b")
            if b is not None:
                pairs = order_pairs(len(a["subs"]), len(b["subs"]), rng)
            else:
                pairs = [(o, None) for o in orders_of(len(a["subs"]), rng)]
            runs = []
            for oa, ob in pairs:
                ar = reorder(a, oa)
                br = reorder(b, ob) if b is not None else None
                impl = self.run_one(c, ar, br)
                rq = self.model_req(c, ar, br)
                if rq is not None:
                    reqs.append(rq)
                runs.append((oa, ob, impl, rq is not None))
            plans.append(runs)
        models = iter(drive(reqs))
        out = []
        for c, runs in zip(cases, plans):
            opname = c["op"]
            op = OPMAP.get(opname)
            no_zero = True if op is None else op.no_zero
            modelled = (op is not None and op.model is not None) or opname in ("reshape", "contract")
            tags = [opname, f"orders{min(len(runs), 99)}", f"nnzA{len(c['a']['subs'])}", "modelled" if modelled else "impl-only"]
            first = None
            verdict = None
            for oa, ob, impl, has_model in runs:
                m = next(models) if has_model else None
                m = unwrap_model(m)
                if verdict is not None:
                    continue
                where = f"{opname} with A stored in order {oa}" + (f", B in order {ob}" if ob is not None else "")
                if "ok" not in impl:
                    # a request may be invalid for every order (then the model, if any, must reject too)
                    if first is None:
                        first = ("reject", None)
                    if first[0] != "reject":
                        verdict = Verdict("violation", f"{where}: raised {impl.get('exc')}: {impl.get('msg')} although another order is accepted", impl, m, None, tags)
                    elif m is not None and "ok" in m:
                        verdict = Verdict("violation", f"{where}: raised {impl.get('exc')}: {impl.get('msg')} on a request the model answers", impl, m, None, tags)
                    continue
                r = impl["ok"]
                for x in sparse_objects(r):
                    p = wf_sptensor(x, no_zero) if isinstance(x, ttb.sptensor) else wf_sptenmat(x, no_zero)
                    if p:
                        verdict = Verdict("violation", f"{where}: returned object not well-formed: {p}", stored(r), m, None, tags)
                        break
                if verdict is not None:
                    continue
                d = denote(r)
                if first is None:
                    first = ("ok", d)
                elif first[0] == "reject":
                    verdict = Verdict("violation", f"{where}: accepted although another order raised", stored(r), m, None, tags)
                    continue
                elif not deep_eq(d, first[1]) and opname != "mask":
                    verdict = Verdict("violation", f"{where}: result differs from the result for another stored order", stored(r), m, first[1], tags)
                    continue
                elif opname == "mask":
                    # values follow the stored order of the mask: compare as a map from the mask's subscripts
                    pass
                if m is not None:
                    st = stored(r)
                    mm = m.get("ok") if isinstance(m, dict) else None
                    if mm is None:
                        verdict = Verdict("corr", f"{where}: the model rejects", st, m, None, tags)
                    else:
                        mm = norm_model(opname, mm)
                        if not deep_eq(st, mm):
                            verdict = Verdict("corr", f"{where}: stored form differs from the model's", st, m, None, tags)
            if opname == "mask" and verdict is None and first is not None and first[0] == "ok":
                verdict = self.check_mask(c, runs, tags)
            if first is not None and first[0] == "ok" and isinstance(first[1], dict):
                tags.append("result:" + next(iter(first[1])))
            elif first is not None:
                tags.append("result:rejected")
            for t in c.get("tags", []):
                tags.append(t)
            nontriv = first is not None and first[0] == "ok" and (len(c["a"]["subs"]) >= 2 or len(c.get("b", {"subs": []})["subs"]) >= 2)
            out.append(verdict or Verdict("ok", "", None, None, None, tags, nontriv))
        return out

    def check_mask(self, c, runs, tags):
        want = {tuple(s): v for s, v in zip(c["a"]["subs"], c["a"]["vals"])}
        for oa, ob, impl, _ in runs:
            vals = np.asarray(impl["ok"]).reshape(-1).tolist()
            wsubs = [c["b"]["subs"][k] for k in ob]
            if len(vals) != len(wsubs) or any(v != want.get(tuple(s), 0) for s, v in zip(wsubs, vals)):
                return Verdict("violation", f"mask with X in order {oa}, W in order {ob}: values are not X at W's stored subscripts",
                               stored(impl["ok"]), None, None, tags)
        return None

    def shrink(self, case):
        for side in ("a", "b"):
            if side not in case:
                continue
            ent = case[side]
            for k in range(len(ent["subs"])):
                yield {**case, side: {"subs": ent["subs"][:k] + ent["subs"][k + 1:], "vals": ent["vals"][:k] + ent["vals"][k + 1:]}}



# ----------------------------------------------------------------------------
# operands whose entries COLLIDE after the operation, stored non-adjacently
# ----------------------------------------------------------------------------
COLLISION_SHAPES = [[3, 5, 3], [2, 3, 4], [4, 2, 3], [3, 4], [4, 3], [2, 2, 3, 2], [2, 2, 2], [5]]


def mode_choices(N):
    """every "which modes" class: for N <= 3 every non-empty subset; for N = 4 first, each middle one, last,
    last two, last three, first two, every all-but-one, all."""
    if N <= 3:
        return [list(c) for r in range(1, N + 1) for c in itertools.combinations(range(N), r)]
    out = [[0], [1], [2], [3], [2, 3], [1, 2, 3], [0, 1], [0, 2], [0, 1, 2], [0, 1, 3], [0, 2, 3], [0, 1, 2, 3]]
    return out


def colliding_entries(shape, D, dense_side, cancel, vshift=0):
    """Stored entries (<= 5) with two (or more) entries that agree on the modes NOT in `D` and differ on a mode
    in `D`, placed so that the colliding entries are not adjacent in storage.  `dense_side`: more than half of
    the cells of the remaining shape are hit (the densify switch), otherwise at most half.  `cancel`: the
    colliding values sum to zero (under an all-ones weight)."""
    N = len(shape)
    rem = [m for m in range(N) if m not in D]
    remshape = [shape[m] for m in rem]
    rn = gen.numel(remshape)
    cells = gen.all_subs(remshape) if rem else [[]]
    # spread the groups over the remaining cells (not only the first ones)
    if dense_side:
        g = rn // 2 + 1
    else:
        g = max(1, min(2, rn // 2)) if rn >= 2 else 1
    g = min(g, 4, len(cells))
    step = max(1, len(cells) // g)
    groups = [cells[(k * step + (1 if len(cells) > g else 0)) % len(cells)] for k in range(g)]
    groups = [list(x) for x in dict.fromkeys(tuple(x) for x in groups)]
    lo = {m: 0 for m in D}
    hi = {m: shape[m] - 1 for m in D}
    mid = {m: (shape[m] - 1) // 2 for m in D}

    def full(gr, cd):
        out = [0] * N
        for m, x in zip(rem, gr):
            out[m] = x
        for m in D:
            out[m] = cd[m]
        return out
    subs = [full(gr, lo) for gr in groups]
    vals = [2 + vshift + k for k in range(len(groups))]
    if any(shape[m] > 1 for m in D):
        # second entry of group 0 goes LAST: with >= 2 groups it is not adjacent to the first
        subs.append(full(groups[0], hi))
        vals.append(-vals[0] if cancel else 3 + vshift)
        if len(subs) < 5 and len(groups) >= 2 and mid != lo and mid != hi:
            subs.append(full(groups[1], mid))
            vals.append(5 + vshift)
        elif len(subs) < 5 and len(groups) >= 2:
            subs.insert(1, full(groups[-1], hi))   # g_last@hi between g0@lo and g1@lo
            vals.insert(1, 7 + vshift)
    return {"subs": subs, "vals": vals}


def modes_class(N, D):
    if len(D) == N:
        return "modes:all"
    if len(D) == N - 1:
        return "modes:all-but-one"
    if D == list(range(N - len(D), N)):
        return "modes:last" if len(D) == 1 else "modes:last-several"
    if D == list(range(len(D))):
        return "modes:first" if len(D) == 1 else "modes:first-several"
    return "modes:middle" if len(D) == 1 else "modes:scattered"


def _remkey(r, D):
    return tuple(x for m, x in enumerate(r) if m not in D)


def has_collision(a, D):
    keys = [_remkey(r, D) for r in a["subs"]]
    return len(set(keys)) < len(keys)


def nonadjacent_collision(a, D):
    keys = [_remkey(r, D) for r in a["subs"]]
    for x in range(len(keys)):
        for y in range(x + 2, len(keys)):
            if keys[x] == keys[y] and any(keys[z] != keys[x] for z in range(x + 1, y)):
                return True
    return False


class Collisions(OrderIndependence):
    """ttv / ttm / collapse / contract / mttkrp / to_sptenmat / __getitem__ / squash / scale on operands with
    entries that collide after the operation and are stored non-adjacently; every "which modes" choice; both
    sides of the densify switch; cancelling and non-cancelling collisions; all stored orders."""
    name = "collisions"
    theorems = ("C06_aggregator_wf", "C06_perm_aggregator", "C06_denote_perm", "C06_wf_conversions", "C06_wf_ttv",
                "C06_perm_ttv", "C06_wf_collapse", "C06_perm_collapse", "C06_wf_contract", "C06_perm_contract",
                "C06_wf_ttm", "C06_perm_ttm", "C06_wf_perm_scale", "C06_wf_squash", "C06_perm_squash", "C06_perm_indexing")

    def gen(self, rng, tier):
        out = []
        shapes = COLLISION_SHAPES if tier == "thorough" else COLLISION_SHAPES[:6]
        vshift = rng.randint(0, 2)

        def add(op, s, a, p, tags=()):
            out.append({"op": op, "shape": s, "a": a, "p": p, "seed": 12345, "tags": list(tags)})

        for s in shapes:
            N = len(s)
            for D in mode_choices(N):
                rem = [m for m in range(N) if m not in D]
                for dense_side in (False, True):
                    for cancel in (False, True):
                        a = colliding_entries(s, D, dense_side, cancel, vshift)
                        if tier == "quick" and cancel and dense_side:
                            continue
                        T = [modes_class(N, D), "target>half" if dense_side else "target<=half", "cancelling" if cancel else "summing",
                             "collides" if has_collision(a, D) else "no-collision",
                             "nonadjacent" if nonadjacent_collision(a, D) else "adjacent-or-none"]
                        ones = [[1] * s[m] for m in D]
                        ramp = [[(k % 2) + 1 for k in range(s[m])] for m in D]
                        add("ttv:dims", s, a, {"dims": D, "vs": ones}, T)
                        if not cancel:
                            add("ttv:dims", s, a, {"dims": D, "vs": ramp}, T)
                        add("collapse", s, a, {"dims": D, "f": "sum"}, T)
                        if not cancel:
                            add("collapse", s, a, {"dims": D, "f": "max"}, T)
                        if len(D) <= 2:
                            for rows in (1, 2):
                                Ms = [[[1] * s[m] for _ in range(rows)] for m in D]
                                add("ttm:dims", s, a, {"dims": D, "Ms": Ms}, T)
                        if not cancel and not dense_side:
                            add("to_sptenmat", s, a, {"r": D, "c": rem}, T)
                            add("to_sptenmat", s, a, {"r": rem, "c": D}, T)
                            add("sptenmat.to_sptensor", s, a, {"r": D, "c": rem}, T)
                if N >= 2:
                    a = colliding_entries(s, D, False, False, vshift)
                    for n in D if len(D) == 1 else []:
                        add("mttkrp", s, a, {"n": n, "U": [[[1, (k % 2) + 1] for k in range(m)] for m in s]})
                        add("getitem:int", s, a, {"n": n, "k": 0})
                        add("getitem:int", s, a, {"n": n, "k": s[n] - 1})
                        add("getitem:list", s, a, {"n": n, "ks": sorted({0, s[n] - 1})})
                        if s[n] > 1:
                            # index lists that are NOT increasing (the renumbering of the kept subscripts must not
                            # assume an ordered list: seed C06y used a binary search there): rotated, reversed, a pair
                            add("getitem:list", s, a, {"n": n, "ks": list(range(1, s[n])) + [0]})
                            add("getitem:list", s, a, {"n": n, "ks": list(range(s[n] - 1, -1, -1))})
                            add("getitem:list", s, a, {"n": n, "ks": [s[n] - 1, 0]})
                        add("scale:vector", s, a, {"d": n, "v": [0 if k == 0 else k + 1 for k in range(s[n])]})
                    add("squash", s, a, {})
        # region writes with a non-zero scalar that GROW the shape (or add a trailing mode) AND cover stored entries
        for s in ([3, 4, 5], [2, 3], [4], [2, 2, 3]):
            N = len(s)
            cells = gen.all_subs(s)
            e = cells[(len(cells) // 3) | 1] if len(cells) > 1 else cells[0]        # the stored entry the region covers
            others = [c for c in (cells[0], cells[-1], cells[len(cells) // 2]) if c != e][:3]
            a = {"subs": [others[0], e] + others[1:], "vals": [2 + vshift, 3, 5, 7][:1 + len(others)]}
            for v in (2, -3):
                for m in range(N):
                    for how in ("slice", "list"):
                        for cover in ("int", "slice", "list"):
                            parts = []
                            for k in range(N):
                                if k == m:
                                    parts.append(["slice", e[k], s[k] + 2] if how == "slice" else ["list", [e[k], s[k], s[k] + 1]])
                                elif cover == "int":
                                    parts.append(["int", e[k]])
                                elif cover == "slice":
                                    parts.append(["slice", e[k], e[k] + 1])
                                else:
                                    parts.append(["list", [e[k]]])
                            add("setitem:region", s, a, {"parts": parts, "v": v}, ["grow:mode", "overlap", "how:" + how, "cover:" + cover])
                # a trailing new mode, the old cells sit at its coordinate 0
                for last in (["slice", 0, 2], ["int", 1], ["list", [0, 1]]):
                    parts = [["int", x] for x in e] + [last]
                    add("setitem:region", s, a, {"parts": parts, "v": v}, ["grow:newmode", "overlap" if last[0] != "int" else "beside"])
                    parts = [["slice", x, x + 1] for x in e] + [last]
                    add("setitem:region", s, a, {"parts": parts, "v": v}, ["grow:newmode", "overlap" if last[0] != "int" else "beside"])
                # growth in two modes at once over a block that holds two stored entries
                if N >= 2:
                    parts = [["slice", 0, s[0] + 1], ["slice", 0, s[1] + 1]] + [["slice", 0, s[k]] for k in range(2, N)]
                    add("setitem:region", s, a, {"parts": parts, "v": v}, ["grow:two", "overlap"])
        # contract: diagonal entries that share the remaining subscripts
        cshapes = [[3, 3, 2], [2, 3, 3], [3, 2, 3], [2, 2, 2, 3], [3, 3, 4]] + ([[2, 2], [2, 3, 2, 3]] if tier == "thorough" else [])
        for s in cshapes:
            N = len(s)
            for i, j in itertools.permutations(range(N), 2):
                if s[i] != s[j]:
                    continue
                rem = [m for m in range(N) if m not in (i, j)]
                remshape = [s[m] for m in rem]
                cells = gen.all_subs(remshape) if rem else [[]]
                for dense_side in (False, True):
                    g = (len(cells) // 2 + 1) if dense_side else max(1, min(2, len(cells) // 2))
                    g = min(g, 3, len(cells))
                    groups = [cells[(2 * k + 1) % len(cells)] for k in range(g)]
                    groups = [list(x) for x in dict.fromkeys(tuple(x) for x in groups)]

                    def full(gr, d, e):
                        o = [0] * N
                        for m, x in zip(rem, gr):
                            o[m] = x
                        o[i], o[j] = d, e
                        return o
                    for cancel in (False, True):
                        subs = [full(gr, 0, 0) for gr in groups]
                        vals = [2 + vshift + k for k in range(len(groups))]
                        subs.append(full(groups[0], s[i] - 1, 1 if s[i] > 1 else 0))   # off the diagonal (if possible)
                        vals.append(9)
                        subs.append(full(groups[0], s[i] - 1, s[i] - 1))                 # collides with the first
                        vals.append(-vals[0] if cancel else 4 + vshift)
                        seen, ss, vv = set(), [], []
                        for r, v in zip(subs, vals):
                            if tuple(r) not in seen:
                                seen.add(tuple(r))
                                ss.append(r)
                                vv.append(v)
                        add("contract", s, {"subs": ss, "vals": vv}, {"i": i, "j": j})
        return out


# ----------------------------------------------------------------------------
# every pair of distinct cells of small non-cubical shapes as operands of the aggregating paths
# ----------------------------------------------------------------------------
PAIR_SHAPES = [[2, 3], [2, 3, 4], [1, 2, 3, 4], [3, 2], [4, 3, 2]]
PAIR_OPS = {
    "add": (lambda a, b: a + b, np.add), "sub": (lambda a, b: a - b, np.subtract),
    "or": (lambda a, b: a.logical_or(b), lambda x, y: np.logical_or(x != 0, y != 0).astype(float)),
    "xor": (lambda a, b: a.logical_xor(b), lambda x, y: np.logical_xor(x != 0, y != 0).astype(float)),
    "and": (lambda a, b: a.logical_and(b), lambda x, y: np.logical_and(x != 0, y != 0).astype(float)),
}


def expand_any(r, shape):
    if isinstance(r, ttb.sptensor):
        a = np.zeros(tuple(shape))
        if np.asarray(r.subs).size:
            for sub, v in zip(np.asarray(r.subs).tolist(), np.asarray(r.vals).reshape(-1).tolist()):
                a[tuple(int(k) for k in sub)] += v
        return a
    return np.array(r.data, dtype=float)


class CellPairs(Family):
    """For small NON-cubical shapes whose extents differ (a later mode larger than an earlier one and the
    reverse), EVERY pair of distinct cells (and a sample of triples): as the rows of one from_aggregator call
    (sum / max / len, every order of the rows), and split over the two operands of S+T, S-T, logical_or,
    logical_xor, logical_and (and both in one operand, every stored order).  Each result is compared with the
    dense reference and across orders, and inspected for well-formedness: two different subscripts must never
    be merged, whatever linearisation the code uses internally."""
    name = "cell_pairs"
    theorems = ("C06_aggregator_wf", "C06_perm_aggregator", "C06_perm_add", "C06_perm_sub", "C06_perm_or",
                "C06_perm_xor", "C06_perm_and")

    def gen(self, rng, tier):
        out = []
        shapes = PAIR_SHAPES[:3] if tier == "quick" else PAIR_SHAPES
        va, vb, vc = rng.choice([(2, 3, 5), (1, -2, 4), (3, 1, -1)])
        for s in shapes:
            cells = gen.all_subs(s)
            for x in range(len(cells)):
                for y in range(x + 1, len(cells)):
                    out.append({"shape": s, "cells": [cells[x], cells[y]], "vals": [va, vb]})
            for _ in range(40 if tier == "quick" else 200):
                t = rng.sample(cells, 3)
                out.append({"shape": s, "cells": t, "vals": [va, vb, vc]})
        return out

    def evaluate(self, cases):
        out = []
        for c in cases:
            out.append(self.one(c))
        return out

    def one(self, c):
        s, cells, vals = c["shape"], c["cells"], c["vals"]
        n = len(cells)
        tags = [f"cells{gen.numel(s)}", f"k{n}", "shape:" + "x".join(map(str, s))]
        want = np.zeros(tuple(s))
        for sub, v in zip(cells, vals):
            want[tuple(sub)] = v
        # (a) one from_aggregator call, every order of the rows, three reducers
        for fname, fh, red in (("sum", "sum", sum), ("max", np.max, max), ("len", len, len)):
            ref = np.zeros(tuple(s))
            for sub, v in zip(cells, vals):
                ref[tuple(sub)] = red([v])
            for o in itertools.permutations(range(n)):
                subs = np.array([cells[k] for k in o], dtype=int)
                vv = np.array([vals[k] for k in o], dtype=float).reshape(-1, 1)
                r = call(lambda: ttb.sptensor.from_aggregator(subs, vv, tuple(s), fh))
                where = f"from_aggregator({fname}) of rows {subs.tolist()} with values {vv.reshape(-1).tolist()} in shape {s}"
                if "ok" not in r:
                    return Verdict("violation", f"{where}: raised {r.get('exc')}: {r.get('msg')}", r, None, jval(ref), tags)
                p = wf_sptensor(r["ok"], True)
                if p:
                    return Verdict("violation", f"{where}: result not well-formed: {p}", stored(r["ok"]), None, jval(ref), tags)
                if not np.array_equal(expand_any(r["ok"], s), ref):
                    return Verdict("violation", f"{where}: entries differ from the values given per subscript "
                                   "(distinct subscripts merged or misplaced)", stored(r["ok"]), None, jval(ref), tags)
        # (b) the cells split over two operands / both in the first operand, every stored order
        splits = [([0], list(range(1, n))), (list(range(n)), [n - 1]), (list(range(n)), [])]
        for ia, ib in splits:
            Ad = np.zeros(tuple(s))
            Bd = np.zeros(tuple(s))
            for k in ia:
                Ad[tuple(cells[k])] = vals[k]
            for k in ib:
                Bd[tuple(cells[k])] = 2 * vals[k]
            for opname, (f, ref) in PAIR_OPS.items():
                want2 = ref(Ad, Bd)
                for oa in itertools.permutations(ia):
                    for ob in itertools.permutations(ib):
                        A = gen.mk_sptensor(ttb, s, [cells[k] for k in oa], [vals[k] for k in oa])
                        Bt = gen.mk_sptensor(ttb, s, [cells[k] for k in ob], [2 * vals[k] for k in ob])
                        r = call(lambda: f(A, Bt))
                        where = (f"{opname} of A = {[(cells[k], vals[k]) for k in oa]} and "
                                 f"B = {[(cells[k], 2 * vals[k]) for k in ob]} in shape {s}")
                        if "ok" not in r:
                            return Verdict("violation", f"{where}: raised {r.get('exc')}: {r.get('msg')}", r, None, jval(want2), tags)
                        if isinstance(r["ok"], ttb.sptensor):
                            p = wf_sptensor(r["ok"], True)
                            if p:
                                return Verdict("violation", f"{where}: result not well-formed: {p}", stored(r["ok"]), None, jval(want2), tags)
                        if not np.array_equal(expand_any(r["ok"], s), want2):
                            return Verdict("violation", f"{where}: differs from the dense result (distinct subscripts merged "
                                           "or misplaced)", stored(r["ok"]), None, jval(want2), tags)
        return Verdict("ok", "", None, None, None, tags, True)

    def shrink(self, case):
        if len(case["cells"]) > 2:
            for k in range(len(case["cells"])):
                yield {**case, "cells": case["cells"][:k] + case["cells"][k + 1:], "vals": case["vals"][:k] + case["vals"][k + 1:]}

def norm_model(opname, mm):
    """bring the model's reply to the canonical stored form used for the implementation."""
    if opname in ("permute", "reshape", "copy", "deepcopy"):
        return {"sp": mm}
    if opname == "squeeze":
        return {"num": mm["scalar"]} if "scalar" in mm else {"sp": mm["obj"]}
    if opname == "to_sptenmat":
        return {"spm": mm}
    if opname == "squash":
        return {"sp": mm["sp"]}
    if isinstance(mm, dict) and "kind" in mm:
        k = mm["kind"]
        if k == "sparse":
            return {"sp": {x: mm[x] for x in ("shape", "subs", "vals")}}
        if k == "dense":
            return {"dn": {x: mm[x] for x in ("shape", "data")}}
        if k == "scalar":
            return {"num": mm["value"]}
        if k == "vec":
            return {"arr": {"shape": [len(mm["data"])], "data": mm["data"]}}
    return mm


OPMAP = {op.name: op for op in OPS}


class Constructors(Family):
    """from_aggregator with repeated / cancelling / reordered rows; sptenmat constructor with repeated rows;
    tensor.to_sptensor; sptendiag; sptenrand / from_function (well-formedness only)."""
    name = "constructors"
    theorems = ("C06_ctor_keeps", "C06_ctor_rejects", "C06_aggregator_wf", "C06_perm_aggregator", "C06_wf_conversions",
                "C06_wf_sptenmat_ctor", "C06_perm_sptenmat_ctor", "C06_wf_sptendiag", "C06_wf_sptenrand")

    def gen(self, rng, tier):
        out = []
        n = 40 if tier == "quick" else 800
        for _ in range(n):
            s = small_shape(rng)
            cells = gen.all_subs(s)
            k = rng.randint(0, 5)
            subs = [rng.choice(cells) for _ in range(k)]
            vals = [rng.choice([-2, -1, 1, 2]) for _ in range(k)]
            out.append({"k": "agg", "shape": s, "subs": subs, "vals": vals, "f": rng.choice(["sum", "sum", "max", "len"]), "seed": rng.getrandbits(32)})
        # repeated rows that are NOT adjacent in the input, summing and cancelling (deterministic)
        for s in ([3], [2, 3], [3, 5, 3], [2, 2, 3, 2]):
            cells = gen.all_subs(s)
            a, b, c3 = cells[1 % len(cells)], cells[-1], cells[len(cells) // 2]
            for vals in ([2, 3, 5, 7], [2, 3, -2, 7], [2, -3, -2, 3]):
                for f in ("sum", "max", "len"):
                    out.append({"k": "agg", "shape": s, "subs": [a, b, a, c3][:4], "vals": vals, "f": f, "seed": 777})
                out.append({"k": "agg", "shape": s, "subs": [a, b, a, b], "vals": vals, "f": "sum", "seed": 777})
        for s, r, c in (([2, 3], [0], [1]), ([3, 2, 2], [1], [0, 2]), ([2, 2, 3], [2, 0], [1])):
            R, C = gen.numel([s[x] for x in r]), gen.numel([s[x] for x in c])
            for vals in ([2, 3, 5], [2, 3, -2]):
                out.append({"k": "sptenmat", "shape": s, "r": r, "c": c, "subs": [[0, 0], [R - 1, C - 1], [0, 0]], "vals": vals, "seed": 777})
        for _ in range(n // 2):
            s = small_shape(rng, 2)
            o = gen.perm(rng, len(s))
            kk = rng.randint(1, len(s) - 1)
            r, c = o[:kk], o[kk:]
            R, C = gen.numel([s[x] for x in r]), gen.numel([s[x] for x in c])
            k = rng.randint(0, 5)
            subs = [[rng.randrange(R), rng.randrange(C)] for _ in range(k)]
            vals = [rng.choice([-2, -1, 1, 2]) for _ in range(k)]
            out.append({"k": "sptenmat", "shape": s, "r": r, "c": c, "subs": subs, "vals": vals, "seed": rng.getrandbits(32)})
        for _ in range(n // 2):
            s = small_shape(rng)
            out.append({"k": "to_sptensor", "shape": s, "data": gen.dense_data(rng, s)})
        for _ in range(n // 5):
            s = small_shape(rng)
            m = min(s)
            out.append({"k": "sptendiag", "shape": s, "el": [rng.choice([-1, 0, 2, 3]) for _ in range(rng.randint(1, m))]})
            out.append({"k": "sptenrand", "shape": s, "nz": rng.randint(1, gen.numel(s)), "npseed": rng.getrandbits(31)})
            out.append({"k": "ctor", "shape": s, "a": rand_entries(rng, s, 6)})
        return out

    def evaluate(self, cases):
        import random
        plans, reqs = [], []
        for c in cases:
            rng = random.Random(c.get("seed", 0))
            s = c["shape"]
            runs = []
            if c["k"] == "agg":
                fh = {"sum": "sum", "max": np.max, "len": len}[c["f"]]
                for o in orders_of(len(c["subs"]), rng):
                    subs = [c["subs"][k] for k in o]
                    vals = [c["vals"][k] for k in o]
                    impl = call(lambda subs=subs, vals=vals: ttb.sptensor.from_aggregator(
                        np.array(subs, dtype=int).reshape(len(subs), len(s)), np.array(vals, dtype=float).reshape(-1, 1), tuple(s), fh))
                    reqs.append({"op": "sp_from_aggregator", "subs": subs, "vals": vals, "shape": s, "f": c["f"]})
                    runs.append((o, impl, True))
            elif c["k"] == "sptenmat":
                for o in orders_of(len(c["subs"]), rng):
                    subs = [c["subs"][k] for k in o]
                    vals = [c["vals"][k] for k in o]
                    impl = call(lambda subs=subs, vals=vals: ttb.sptenmat(
                        np.array(subs, dtype=int).reshape(len(subs), 2), np.array(vals, dtype=float).reshape(-1, 1),
                        np.array(c["r"], dtype=int), np.array(c["c"], dtype=int), tuple(s)))
                    runs.append((o, impl, True))
                    reqs.append({"op": "spm_ctor", "subs": subs, "vals": vals, "rdims": c["r"], "cdims": c["c"], "tshape": s})
                    impl2 = call(lambda subs=subs, vals=vals: ttb.sptenmat(
                        np.array(subs, dtype=int).reshape(len(subs), 2), np.array(vals, dtype=float).reshape(-1, 1),
                        np.array(c["r"], dtype=int), np.array(c["c"], dtype=int), tuple(s)).to_sptensor())
                    runs.append((o, impl2, False))
            elif c["k"] == "to_sptensor":
                T = gen.mk_tensor(ttb, s, c["data"])
                runs.append(([], call(lambda: T.to_sptensor()), True))
                reqs.append({"op": "to_sptensor", "T": {"shape": s, "data": c["data"]}})
            elif c["k"] == "sptendiag":
                runs.append(([], call(lambda: ttb.sptendiag(np.array(c["el"], dtype=float), tuple(s))), True))
                reqs.append({"op": "gen_sptendiag", "elements": c["el"], "shape": s})
            elif c["k"] == "sptenrand":
                rec = []
                orig = np.random.uniform

                def spy(*a, **k):
                    x = orig(*a, **k)
                    rec.append(np.array(x))
                    return x

                def draw():
                    np.random.seed(c["npseed"])
                    np.random.uniform = spy
                    try:
                        with lib.unit_spellings(spy):
                            return ttb.sptenrand(tuple(s), nonzeros=c["nz"])
                    finally:
                        np.random.uniform = orig
                runs.append(([], call(draw), True))
                reqs.append({"op": "gen_sptenrand", "shape": s, "density": None, "nonzeros": c["nz"],
                             "draws": [jval(np.asarray(d).reshape(-1, len(s))) for d in rec[:-1]],
                             "vals": jval(np.asarray(rec[-1]).reshape(-1)) if rec else []})
            else:
                a = c["a"]
                runs.append(([], call(lambda: ttb.sptensor(np.array(a["subs"], dtype=int).reshape(len(a["subs"]), len(s)),
                                                           np.array(a["vals"], dtype=float).reshape(-1, 1), tuple(s)) if a["subs"]
                                      else ttb.sptensor(shape=tuple(s))), True))
                reqs.append({"op": "sp_ctor", "subs": a["subs"], "vals": a["vals"], "shape": s})
            plans.append(runs)
        models = iter(drive(reqs))
        out = []
        for c, runs in zip(cases, plans):
            tags = [c["k"]] + ([c["f"]] if "f" in c else [])
            tags.append("modelled")
            verdict = None
            firsts = {}
            for k, (o, impl, has_model) in enumerate(runs):
                m = next(models) if has_model else None
                if verdict is not None:
                    continue
                slot = k % 2 if c["k"] == "sptenmat" else 0
                if "ok" not in impl:
                    verdict = Verdict("violation", f"{c['k']} (rows in order {o}) raised {impl.get('exc')}: {impl.get('msg')}", impl, m, None, tags)
                    continue
                r = impl["ok"]
                # random values of sptenrand may be tiny but are never zero; zeros of sptendiag must be dropped
                for x in sparse_objects(r):
                    p = wf_sptensor(x, True) if isinstance(x, ttb.sptensor) else wf_sptenmat(x, True)
                    if p:
                        verdict = Verdict("violation", f"{c['k']} (rows in order {o}): returned object not well-formed: {p}", stored(r), m, None, tags)
                        break
                if verdict is not None:
                    continue
                if c["k"] == "sptenrand":
                    mm = (m or {}).get("ok", {}).get("S")
                    if mm is None or not deep_eq(sparse_j(r), mm):
                        verdict = Verdict("corr", "sptenrand: stored form differs from the model's on the recorded draws", stored(r), m, None, tags)
                    continue
                d = denote(r)
                if slot not in firsts:
                    firsts[slot] = d
                elif not deep_eq(d, firsts[slot]):
                    verdict = Verdict("violation", f"{c['k']} (rows in order {o}): result differs from the result for another order of the rows", stored(r), m, firsts[slot], tags)
                    continue
                if m is not None:
                    mm = m.get("ok") if c["k"] != "to_sptensor" else m.get("sp")
                    got = sptenmat_j(r) if isinstance(r, ttb.sptenmat) else sparse_j(r)
                    if mm is None or not deep_eq(got, mm):
                        verdict = Verdict("corr", f"{c['k']}: stored form differs from the model's", stored(r), m, None, tags)
            if verdict is None and c["k"] in ("agg", "sptenmat") and firsts:
                # the aggregated array itself
                want = {}
                for rr, v in zip(c["subs"], c["vals"]):
                    want.setdefault(tuple(rr), []).append(v)
                red = {"sum": sum, "max": max, "len": len}[c.get("f", "sum")]
                ent = [[list(k), v] for k, v in sorted((k, jval(float(red(v)))) for k, v in want.items() if red(v) != 0)]
                got = firsts[0]["sp" if c["k"] == "agg" else "spm"]["entries"]
                if not deep_eq(got, ent):
                    verdict = Verdict("violation", f"{c['k']}: entries are not the reduction of the values given per subscript", firsts[0], None, ent, tags)
            out.append(verdict or Verdict("ok", "", None, None, None, tags, len(c.get("subs", c.get("data", [0, 0]))) >= 2))
        return out


# ----------------------------------------------------------------------------
# the sparse matricized tensor: every public operation, on objects built with copy=False (any stored order)
# ----------------------------------------------------------------------------
SPM_SPLITS = [  # (tshape, rdims, cdims): singleton modes, repeated and pairwise distinct extents, an empty side
    ([2, 3], [0], [1]), ([2, 3], [1], [0]), ([3, 2], [0], [1]), ([2, 2], [0], [1]), ([1, 3], [0], [1]), ([3, 1], [0], [1]),
    ([2, 3, 2], [0], [1, 2]), ([2, 3, 2], [2, 0], [1]), ([3, 1, 2], [1, 2], [0]), ([2, 2, 2], [1], [0, 2]),
    ([2, 3, 4], [1], [2, 0]), ([4], [0], []), ([3], [], [0]), ([2, 3], [], [1, 0]), ([2, 3], [0, 1], []), ([1, 1], [0], [1]),
]


def spm_dims(ts, r, c):
    return gen.numel([ts[x] for x in r]), gen.numel([ts[x] for x in c])


def spm_cells(ts, r, c):
    nr, nc = spm_dims(ts, r, c)
    return [[i, j] for j in range(nc) for i in range(nr)]


def spm_entries(rng, ts, r, c, kmax=6, klass=None):
    cells = spm_cells(ts, r, c)
    klass = klass or rng.choice(["empty", "one", "some", "some", "some", "some", "all"])
    k = {"empty": 0, "one": 1, "all": min(len(cells), kmax)}.get(klass, rng.randint(2, max(2, min(kmax, len(cells)))))
    subs = rng.sample(cells, min(k, len(cells)))
    return {"subs": subs, "vals": [rng.choice(VALUES) for _ in subs]}


def mk_spm(c, ent):
    n = len(ent["subs"])
    r, cc = np.array(c["r"], dtype=int), np.array(c["c"], dtype=int)
    if n == 0:
        return ttb.sptenmat(rdims=r, cdims=cc, tshape=tuple(c["ts"]), copy=False)
    return ttb.sptenmat(np.array(ent["subs"], dtype=int).reshape(n, 2), np.array(ent["vals"], dtype=float).reshape(n, 1),
                        r, cc, tuple(c["ts"]), copy=False)


def spm_json(c, ent):
    return {"tshape": c["ts"], "rdims": c["r"], "cdims": c["c"], "subs": ent["subs"], "vals": ent["vals"]}


def spm_dense(c, ent):
    D = np.zeros(spm_dims(c["ts"], c["r"], c["c"]))
    for (i, j), v in zip(ent["subs"], ent["vals"]):
        D[i, j] += v
    return D


def spm_expand(M):
    """the matrix the stored triples denote (values under one pair add up)."""
    D = np.zeros(tuple(int(x) for x in M.shape))
    subs, vals = np.asarray(M.subs), np.asarray(M.vals).reshape(-1)
    if subs.size:
        np.add.at(D, (subs[:, 0].astype(int), subs[:, 1].astype(int)), vals)
    return D


def spm_tensor_of(c, D):
    """the tensor whose (rdims, cdims) matricization is the matrix D (the specification of to_sptensor)."""
    ts, r, cc = c["ts"], c["r"], c["c"]
    X = np.zeros(tuple(ts))
    rs, cs = [ts[x] for x in r], [ts[x] for x in cc]
    for i in range(D.shape[0]):
        for j in range(D.shape[1]):
            if D[i, j] != 0:
                sub = [0] * len(ts)
                for m, x in zip(r, np.unravel_index(i, rs, order="F") if rs else ()):
                    sub[m] = int(x)
                for m, x in zip(cc, np.unravel_index(j, cs, order="F") if cs else ()):
                    sub[m] = int(x)
                X[tuple(sub)] = D[i, j]
    return X


def spm_key_py(key):
    """key as the Python object handed to __setitem__; {"bare": part} is a key that is not a tuple."""
    def part(q):
        if q[0] == "int":
            return int(q[1])
        if q[0] == "list":
            return list(q[1])
        if q[0] == "arr":
            return np.array(q[1], dtype=int)
        return slice(q[1], q[2], q[3])
    if isinstance(key, dict):
        return part(key["bare"])
    return tuple(part(q) for q in key)


def spm_key_model(key):
    def part(q):
        if q[0] == "int":
            return {"int": q[1]}
        if q[0] in ("list", "arr"):
            return {"list": q[1]}
        return {"slice": [q[1], q[2], q[3]]}
    if isinstance(key, dict):
        return [part(key["bare"])]
    return [part(q) for q in key]


def spm_val_py(val):
    t, v = val["t"], val["v"]
    if t == "int":
        return int(v)
    if t == "float":
        return float(v)
    if t == "col":
        return np.array(v, dtype=float).reshape(-1, 1)
    if t == "vec":
        return np.array(v, dtype=float)
    return [float(x) for x in v]


def spm_val_model(val):
    return {"scalar": val["v"]} if val["t"] in ("int", "float") else {"arr": val["v"]}


def spm_resolve(q, ext):
    """index list of one key element by Python's own slice semantics (the specification); None = refused."""
    if q[0] == "int":
        l = [q[1]]
    elif q[0] in ("list", "arr"):
        l = list(q[1])
    else:
        if q[3] == 0:
            return None
        l = list(range(ext))[slice(q[1], q[2], q[3])]
    return l if all(0 <= x < ext for x in l) else None


def spm_spec_step(D, key, val):
    """the specification of `M[key] = val` on the dense matrix: None when the request must be refused, else the
    list of (row, col, value) in assignment order."""
    if isinstance(key, dict) or len(key) != 2:
        return None
    rs, cs = spm_resolve(key[0], D.shape[0]), spm_resolve(key[1], D.shape[1])
    if rs is None or cs is None:
        return None
    cells = [(i, j) for j in cs for i in rs]
    if val["t"] in ("int", "float"):
        vs = [val["v"]] * len(cells)
    else:
        vs = list(val["v"])
        if len(vs) != len(cells):
            return None
    return [(i, j, v) for (i, j), v in zip(cells, vs)]


def rand_spm_part(rng, ext, want=None):
    k = want or rng.choice(["int", "int", "list", "arr", "slice", "slice", "full"])
    if k == "int":
        return ["int", rng.randrange(ext)]
    if k in ("list", "arr"):
        return [k, rng.sample(range(ext), rng.randint(1, min(ext, 3)))]     # no repeated index
    if k == "full":
        return ["slice", None, None, None]
    return ["slice", rng.choice([None, 0, 1, -1, -ext]), rng.choice([None, 1, 2, -1, ext, ext + 2]), rng.choice([None, 1, 2, -1])]


def rand_spm_val(rng, n, zero=False, allow1d=True):
    """a value for n cells (allow1d=False keeps to numbers and columns)"""
    pool = [5, -3, 7, 2, -1]
    t = rng.choice(["int", "float", "col", "vec", "list"] if allow1d else ["int", "float", "col", "col"])
    if t in ("int", "float"):
        return {"t": t, "v": 0 if zero else rng.choice(pool)}
    vs = [rng.choice(pool) for _ in range(n)]
    if zero and n:
        vs[rng.randrange(n)] = 0
    elif zero:
        return {"t": "int", "v": 0}
    return {"t": t, "v": vs}


class SptenmatOps(Family):
    """Sparse matricized tensors built with copy=False (stored exactly as given), every stored order of the triples:
    copy / __deepcopy__ / +M / -M / double / full / norm / nnz / to_sptensor / isequal, and __setitem__ sequences,
    against the Lean model (stored form), the dense matrix reference (the specification) and across orders; every
    returned sptenmat / sptensor is inspected for well-formedness including the no-explicit-zero clause."""
    name = "sptenmat_ops"
    theorems = ("C06_wf_sptenmat_copy", "C06_perm_sptenmat_copy", "C06_wf_sptenmat_pos", "C06_perm_sptenmat_pos",
                "C06_wf_sptenmat_neg", "C06_perm_sptenmat_neg", "C06_sptenmat_setitem_cells", "C06_wf_sptenmat_setitem",
                "C06_perm_sptenmat_setitem", "C06_sptenmat_setitem_zero_counterexample",
                "C06_sptenmat_setitem_repeated_counterexample", "C06_wf_sptenmat_nnz", "C06_perm_sptenmat_nnz",
                "C06_wf_sptenmat_norm", "C06_perm_sptenmat_norm", "C06_wf_sptenmat_double", "C06_perm_sptenmat_double",
                "C06_wf_sptenmat_full", "C06_perm_sptenmat_full", "C06_wf_sptenmat_to_sptensor",
                "C06_perm_sptenmat_to_sptensor", "C06_sptenmat_isequal_iff", "C06_perm_sptenmat_isequal_counterexample",
                "C06_perm_sptenmat_copy_literal", "C06_perm_sptenmat_neg_literal", "C06_perm_sptenmat_isequal_canonical",
                "C06_perm_sptenmat_setitem_appended")

    # ------------------------------------------------------------------ generation
    def gen(self, rng, tier):
        out = []
        quick = tier == "quick"
        splits = SPM_SPLITS

        def base(k):
            ts, r, c = rng.choice(splits)
            return {"k": k, "ts": ts, "r": r, "c": c, "seed": rng.getrandbits(32)}

        # deterministic part: every split once with a fixed unsorted content
        for ts, r, c in splits:
            b = {"k": "ops", "ts": ts, "r": r, "c": c, "seed": 4242}
            cells = spm_cells(ts, r, c)
            pick = [cells[-1], cells[0], cells[len(cells) // 2]]
            pick = [list(x) for x in dict.fromkeys(tuple(x) for x in pick)]
            b["ent"] = {"subs": pick, "vals": [3, -2, 5][:len(pick)]}
            b["other"] = {"subs": pick, "vals": [3, -2, 4][:len(pick)]}
            out.append(b)
        for _ in range(30 if quick else 500):
            b = base("ops")
            b["ent"] = spm_entries(rng, b["ts"], b["r"], b["c"])
            b["other"] = rng.choice([spm_entries(rng, b["ts"], b["r"], b["c"], 4), reorder(b["ent"], gen.perm(rng, len(b["ent"]["subs"])))])
            out.append(b)
        for _ in range(4 if quick else 40):
            b = base("isequal")
            b["ent"] = spm_entries(rng, b["ts"], b["r"], b["c"], 4, "some")
            if len(b["ent"]["subs"]) >= 2:
                out.append(b)
        out.append({"k": "empty", "seed": 1})
        # __setitem__ sequences
        for klass, n in (("clean", 60 if quick else 1200), ("zero", 6 if quick else 60), ("repeat", 6 if quick else 60),
                         ("vec-new", 4 if quick else 40), ("malformed", 24 if quick else 300)):
            for _ in range(n):
                b = base("setitem")
                b["class"] = klass
                b["ent"] = spm_entries(rng, b["ts"], b["r"], b["c"], 5)
                nr, nc = spm_dims(b["ts"], b["r"], b["c"])
                stored_cells = {tuple(x) for x in b["ent"]["subs"]}
                steps = []
                for _s in range(rng.randint(1, 3)):
                    steps.append(self.clean_step(rng, nr, nc, stored_cells))
                if klass == "zero":
                    key = [rand_spm_part(rng, nr), rand_spm_part(rng, nc)]
                    steps.append({"key": key, "val": rand_spm_val(rng, self.count(key, nr, nc), zero=True)})
                elif klass == "vec-new":
                    # a 1-d value array for two or more pairs that are not stored, on an object that stores something
                    key = None
                    for _t in range(20):
                        k2 = [rand_spm_part(rng, nr, rng.choice(["list", "arr", "slice", "full"])), rand_spm_part(rng, nc)]
                        if stored_cells and not self.safe1d(k2, nr, nc, stored_cells):
                            key = k2
                            break
                    if key is None:
                        continue
                    steps.append({"key": key, "val": {"t": rng.choice(["vec", "list"]), "v": [rng.choice([5, -3, 7]) for _ in range(self.count(key, nr, nc))]}})
                elif klass == "repeat":
                    i, j = rng.randrange(nr), rng.randrange(nc)
                    if rng.random() < 0.5:
                        key = [[rng.choice(["list", "arr"]), [i, i]], ["int", j]]
                    else:
                        key = [["list", [i]], [rng.choice(["list", "arr"]), [j, j]]]
                    steps.append({"key": key, "val": rng.choice([{"t": "col", "v": [5, 6]}, {"t": "vec", "v": [6, 5]}, {"t": "list", "v": [5, 0]}, {"t": "int", "v": 7}])})
                elif klass == "malformed":
                    steps.insert(rng.randrange(len(steps) + 1), self.bad_step(rng, nr, nc))
                b["steps"] = steps
                out.append(b)
        return out

    @staticmethod
    def count(key, nr, nc):
        rs, cs = spm_resolve(key[0], nr), spm_resolve(key[1], nc)
        return len(rs or []) * len(cs or [])

    @staticmethod
    def safe1d(key, nr, nc, stored_cells):
        """False for the requests that used to corrupt the object before commit 74ea9de (a 1-d value array for two
        or more pairs appended to a non-empty object): the class vec-new aims at them"""
        rs, cs = spm_resolve(key[0], nr), spm_resolve(key[1], nc)
        new = sum(1 for j in cs or [] for i in rs or [] if (i, j) not in stored_cells)
        return not (new >= 2 and stored_cells)

    def clean_step(self, rng, nr, nc, stored_cells):
        """an accepted assignment with non-zero values and no repeated cell; aimed at stored pairs only, new pairs
        only, or a region (both); updates `stored_cells`."""
        aim = rng.choice(["stored", "new", "region", "region"])
        free = [(i, j) for j in range(nc) for i in range(nr) if (i, j) not in stored_cells]
        if aim == "stored" and stored_cells:
            i, j = rng.choice(sorted(stored_cells))
            key = [["int", i], ["int", j]] if rng.random() < 0.6 else [["list", [i]], ["arr", [j]]]
        elif aim == "new" and free:
            i, j = rng.choice(free)
            key = [["int", i], ["int", j]] if rng.random() < 0.6 else [["arr", [i]], ["slice", j, j + 1, None]]
        else:
            key = [rand_spm_part(rng, nr), rand_spm_part(rng, nc)]
        rs, cs = spm_resolve(key[0], nr), spm_resolve(key[1], nc)
        ok1d = True
        for j in cs or []:
            for i in rs or []:
                stored_cells.add((i, j))
        return {"key": key, "val": rand_spm_val(rng, len(rs or []) * len(cs or []), allow1d=ok1d)}

    def bad_step(self, rng, nr, nc):
        kind = rng.choice(["bare", "three", "row-out", "col-out", "negative", "list-out", "size", "size", "step0"])
        ok_r, ok_c = ["int", rng.randrange(nr)], ["int", rng.randrange(nc)]
        v = {"t": "int", "v": 4}
        if kind == "bare":
            return {"key": {"bare": ok_r}, "val": v}
        if kind == "three":
            return {"key": [ok_r, ok_c, ["int", 0]], "val": v}
        if kind == "row-out":
            return {"key": [["int", nr + rng.randint(0, 1)], ok_c], "val": v}
        if kind == "col-out":
            return {"key": [ok_r, ["int", nc]], "val": v}
        if kind == "negative":
            return {"key": rng.choice([[["int", -1], ok_c], [ok_r, ["list", [0, -1]]]]), "val": v}
        if kind == "list-out":
            return {"key": [["arr", [0, nr]], ok_c], "val": v}
        if kind == "step0":
            return {"key": [["slice", None, None, 0], ok_c], "val": v}
        key = [["slice", None, None, None], ok_c]
        return {"key": key, "val": {"t": rng.choice(["col", "vec", "list"]), "v": [4] * (nr + rng.choice([-1, 1, 2]))}}

    # ------------------------------------------------------------------ evaluation
    def evaluate(self, cases):
        import random
        plans, reqs = [], []
        for c in cases:
            rng = random.Random(c.get("seed", 0))
            runs = []
            if c["k"] == "empty":
                runs.append(([], self.impl_empty()))
                reqs.append({"op": "spm_observe", "M": {"tshape": [], "rdims": [], "cdims": [], "subs": [], "vals": []}})
            else:
                ent = c["ent"]
                for o in orders_of(len(ent["subs"]), rng):
                    e = reorder(ent, o)
                    if c["k"] == "ops":
                        runs.append((o, self.impl_ops(c, e)))
                        Mj = spm_json(c, e)
                        reqs += [{"op": "spm_copy", "M": Mj}, {"op": "spm_pos", "M": Mj}, {"op": "spm_neg", "M": Mj},
                                 {"op": "spm_observe", "M": Mj}, {"op": "spm_isequal", "M": Mj, "N": Mj},
                                 {"op": "spm_isequal", "M": Mj, "N": spm_json(c, c["other"])}]
                    elif c["k"] == "isequal":
                        runs.append((o, call(lambda e=e: bool(mk_spm(c, e).isequal(mk_spm(c, ent))))))
                        reqs.append({"op": "spm_isequal", "M": spm_json(c, e), "N": spm_json(c, ent)})
                    else:
                        runs.append((o, self.impl_setitem(c, e)))
                        reqs.append({"op": "spm_setitem", "M": spm_json(c, e),
                                     "steps": [{"key": spm_key_model(st["key"]), "rhs": spm_val_model(st["val"])} for st in c["steps"]]})
            plans.append(runs)
        models = iter(drive(reqs))
        out = []
        for c, runs in zip(cases, plans):
            if c["k"] == "empty":
                out.append(self.judge_empty(c, runs, next(models)))
            elif c["k"] == "ops":
                out.append(self.judge_ops(c, [(o, r, [next(models) for _ in range(6)]) for o, r in runs]))
            elif c["k"] == "isequal":
                out.append(self.judge_isequal(c, [(o, r, next(models)) for o, r in runs]))
            else:
                out.append(self.judge_setitem(c, [(o, r, next(models)) for o, r in runs]))
        return out

    # ---- the component-free object
    def impl_empty(self):
        return call(lambda: (lambda E: {"nnz": int(E.nnz), "stored": int(np.asarray(E.subs).size), "vals": int(np.asarray(E.vals).size),
                                        "norm": float(E.norm())})(ttb.sptenmat()))

    def judge_empty(self, c, runs, m):
        tags = ["empty-ctor", "modelled"]
        r = runs[0][1]
        if "ok" not in r:
            return Verdict("violation", f"sptenmat(): raised {r.get('exc')}: {r.get('msg')}", r, m, None, tags, False)
        r = r["ok"]
        if r["nnz"] != 0:
            return Verdict("violation", f"sptenmat(): nnz reports {r['nnz']} for an object without stored entries "
                           f"({r['stored']} subscripts, {r['vals']} values)", r, m, {"nnz": 0}, tags, False)
        if r["norm"] != 0.0:
            return Verdict("violation", f"sptenmat(): norm {r['norm']} of an object without stored entries", r, m, None, tags, False)
        if r["nnz"] != m["nnz"]:
            return Verdict("corr", "sptenmat(): nnz differs from the model's", r, m, None, tags, False)
        return Verdict("ok", "", None, None, None, tags, False)

    # ---- copy / pos / neg / observers
    def impl_ops(self, c, e):
        M = mk_spm(c, e)
        before = sptenmat_j(M)
        res = {
            "copy": call(lambda: M.copy()), "deepcopy": call(lambda: _copy.deepcopy(M)), "pos": call(lambda: +M),
            "neg": call(lambda: -M), "double": call(lambda: M.double()), "full": call(lambda: M.full()),
            "norm": call(lambda: M.norm()), "nnz": call(lambda: M.nnz), "to_sptensor": call(lambda: M.to_sptensor()),
            "iseq_self": call(lambda: bool(M.isequal(mk_spm(c, e)))), "iseq_other": call(lambda: bool(M.isequal(mk_spm(c, c["other"])))),
        }
        res["unchanged"] = deep_eq(sptenmat_j(M), before)
        return res

    def judge_ops(self, c, runs):
        n = len(c["ent"]["subs"])
        tags = ["ops", f"orders{min(len(runs), 99)}", f"nnz{n}", "modelled", "ts:" + "x".join(map(str, c["ts"])),
                "side-empty" if not c["r"] or not c["c"] else "sides-nonempty"]
        D = spm_dense(c, c["ent"])
        X = spm_tensor_of(c, D)
        first = {}
        for o, res, ms in runs:
            m_copy, m_pos, m_neg, m_obs, m_eqs, m_eqo = ms
            where = f"sptenmat {c['ts']} rdims {c['r']} cdims {c['c']} stored in order {o}"
            for name in ("copy", "deepcopy", "pos", "neg", "double", "full", "norm", "nnz", "to_sptensor", "iseq_self", "iseq_other"):
                if "ok" not in res[name]:
                    return Verdict("violation", f"{where}: {name} raised {res[name].get('exc')}: {res[name].get('msg')}", res[name], None, None, tags)
            if not res["unchanged"]:
                return Verdict("violation", f"{where}: an observer changed the receiver", None, None, None, tags)
            # well-formedness of every returned sparse object
            for name in ("copy", "deepcopy", "pos", "neg"):
                p = wf_sptenmat(res[name]["ok"], True)
                if p:
                    return Verdict("violation", f"{where}: {name} not well-formed: {p}", stored(res[name]["ok"]), None, None, tags)
            p = wf_sptensor(res["to_sptensor"]["ok"], True)
            if p:
                return Verdict("violation", f"{where}: to_sptensor not well-formed: {p}", stored(res["to_sptensor"]["ok"]), None, None, tags)
            # the specification: the dense matrix
            for name, want in (("copy", D), ("deepcopy", D), ("pos", D), ("neg", -D)):
                if not np.array_equal(spm_expand(res[name]["ok"]), want):
                    return Verdict("violation", f"{where}: {name} denotes another matrix", stored(res[name]["ok"]), None, jval(want), tags)
            if not np.array_equal(np.asarray(res["double"]["ok"].toarray()), D):
                return Verdict("violation", f"{where}: double() is not the denoted matrix", stored(res["double"]["ok"]), None, jval(D), tags)
            if not np.array_equal(np.asarray(res["full"]["ok"].data), D):
                return Verdict("violation", f"{where}: full() is not the denoted matrix", stored(res["full"]["ok"]), None, jval(D), tags)
            if res["norm"]["ok"] != math.sqrt(float((D * D).sum())):
                return Verdict("violation", f"{where}: norm() is not the root of the sum of squares", res["norm"]["ok"], None, float((D * D).sum()), tags)
            if res["nnz"]["ok"] != int(np.count_nonzero(D)):
                return Verdict("violation", f"{where}: nnz reports {res['nnz']['ok']} for {int(np.count_nonzero(D))} non-zero cells", res["nnz"]["ok"], None, None, tags)
            if not np.array_equal(expand_any(res["to_sptensor"]["ok"], c["ts"]), X):
                return Verdict("violation", f"{where}: to_sptensor is not the tensor of the matrix", stored(res["to_sptensor"]["ok"]), None, jval(X), tags)
            if res["iseq_self"]["ok"] is not True:
                return Verdict("violation", f"{where}: not isequal to an identical object", None, None, None, tags)
            if res["iseq_other"]["ok"] != bool(np.array_equal(D, spm_dense(c, c["other"]))):
                return Verdict("violation", f"{where}: isequal({c['other']}) is {res['iseq_other']['ok']} although the matrices "
                               f"{'are' if np.array_equal(D, spm_dense(c, c['other'])) else 'are not'} the same", None, None, None, tags)
            # across orders
            d = {k: denote(res[k]["ok"]) for k in ("copy", "neg", "to_sptensor")}
            d["copy-stored"] = stored(res["copy"]["ok"])      # sorted by np.unique: literally the same for every order
            d["neg-stored"] = stored(res["neg"]["ok"])
            d["copies-isequal"] = bool(res["copy"]["ok"].isequal(res["pos"]["ok"]))
            if not d["copies-isequal"]:
                return Verdict("violation", f"{where}: M.copy() and +M are not isequal", d, None, None, tags)
            if not first:
                first = d
            elif not deep_eq(d, first):
                return Verdict("violation", f"{where}: copy / neg / to_sptensor differ from those for another stored order", d, None, first, tags)
            # the model
            got = {"copy": stored(res["copy"]["ok"]), "deepcopy": stored(res["deepcopy"]["ok"]), "pos": stored(res["pos"]["ok"]),
                   "neg": stored(res["neg"]["ok"])}
            want = {"copy": m_copy, "deepcopy": m_copy, "pos": m_pos, "neg": m_neg}
            for k in got:
                if "ok" not in want[k] or not deep_eq(got[k], {"spm": want[k]["ok"]}):
                    return Verdict("corr", f"{where}: {k}: stored form differs from the model's", got[k], want[k], None, tags)
            obs = {"nnz": res["nnz"]["ok"], "double": stored(res["double"]["ok"])["arr"],
                   "full": {"tshape": list(res["full"]["ok"].tshape), "rdims": jval(np.asarray(res["full"]["ok"].rindices)),
                            "cdims": jval(np.asarray(res["full"]["ok"].cindices)), "data": ndarray_j2(res["full"]["ok"].data)},
                   "to_sptensor": sparse_j(res["to_sptensor"]["ok"])}
            mo = {"nnz": m_obs["nnz"], "double": m_obs["double"].get("ok"), "full": m_obs["full"].get("ok"),
                  "to_sptensor": m_obs["to_sptensor"].get("ok")}
            if not deep_eq(obs, mo):
                return Verdict("corr", f"{where}: nnz / double / full / to_sptensor differ from the model's", obs, mo, None, tags)
            if res["norm"]["ok"] != math.sqrt(float(frac_of(m_obs["normsq"]))):
                return Verdict("corr", f"{where}: norm differs from the root of the model's sum of squares", res["norm"]["ok"], m_obs["normsq"], None, tags)
            if {"equal": res["iseq_self"]["ok"]} != m_eqs.get("ok") or {"equal": res["iseq_other"]["ok"]} != m_eqo.get("ok"):
                return Verdict("corr", f"{where}: isequal differs from the model's", [res["iseq_self"]["ok"], res["iseq_other"]["ok"]],
                               [m_eqs, m_eqo], None, tags)
        return Verdict("ok", "", None, None, None, tags, n >= 2)

    # ---- isequal across stored orders (the property: interchangeable)
    def judge_isequal(self, c, runs):
        tags = ["isequal-orders", f"orders{len(runs)}", "modelled"]
        for o, r, m in runs:
            if "ok" not in r:
                return Verdict("violation", f"sptenmat.isequal: raised {r.get('exc')}: {r.get('msg')}", r, m, None, tags)
            if {"equal": r["ok"]} != m.get("ok"):
                return Verdict("corr", f"sptenmat.isequal (receiver in order {o}): differs from the model's", r["ok"], m, None, tags)
        for o, r, m in runs:
            if r["ok"] is not True:
                return Verdict("violation", f"sptenmat.isequal: {c['ent']} on {c['ts']} stored in order {o} is not isequal to the same "
                               "triples stored in the given order (same matrix, same mode split)", r["ok"], m, True, tags)
        return Verdict("ok", "", None, None, None, tags, True)

    # ---- __setitem__ sequences
    def impl_setitem(self, c, e):
        M = mk_spm(c, e)
        steps = []
        for st in c["steps"]:
            before = sptenmat_j(M)
            r = call(lambda: M.__setitem__(spm_key_py(st["key"]), spm_val_py(st["val"])))
            ok = "ok" in r
            steps.append({"accepted": ok, "exc": r.get("exc"), "msg": r.get("msg"), "before": before, "after": sptenmat_j(M),
                          "wf": wf_sptenmat(M, True), "dense": spm_expand(M) if ok else None})
            if not ok and not deep_eq(steps[-1]["after"], before):
                break      # the object is no longer usable
        return steps

    def judge_setitem(self, c, runs):
        klass = c["class"]
        n = len(c["ent"]["subs"])
        tags = ["setitem", "class:" + klass, f"orders{min(len(runs), 99)}", f"nnz{n}", f"steps{len(c['steps'])}", "modelled"]
        # the specification on the dense matrix
        D = spm_dense(c, c["ent"])
        spec, Ds, stored_now = [], [], {tuple(x) for x in c["ent"]["subs"]}
        appended, app = [], False
        for st in c["steps"]:
            w = spm_spec_step(D, st["key"], st["val"])
            spec.append(w)
            app = app or (w is not None and any((i, j) not in stored_now for i, j, _ in w))
            appended.append(app)       # a pair was appended by now: the triples were re-sorted
            if w is not None:
                cells = [(i, j) for i, j, _ in w]
                hit = [x in stored_now for x in cells]
                tags.append("writes:" + ("none" if not cells else "stored" if all(hit) else "new" if not any(hit) else "both"))
                tags.append("cells:" + ("1" if len(cells) == 1 else "0" if not cells else "several"))
                tags.append("val:" + st["val"]["t"])
                if any(v == 0 for _, _, v in w):
                    tags.append("assigns-zero")
                if len(set(cells)) < len(cells):
                    tags.append("cell-twice:" + ("stored" if any(hit) else "new"))
                for q in st["key"]:
                    tags.append("key:" + q[0])
                D = D.copy()
                for i, j, v in w:
                    D[i, j] = v
                    stored_now.add((i, j))
            else:
                tags.append("refused")
            Ds.append(D)
        other = []
        first = None
        for o, steps, m in runs:
            ms = m["steps"]
            where0 = f"sptenmat {c['ts']} rdims {c['r']} cdims {c['c']} stored in order {o}"
            for k, (st, sp, Dk, mk_) in enumerate(zip(steps, spec, Ds, ms)):
                where = f"{where0}, step {k} M[{c['steps'][k]['key']}] = {c['steps'][k]['val']}"
                if sp is None:
                    if st["accepted"]:
                        other.append(("violation", f"sptenmat.__setitem__: {where}: accepted although the request is malformed", st["after"], mk_))
                    elif not deep_eq(st["after"], st["before"]):
                        other.append(("violation", f"sptenmat.__setitem__: {where}: a refused request changed the object", st["after"], mk_))
                    if not mk_.get("reject"):
                        other.append(("corr", f"sptenmat.__setitem__: {where}: the model accepts", st["after"], mk_))
                    continue
                if not st["accepted"]:
                    other.append(("violation", f"sptenmat.__setitem__: {where}: raised {st['exc']}: {st['msg']}"
                                  + ("" if deep_eq(st["after"], st["before"]) else f" and left {len(st['after']['subs'])} subscripts for "
                                     f"{len(st['after']['vals'])} values"), st["after"], mk_))
                    break
                if st["wf"]:
                    other.append(("violation", f"sptenmat.__setitem__: {where}: object not well-formed: {st['wf']}", st["after"], mk_))
                if not np.array_equal(st["dense"], Dk):
                    other.append(("violation", f"sptenmat.__setitem__: {where}: the matrix afterwards is not the assignment applied to "
                                  "the matrix before", st["after"], jval(Dk)))
                if "ok" not in mk_ or not deep_eq(st["after"], mk_["ok"]):
                    other.append(("corr", f"sptenmat.__setitem__: {where}: stored form differs from the model's", st["after"], mk_))
            # (a refused request that changed the object is reported above; its debris is not compared across orders)
            d = [(False, "changed", None) if not st["accepted"] and not deep_eq(st["after"], st["before"]) else
                 (st["accepted"], sorted_entries(st["after"]["subs"], st["after"]["vals"]),
                  (st["after"]["subs"], st["after"]["vals"]) if ap else None) for st, ap in zip(steps, appended)]
            if first is None:
                first = d
            elif d != first:
                other.append(("violation", f"sptenmat.__setitem__: {where0}: acceptance or stored triples differ from those for another "
                              "stored order", d, first))
        for status, what, impl, model in other:
            return Verdict(status, what, impl, model, None, tags)
        return Verdict("ok", "", None, None, None, tags, n >= 2 and any(sp is not None for sp in spec))


def ndarray_j2(a):
    a = np.asarray(a)
    return {"shape": [int(x) for x in a.shape], "data": jval(a.flatten(order="F"))}


def frac_of(j):
    from harness.lib import frac
    return frac(j)


SPARSE_DUNDERS = {"__add__", "__sub__", "__mul__", "__rmul__", "__truediv__", "__neg__", "__pos__", "__eq__", "__ne__",
                  "__lt__", "__le__", "__gt__", "__ge__", "__getitem__", "__setitem__"}
COVERED = {
    "sptensor": {"__init__": "ctor", "from_aggregator": "model", "from_function": "model", "copy": "model", "__deepcopy__": "model",
                 "collapse": "model", "contract": "model", "elemfun": "model", "to_sptenmat": "model", "logical_and": "model",
                 "logical_not": "model", "logical_or": "model", "logical_xor": "model", "ones": "model", "permute": "model",
                 "reshape": "model", "scale": "model", "squeeze": "model", "ttv": "model", "ttm": "model", "squash": "model",
                 "__add__": "model", "__sub__": "model", "__mul__": "model", "__rmul__": "model", "__truediv__": "model",
                 "__neg__": "model", "__pos__": "model", "__eq__": "model", "__ne__": "model", "__lt__": "model", "__le__": "model",
                 "__gt__": "model", "__ge__": "model", "__getitem__": "model", "__setitem__": "model"},
    "sptenmat": {"__init__": "model", "from_array": "impl", "copy": "model", "__deepcopy__": "model", "to_sptensor": "model",
                 "__pos__": "model", "__neg__": "model", "__setitem__": "model"},
}


def introspect():
    """public callables of the two classes whose annotation (or operator nature) says they can return a
    sparse object, or that modify one in place."""
    found = {}
    for cls in (ttb.sptensor, ttb.sptenmat):
        names = set()
        for n, m in cls.__dict__.items():
            f = m.__func__ if isinstance(m, (classmethod, staticmethod)) else m
            if not callable(f):
                continue
            if n.startswith("_") and n not in SPARSE_DUNDERS and n not in ("__init__", "__deepcopy__"):
                continue
            try:
                ret = str(inspect.signature(f).return_annotation)
            except (TypeError, ValueError):
                ret = ""
            if n in SPARSE_DUNDERS or n in ("__init__", "__deepcopy__") or "sptensor" in ret or "sptenmat" in ret:
                names.add(n)
        found[cls.__name__] = names
    return found


class Coverage(Family):
    """compares the introspected list of sparse-returning public methods with the covered list."""
    name = "coverage"
    theorems = ()

    def gen(self, rng, tier):
        return [{"k": "coverage"}]

    def evaluate(self, cases):
        found = introspect()
        tags = []
        missing = []
        for cls, names in found.items():
            for n in sorted(names):
                how = COVERED.get(cls, {}).get(n)
                if how is None:
                    tags.append(f"uncovered:{cls}.{n}")
                    missing.append(f"{cls}.{n}")
                elif how == "impl":
                    tags.append(f"unmodelled:{cls}.{n}")
                else:
                    tags.append(f"modelled:{cls}.{n}")
        tags += ["modelled:sptenrand", "modelled:sptendiag", "modelled:tensor.to_sptensor"]
        v = Verdict("ok", "", {"introspected": {k: sorted(v) for k, v in found.items()}}, None, None, tags, False)
        if missing:
            v = Verdict("corr", "public sparse-returning methods not covered by the C06 families: " + ", ".join(missing),
                        {"introspected": {k: sorted(v) for k, v in found.items()}}, None, None, tags, False)
        return [v for _ in cases]


def families():
    return [CellPairs(), OrderIndependence(), Collisions(), Constructors(), SptenmatOps(), Coverage()]
