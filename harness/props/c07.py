"""C07 — permute / reshape / squeeze are exact index maps (dense, sparse, Kruskal, Tucker)."""
from __future__ import annotations

import itertools

import numpy as np
import pyttb as ttb

from harness import gen
from harness.lib import (Family, Verdict, call, deep_eq, dense_j, drive, jval, ktensor_j,
                         sparse_j, sparse_sorted_j, strip_exc)

RULE = ("dense / sparse / Kruskal / Tucker holders of random integer data on shapes of order 1..4 with distinct, "
        "repeated and singleton extents; every mode order for N<=3 (quick) / N<=4 (thorough) plus malformed "
        "orders; every factorisation of the element count (<=48 cells) as a reshape target plus count-changing "
        "targets; every subset of modes for sparse partial reshape; non-trivial = accepted, more than one cell "
        "and a non-identity map; distinct = distinct case hash")
ASSUMPTIONS = ["np.transpose / F-order reshape / np.squeeze have the logical index semantics of the model primitives"]
ANCHORS = [('pyttb/tensor.py', 'tensor.permute'), ('pyttb/tensor.py', 'tensor.reshape'), ('pyttb/tensor.py', 'tensor.squeeze'), ('pyttb/sptensor.py', 'sptensor.permute'), ('pyttb/sptensor.py', 'sptensor.reshape'), ('pyttb/sptensor.py', 'sptensor.squeeze'), ('pyttb/ktensor.py', 'ktensor.permute'), ('pyttb/ttensor.py', 'ttensor.permute')]
EXHAUSTIVE = {"quick": False, "thorough": False}


def sp_case(rng, s):
    subs, vals = gen.sparse_entries(rng, s)
    return {"shape": s, "subs": subs, "vals": vals}


def dense_case(rng, s):
    return {"shape": s, "data": gen.dense_data(rng, s)}


def factorizations(n, maxlen=4):
    out = []

    def rec(prefix, rem):
        if prefix and rem == 1:
            out.append(list(prefix))
        if len(prefix) == maxlen:
            return
        for d in range(1, rem + 1):
            if rem % d == 0:
                if d == 1 and prefix.count(1) >= 1:
                    continue
                rec(prefix + [d], rem // d)

    rec([], n)
    return out


def spec_permute(shape, at, order):
    """index formula: result[j] = T[i], i[order[k]] = j[k]"""
    ns = [shape[k] for k in order]
    data = []
    for j in gen.all_subs(ns):
        i = [0] * len(shape)
        for k, o in enumerate(order):
            i[o] = j[k]
        data.append(at(i))
    return {"shape": ns, "data": data}


def f_index(shape, i):
    idx, mult = 0, 1
    for s, x in zip(shape, i):
        idx += x * mult
        mult *= s
    return idx


def dense_at(c):
    return lambda i: c["data"][f_index(c["shape"], i)]


def sp_at(c):
    d = {tuple(s): v for s, v in zip(c["subs"], c["vals"])}
    return lambda i: d.get(tuple(i), 0)


def sp_to_dense_j(spj):
    at = sp_at(spj)
    return {"shape": spj["shape"], "data": [at(i) for i in gen.all_subs(spj["shape"])]}


def orders_for(rng, n, tier):
    lim = 3 if tier == "quick" else 4
    if n <= lim:
        return [list(p) for p in itertools.permutations(range(n))]
    return [gen.perm(rng, n) for _ in range(4)]


def bad_orders(rng, n):
    out = [[1] * n, list(range(n)) + [n], list(range(max(0, n - 1)))]
    if n >= 2:
        out.append([0] * n)
        out.append(list(range(1, n)) + [n])
    return out


class Permute(Family):
    name = "permute"
    theorems = ("C07_permute_at_dense", "C07_permute_at_sparse", "C07_permute_at_ktensor", "C07_permute_at_ttensor",
                "C07_permute_spec", "C07_permute_full_ktensor", "C07_permute_full_ttensor", "C07_permute_rejects_dense",
                "C07_permute_rejects_others", "C07_permute_rejects_ttensor")

    def gen(self, rng, tier):
        out = []
        reps = 2 if tier == "quick" else 6
        shapes = [[3], [1], [2, 3], [3, 3], [1, 4], [2, 3, 4], [3, 1, 2], [2, 2, 3], [2, 3, 1, 2], [3, 2, 4, 2]]
        shapes += [gen.shape(rng, 1, 4, 4) for _ in range(4 if tier == "quick" else 40)]
        for s in shapes:
            for _ in range(reps if len(s) <= 3 else 1):
                for rep in ("dense", "sparse", "ktensor", "ttensor"):
                    base = self._holder(rng, rep, s)
                    for o in orders_for(rng, len(s), tier):
                        out.append({"rep": rep, "x": base, "order": o, "bad": False})
                    for o in bad_orders(rng, len(s)):
                        out.append({"rep": rep, "x": base, "order": o, "bad": True})
        return out

    @staticmethod
    def _holder(rng, rep, s):
        if rep == "dense":
            return dense_case(rng, s)
        if rep == "sparse":
            return sp_case(rng, s)
        if rep == "ktensor":
            R = rng.randint(1, 3)
            return {"weights": gen.int_values(rng, R, -3, 3), "factors": [gen.matrix(rng, m, R) for m in s]}
        core = [rng.randint(1, 2) for _ in s]
        return {"core": dense_case(rng, core), "factors": [gen.matrix(rng, m, c) for m, c in zip(s, core)]}

    def evaluate(self, cases):
        impls, reqs, objs = [], [], []
        for c in cases:
            o = np.array(c["order"], dtype=int)
            x = c["x"]
            if c["rep"] == "dense":
                t = gen.mk_tensor(ttb, x["shape"], x["data"])
                impls.append(call(lambda t=t, o=o: dense_j(t.permute(o))))
                reqs.append({"op": "dense_permute", "T": x, "order": c["order"]})
            elif c["rep"] == "sparse":
                t = gen.mk_sptensor(ttb, x["shape"], x["subs"], x["vals"])
                impls.append(call(lambda t=t, o=o: sparse_j(t.permute(o))))
                reqs.append({"op": "sp_permute", "S": x, "order": c["order"]})
            elif c["rep"] == "ktensor":
                t = gen.mk_ktensor(ttb, x["weights"], x["factors"])
                impls.append(call(lambda t=t, o=o: ktensor_j(t.permute(o))))
                reqs.append({"op": "k_permute", "K": x, "order": c["order"]})
            else:
                core = gen.mk_tensor(ttb, x["core"]["shape"], x["core"]["data"])
                fac = [np.array(f, dtype=float).reshape(len(f), x["core"]["shape"][k]) for k, f in enumerate(x["factors"])]
                t = ttb.ttensor(core, fac)
                impls.append(call(lambda t=t, o=o: {"core": dense_j(t.permute(o).core),
                                                     "factors": [jval(f) for f in t.permute(o).factor_matrices]}))
                reqs.append({"op": "t_permute", "T": x, "order": c["order"]})
            objs.append(t)
        models = drive(reqs)
        out = []
        for c, impl, m, t in zip(cases, impls, models, objs):
            n = len(c["order"])
            tags = [c["rep"], f"N{n}", "bad" if c["bad"] else "perm"]
            ident = c["order"] == list(range(n))
            ic = strip_exc(impl)
            nontriv = "ok" in impl and not ident
            if c["rep"] == "sparse" and "ok" in ic and "ok" in m:
                same = deep_eq(ic["ok"], m["ok"])  # stored form: same order of entries
            else:
                same = deep_eq(ic, m)
            v = Verdict("ok", "", impl, m, None, tags, nontriv)
            if not same:
                v = Verdict("violation", f"{c['rep']}.permute({c['order']}) differs from the proved model", impl, m, None, tags)
            # the index formula itself, on the implementation (dense and sparse holders)
            if v.status == "ok" and "ok" in ic and c["rep"] in ("dense", "sparse") and not c["bad"]:
                x = c["x"]
                at = dense_at(x) if c["rep"] == "dense" else sp_at(x)
                spec = spec_permute(x["shape"], at, c["order"])
                got = ic["ok"] if c["rep"] == "dense" else sp_to_dense_j(ic["ok"])
                if not deep_eq(got, spec):
                    v = Verdict("violation", "permute moved an entry to the wrong position", impl, m, spec, tags)
            # ... and for the Kruskal / Tucker holders through the array they denote (full())
            if v.status == "ok" and "ok" in ic and c["rep"] in ("ktensor", "ttensor") and not c["bad"]:
                o = np.array(c["order"], dtype=int)
                fr = call(lambda t=t, o=o: (dense_j(t.full()), dense_j(t.permute(o).full())))
                if "ok" not in fr:
                    v = Verdict("violation", f"{c['rep']}: full() of the permuted holder raised", fr, m, None, tags)
                else:
                    before, after = fr["ok"]
                    spec = spec_permute(before["shape"], dense_at(before), c["order"])
                    if not deep_eq(after, spec):
                        v = Verdict("violation", f"{c['rep']}.permute denotes an array other than the permuted one",
                                    after, m, spec, tags)
            if c["bad"] and "ok" in ic:
                v = Verdict("violation", f"{c['rep']}.permute accepted the non-permutation {c['order']}", impl, m, None, tags)
            out.append(v)
        return out

    def shrink(self, case):
        return []


class Reshape(Family):
    name = "reshape"
    theorems = ("C07_reshape_at_dense", "C07_reshape_at_sparse", "C07_sp_reshape_partial", "C07_reshape_rejects",
                "C07_empty_sparse")

    def gen(self, rng, tier):
        out = []
        shapes = [[6], [2, 3], [4, 3], [2, 3, 4], [3, 1, 4], [2, 2, 2, 3], [1, 1], [5, 1]]
        shapes += [gen.shape(rng, 1, 4, 4) for _ in range(6 if tier == "quick" else 60)]
        for s in shapes:
            n = gen.numel(s)
            if n > 48:
                continue
            targets = factorizations(n)
            if tier == "quick" and len(targets) > 8:
                targets = rng.sample(targets, 8)
            for rep in ("dense", "sparse"):
                x = dense_case(rng, s) if rep == "dense" else sp_case(rng, s)
                for t in targets:
                    out.append({"rep": rep, "x": x, "shape": t, "old_modes": None})
                out.append({"rep": rep, "x": x, "shape": [n + 1], "old_modes": None})
                out.append({"rep": rep, "x": x, "shape": s + [2], "old_modes": None})
            # sparse partial reshape: every subset of modes
            x = sp_case(rng, s)
            N = len(s)
            for r in range(1, N + 1):
                # the selected modes in EVERY listed order (they are linearised in that order)
                oms = list(itertools.permutations(range(N), r))
                if tier == "quick" and len(oms) > 12:
                    oms = rng.sample(oms, 12)
                for om in oms:
                    k = gen.numel([s[m] for m in om])
                    ts = factorizations(k, 3)
                    t = rng.choice(ts)
                    out.append({"rep": "sparse", "x": x, "shape": t, "old_modes": list(om)})
            out.append({"rep": "sparse", "x": x, "shape": [s[0] * s[0]], "old_modes": [0, 0]})
            out.append({"rep": "sparse", "x": x, "shape": [1], "old_modes": [N]})
        return out

    def evaluate(self, cases):
        impls, reqs = [], []
        for c in cases:
            x = c["x"]
            sh = tuple(c["shape"])
            if c["rep"] == "dense":
                t = gen.mk_tensor(ttb, x["shape"], x["data"])
                impls.append(call(lambda t=t, sh=sh: dense_j(t.reshape(sh))))
                reqs.append({"op": "dense_reshape", "T": x, "shape": c["shape"]})
            else:
                t = gen.mk_sptensor(ttb, x["shape"], x["subs"], x["vals"])
                om = None if c["old_modes"] is None else np.array(c["old_modes"], dtype=int)
                impls.append(call(lambda t=t, sh=sh, om=om: sparse_j(t.reshape(sh, om))))
                reqs.append({"op": "sp_reshape", "S": x, "shape": c["shape"], "old_modes": c["old_modes"]})
        models = drive(reqs)
        out = []
        for c, impl, m in zip(cases, impls, models):
            x = c["x"]
            tags = [c["rep"], "partial" if c["old_modes"] is not None else "full", f"N{len(x['shape'])}"]
            ic = strip_exc(impl)
            v = Verdict("ok", "", impl, m, None, tags, "ok" in impl and gen.numel(x["shape"]) > 1)
            if not deep_eq(ic, m):
                v = Verdict("violation", f"{c['rep']}.reshape differs from the proved model", impl, m, None, tags)
            elif "ok" in ic and c["old_modes"] is None:
                # index formula: first index fastest on both sides
                if c["rep"] == "dense":
                    flat_before, flat_after = x["data"], ic["ok"]["data"]
                else:
                    flat_before = sp_to_dense_j(x)["data"]
                    flat_after = sp_to_dense_j(ic["ok"])["data"]
                if not deep_eq(flat_after, flat_before) or ic["ok"]["shape"] != c["shape"]:
                    v = Verdict("violation", "reshape changed the first-index-fastest order of the entries", impl, m, flat_before, tags)
            if v.status == "ok" and "ok" in ic and c["old_modes"] is not None and c["rep"] == "sparse":
                # index formula for the partial reshape: kept modes first (increasing), then the
                # listed modes linearised in the listed order, first listed mode fastest
                om = c["old_modes"]
                keep = [m for m in range(len(x["shape"])) if m not in om]
                oshape = [x["shape"][m] for m in om]
                at_new = sp_at(ic["ok"])
                at_old = sp_at(x)
                for i in gen.all_subs(x["shape"]):
                    lin = f_index(oshape, [i[m] for m in om])
                    j, rem = [], lin
                    for d in c["shape"]:
                        j.append(rem % d)
                        rem //= d
                    if at_new([i[m] for m in keep] + j) != at_old(i):
                        v = Verdict("violation", f"partial reshape moved entry {i} to the wrong position", impl, m, None, tags)
                        break
            if "ok" in ic and gen.numel(c["shape"]) != gen.numel(x["shape"] if c["old_modes"] is None else [x["shape"][k] for k in c["old_modes"]]):
                v = Verdict("violation", "reshape accepted a target with a different element count", impl, m, None, tags)
            out.append(v)
        return out


class Squeeze(Family):
    name = "squeeze"
    theorems = ("C07_squeeze_at_dense", "C07_squeeze_at_sparse", "C07_empty_sparse")

    def gen(self, rng, tier):
        out = []
        shapes = [[1], [1, 1], [1, 3], [3, 1], [2, 1, 3], [1, 2, 1], [2, 3], [1, 1, 1], [1, 4, 1, 2]]
        shapes += [gen.shape(rng, 1, 4, 3) for _ in range(10 if tier == "quick" else 100)]
        for s in shapes:
            for _ in range(2):
                out.append({"rep": "dense", "x": dense_case(rng, s)})
                out.append({"rep": "sparse", "x": sp_case(rng, s)})
        out.append({"rep": "sparse", "x": {"shape": [1, 1], "subs": [], "vals": []}})
        out.append({"rep": "sparse", "x": {"shape": [1], "subs": [[0]], "vals": [5]}})
        return out

    def evaluate(self, cases):
        impls, reqs = [], []
        for c in cases:
            x = c["x"]

            def canon(r, rep=c["rep"]):
                if isinstance(r, (float, int, np.floating, np.integer)):
                    return {"scalar": jval(r)}
                return {"obj": dense_j(r) if rep == "dense" else sparse_j(r)}
            if c["rep"] == "dense":
                t = gen.mk_tensor(ttb, x["shape"], x["data"])
                reqs.append({"op": "dense_squeeze", "T": x})
            else:
                t = gen.mk_sptensor(ttb, x["shape"], x["subs"], x["vals"])
                reqs.append({"op": "sp_squeeze", "S": x})
            impls.append(call(lambda t=t, canon=canon: canon(t.squeeze())))
        models = drive(reqs)
        out = []
        for c, impl, m in zip(cases, impls, models):
            x = c["x"]
            tags = [c["rep"], "allsingleton" if all(s == 1 for s in x["shape"]) else ("some" if 1 in x["shape"] else "none")]
            ic = strip_exc(impl)
            v = Verdict("ok", "", impl, m, None, tags, 1 in x["shape"])
            if not deep_eq(ic, m):
                v = Verdict("violation", f"{c['rep']}.squeeze differs from the proved model", impl, m, None, tags)
            out.append(v)
        return out


class Roundtrip(Family):
    """permute then inverse permute; reshape and back; dense and sparse agree (on the implementation)."""
    name = "roundtrip_agree"
    theorems = ("C07_permute_inverse_dense", "C07_permute_inverse_sparse", "C07_reshape_back_dense",
                "C07_permute_full_sparse", "C07_reshape_full_sparse")

    def gen(self, rng, tier):
        out = []
        for _ in range(40 if tier == "quick" else 400):
            s = gen.shape(rng, 1, 4, 4)
            x = sp_case(rng, s)
            out.append({"x": x, "order": gen.perm(rng, len(s)), "shape": rng.choice(factorizations(gen.numel(s)))})
        return out

    def evaluate(self, cases):
        out = []
        for c in cases:
            x = c["x"]
            S = gen.mk_sptensor(ttb, x["shape"], x["subs"], x["vals"])
            T = S.full() if len(x["subs"]) else gen.mk_tensor(ttb, x["shape"], [0] * gen.numel(x["shape"]))
            o = np.array(c["order"])
            inv = np.argsort(o)
            r = call(lambda: {
                "pd": dense_j(T.permute(o).permute(inv)), "ps": sparse_sorted_j(sparse_j(S.permute(o).permute(inv))),
                "agree_p": deep_eq(dense_j(S.permute(o).full() if S.nnz else T.permute(o)), dense_j(T.permute(o))),
                "rd": dense_j(T.reshape(tuple(c["shape"])).reshape(tuple(x["shape"]))),
                "agree_r": deep_eq(dense_j(S.reshape(tuple(c["shape"])).full()) if S.nnz else dense_j(T.reshape(tuple(c["shape"]))),
                                   dense_j(T.reshape(tuple(c["shape"])))),
            })
            tags = [f"N{len(x['shape'])}"]
            if "ok" not in r:
                out.append(Verdict("violation", "a valid permute/reshape round trip raised", r, None, None, tags))
                continue
            r = r["ok"]
            want_d = dense_j(T)
            bad = None
            if not deep_eq(r["pd"], want_d):
                bad = "permute followed by the inverse permute changed the dense tensor"
            elif not deep_eq(r["ps"], sparse_sorted_j(x)):
                bad = "permute followed by the inverse permute changed the sparse tensor"
            elif not r["agree_p"]:
                bad = "sparse and dense permute disagree"
            elif not deep_eq(r["rd"], want_d):
                bad = "reshape and reshape back changed the tensor"
            elif not r["agree_r"]:
                bad = "sparse and dense reshape disagree"
            out.append(Verdict("violation" if bad else "ok", bad or "", r, None, None, tags, gen.numel(x["shape"]) > 1))
        return out


def tucker_j(t):
    return {"core": dense_j(t.core), "factors": [jval(np.asarray(f)) for f in t.factor_matrices]}


class Holders(Family):
    """ONE array held as tensor, sptensor, ktensor and ttensor (superdiagonal core): the four permutes denote the
    permuted array and agree with the Lean model; permute . inverse and reshape . reshape-back return the STORED
    object for every holder; sparse partial reshape and back is the permute that moves the reshaped modes last;
    dense and sparse reshape / squeeze agree."""
    name = "holders"
    theorems = ("C07_permute_agree", "C07_permute_spec", "C07_permute_full_sparse", "C07_permute_full_ktensor",
                "C07_permute_full_ttensor", "C07_permute_inverse_sparse", "C07_permute_inverse_ktensor",
                "C07_permute_inverse_ttensor", "C07_permute_id_sparse", "C07_reshape_back_sparse",
                "C07_sp_reshape_partial_back", "C07_reshape_wf_sparse", "C07_reshape_agree_dense_sparse",
                "C07_reshape_full_sparse", "C07_squeeze_agree_dense_sparse", "C07_permute_wf_ttensor")

    def gen(self, rng, tier):
        out = []
        shapes = [[3], [1], [2, 3], [1, 1], [3, 1, 2], [2, 3, 4], [1, 1, 1], [2, 1, 3, 2]]
        shapes += [gen.shape(rng, 1, 4, 3) for _ in range(6 if tier == "quick" else 60)]
        for s in shapes:
            N = len(s)
            R = rng.randint(1, 2)
            k = {"weights": gen.int_values(rng, R, -3, 3, nonzero=True), "factors": [gen.matrix(rng, m, R) for m in s]}
            if rng.random() < 0.15:
                k["weights"] = [0] * R  # the zero array: nothing stored in the sparse holder
            for o in orders_for(rng, N, tier):
                om = rng.sample(range(N), rng.randint(1, N))
                if rng.random() < 0.3:
                    om = list(range(N - len(om), N))  # trailing modes in order: the round trip is the identity
                out.append({"k": k, "order": o, "shape": rng.choice(factorizations(gen.numel(s))),
                            "old_modes": om, "pshape": rng.choice(factorizations(gen.numel([s[m] for m in om]), 3))})
        return out

    def evaluate(self, cases):
        built, reqs = [], []
        for c in cases:
            k = c["k"]
            s = [len(f) for f in k["factors"]]
            N, R = len(s), len(k["weights"])
            K = gen.mk_ktensor(ttb, k["weights"], k["factors"])
            D = K.full()
            dj = dense_j(D)
            subs = [i for i in gen.all_subs(s) if dense_at(dj)(i) != 0]
            sj = {"shape": s, "subs": subs, "vals": [dense_at(dj)(i) for i in subs]}
            S = gen.mk_sptensor(ttb, s, sj["subs"], sj["vals"])
            core = np.zeros((R,) * N)
            for r in range(R):
                core[(r,) * N] = k["weights"][r]
            T = ttb.ttensor(ttb.tensor(core, copy=True), [np.array(f, dtype=float).reshape(len(f), R) for f in k["factors"]])
            tj = tucker_j(T)
            built.append((K, D, S, T, dj, sj, tj))
            reqs += [{"op": "dense_permute", "T": dj, "order": c["order"]},
                     {"op": "sp_permute", "S": sj, "order": c["order"]},
                     {"op": "k_permute", "K": k, "order": c["order"]},
                     {"op": "t_permute", "T": tj, "order": c["order"]},
                     {"op": "sp_reshape", "S": sj, "shape": c["shape"], "old_modes": None},
                     {"op": "sp_reshape", "S": sj, "shape": c["pshape"], "old_modes": c["old_modes"]},
                     {"op": "sp_permute", "S": sj,
                      "order": [m for m in range(N) if m not in c["old_modes"]] + c["old_modes"]},
                     {"op": "dense_squeeze", "T": dj}, {"op": "sp_squeeze", "S": sj}]
        models = drive(reqs)
        out = []
        for n, (c, (K, D, S, T, dj, sj, tj)) in enumerate(zip(cases, built)):
            m_pd, m_ps, m_pk, m_pt, m_rs, m_rp, m_back, m_sqd, m_sqs = models[9 * n: 9 * n + 9]
            s = dj["shape"]
            N = len(s)
            o = np.array(c["order"], dtype=int)
            inv = np.argsort(o)
            om = c["old_modes"]
            keep = [m for m in range(N) if m not in om]
            tags = [f"N{N}", "zero" if not sj["subs"] else "nonzero", "trailing" if keep + om == list(range(N)) else "moved"]

            def sq(r, rep):
                if isinstance(r, (float, int, np.floating, np.integer)):
                    return {"scalar": jval(r)}
                return {"obj": dense_j(r) if rep == "dense" else sparse_j(r)}

            r = call(lambda: {
                "pd": dense_j(D.permute(o)), "ps": sparse_j(S.permute(o)), "pk": ktensor_j(K.permute(o)),
                "pt": tucker_j(T.permute(o)),
                "pk_full": dense_j(K.permute(o).full()), "pt_full": dense_j(T.permute(o).full()),
                "t_full": dense_j(T.full()),
                "inv_s": sparse_j(S.permute(o).permute(inv)), "inv_k": ktensor_j(K.permute(o).permute(inv)),
                "inv_t": tucker_j(T.permute(o).permute(inv)),
                "id_s": sparse_j(S.permute(np.arange(N))),
                "rd": dense_j(D.reshape(tuple(c["shape"]))), "rs": sparse_j(S.reshape(tuple(c["shape"]))),
                "rs_back": sparse_j(S.reshape(tuple(c["shape"])).reshape(tuple(s))),
                "rp": sparse_j(S.reshape(tuple(c["pshape"]), np.array(om, dtype=int))),
                "rp_back": sparse_j(S.reshape(tuple(c["pshape"]), np.array(om, dtype=int))
                                    .reshape(tuple(s[m] for m in om), np.arange(len(keep), len(keep) + len(c["pshape"])))),
                "sqd": sq(D.squeeze(), "dense"), "sqs": sq(S.squeeze(), "sparse"),
            })
            if "ok" not in r:
                out.append(Verdict("violation", "a valid permute / reshape / squeeze of a holder raised", r, None, None, tags))
                continue
            r = r["ok"]
            spec = spec_permute(s, dense_at(dj), c["order"])
            bad = None
            checks = [
                (deep_eq({"ok": r["pd"]}, m_pd), "tensor.permute differs from the proved model"),
                (deep_eq({"ok": r["ps"]}, m_ps), "sptensor.permute differs from the proved model"),
                (deep_eq({"ok": r["pk"]}, m_pk), "ktensor.permute differs from the proved model"),
                (deep_eq({"ok": r["pt"]}, m_pt), "ttensor.permute differs from the proved model"),
                (deep_eq(r["t_full"], dj), "harness: the Tucker holder does not hold the array"),
                (deep_eq(r["pd"], spec), "tensor.permute is not the permuted array"),
                (deep_eq(sp_to_dense_j(r["ps"]), spec), "sptensor.permute is not the permuted array"),
                (deep_eq(r["pk_full"], spec), "ktensor.permute does not denote the permuted array"),
                (deep_eq(r["pt_full"], spec), "ttensor.permute does not denote the permuted array"),
                (deep_eq(r["inv_s"], sj), "sptensor: permute then inverse permute changed the stored tensor"),
                (deep_eq(r["inv_k"], ktensor_j(K)), "ktensor: permute then inverse permute changed the factors"),
                (deep_eq(r["inv_t"], tj), "ttensor: permute then inverse permute changed core or factors"),
                (deep_eq(r["id_s"], sj), "sptensor: the identity order changed the stored tensor"),
                (deep_eq({"ok": r["rs"]}, m_rs), "sptensor.reshape differs from the proved model"),
                (deep_eq(sp_to_dense_j(r["rs"]), r["rd"]), "sparse and dense reshape disagree"),
                (deep_eq(r["rs_back"], sj), "sptensor: reshape and reshape back changed the stored tensor"),
                (deep_eq({"ok": r["rp"]}, m_rp), "sptensor partial reshape differs from the proved model"),
                (deep_eq({"ok": r["rp_back"]}, m_back),
                 "sptensor: partial reshape and back is not the permute that moves the reshaped modes last"),
                (keep + om != list(range(N)) or deep_eq(r["rp_back"], sj),
                 "sptensor: partial reshape of the trailing modes and back changed the stored tensor"),
                (deep_eq({"ok": r["sqd"]}, m_sqd), "tensor.squeeze differs from the proved model"),
                (deep_eq({"ok": r["sqs"]}, m_sqs), "sptensor.squeeze differs from the proved model"),
                (("scalar" in r["sqd"]) == ("scalar" in r["sqs"]), "squeeze: scalar for one holder, object for the other"),
                (deep_eq(r["sqd"], r["sqs"]) if "scalar" in r["sqd"] and "scalar" in r["sqs"] else
                 ("obj" not in r["sqs"] or "obj" not in r["sqd"] or deep_eq(sp_to_dense_j(r["sqs"]["obj"]), r["sqd"]["obj"])),
                 "sparse and dense squeeze disagree"),
            ]
            for ok, what in checks:
                if not ok:
                    bad = what
                    break
            nontriv = gen.numel(s) > 1 and c["order"] != list(range(N))
            if bad and bad.startswith("harness:"):
                out.append(Verdict("corr", bad, r, None, None, tags))
            else:
                out.append(Verdict("violation" if bad else "ok", bad or "", r if bad else None, None, spec if bad else None,
                                   tags, nontriv))
        return out

    def shrink(self, case):
        return []


def families():
    return [Permute(), Reshape(), Squeeze(), Roundtrip(), Holders()]
