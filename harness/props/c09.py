"""C09 — CP-ALS returns a model consistent with everything it reports.

Tie between /repo's `cp_als` and the Lean model `PyttbModel/Alg/CpAls.lean` by TRACE
VALIDATION, without editing /repo:

* the data tensor is handed to `cp_als` inside a duck-typed wrapper that delegates to the real
  object and records the arguments and results of `mttkrp`, `innerprod`, `norm`, `nvecs`
  (the factor list passed to `mttkrp` is the live loop variable `U`, so the wrapper sees the
  whole state before every mode update and, after the call, the state after the last one);
* `np.linalg.solve` is replaced (and restored in `finally`) by a recording pass-through;
* the run is repeated with iteration limits 1..k+1 from the same start (exact loop values of
  `fit`, `normresidual`, `iters` after every pass);
* for every pass the model's `iterStep`, executed by the driver at `Float` from the recorded
  state with the recorded service outputs, must reproduce the recorded next state
  (relative 1e-9, absolute 1e-12), the decision fields (stop flag, `iters`) exactly, and
  every recorded solve must satisfy its contract `A · Y = B`.

PLUS the property itself on the implementation, recomputed with plain numpy from the case's
integers and the returned factor matrices (no pyttb code).
"""
from __future__ import annotations

import contextlib
import io
import itertools
import math
import struct
import time
import warnings

import numpy as np
import pyttb as ttb
import scipy.sparse.linalg

from harness import gen
from harness.lib import DriverError, Family, Verdict, call
from harness.lib import drive as _drive
from harness.translate import gen_cpals

def drive(reqs):
    """lib.drive, patient with a driver binary that another check is relinking right now."""
    for attempt in range(40):
        try:
            return _drive(reqs)
        except DriverError as e:
            if "driver not built" not in str(e) and "exit -" not in str(e) and "Text file busy" not in str(e):
                raise
            if attempt == 39:
                raise
            time.sleep(1.5)


RULE = ("cases come from random.Random(VERIF_SEED): integer-valued data tensors of order 2..3 (4 in thorough) with "
        "extents 1..5 (distinct where possible) given as dense, sparse (stored order sorted/reversed/shuffled), "
        "Tucker or sum tensors (dense|sparse + Kruskal part), every unfolding of rank >= the requested rank 1..3; "
        "starts: given integer Kruskal guesses (weights != 1 too), 'random' under seeds 0..9999, 'nvecs'; every "
        "mode order and every non-empty subset of optimised modes for order <= 3 (enumerated completely for one "
        "tensor per data kind), iteration limits 1..6, stoptol in {0, 1e-9, 1e-4, 1e-2, 0.1}, fixsigns on/off, "
        "printitn in {0,1,2,5}; the family `scale` (run first) repeats every representation with all values multiplied "
        "by 1e-12 .. 1e+12 (8 decades quick, 16 thorough; printitn 0 and 1) and the exactly-zero tensor as dense, "
        "sparse, Tucker and sum data, every comparison relative to the size of the quantities involved; plus "
        "degenerate inputs (zero tensor, zero factor in the guess) and a malformed "
        "stream (bad dimorder / optdims / rank / start / limit 0). Normal form is checked as: every column has 2-norm 1 "
        "to 1e-8, or is entirely zero with weight exactly 0 (a component that collapsed to zero, tag zero-component "
        "- the `unit or zero` alternative of C09_normal_form). A case is non-trivial when cp_als accepts it, no "
        "solve was refused, no component collapsed and the data is not the zero tensor; distinct = distinct case hash")
ASSUMPTIONS = [
    "IEEE rounding is not modelled: one pass of the loop is compared with the model at Float from the recorded "
    "state (relative 1e-9, absolute 1e-12); quantities formed by cancellation (normresidual, fit) are compared on "
    "the scale of the cancelled terms (|nr^2 - nr'^2| <= 1e-11 (|X|^2+|M|^2) + 1e-8 nr^2)",
    "np.linalg.solve is a service with contract A·Y = B; the contract is checked on every recorded call "
    "(residual <= 1e-10 (|A||Y| + |B|)); monotonicity of the fit is only demanded when every recorded coefficient "
    "matrix has condition number < 1e10",
    "data.mttkrp / data.innerprod / data.norm / data.nvecs are services of the data object (C02, C14); the harness "
    "checks the recorded mttkrp results against plain numpy on every call",
    "np.argsort / np.argmax ties: when two weights or the two largest magnitudes of a column agree to 1e-9 the "
    "returned model is compared as a dense array instead of factor by factor",
    "scipy.sparse.linalg.eigsh (behind data.nvecs) is called with a fixed start vector v0 so that repeated runs "
    "from init='nvecs' follow one trajectory (ARPACK's own start vector is drawn from a stateful generator)",
    "normal form: a column of the returned model may be entirely zero when its weight is exactly 0 (a component "
    "that collapsed, e.g. a start orthogonal to the data); every other column must have 2-norm 1 to 1e-8 — this "
    "is the `unit or zero` alternative of C09_normal_form; such cases are tagged zero-component and counted trivial",
    "printed text is captured and not compared; printitn only matters through the final recomputation of the report",
]
EXHAUSTIVE = {"quick": False, "thorough": False}
TRUSTED_EXTRA = ["harness/translate/gen_cpals.py: reading of the scalar-formula subset of pyttb/cp_als.py "
                 "(cross-checked on every run by the family `formulas`: generated Lean at Float vs eval of the "
                 "Python expression)"]

REL, ABS = 1e-9, 1e-12
PROP_REL = 1e-8


# ----------------------------------------------------------------------------
# float <-> bit strings
# ----------------------------------------------------------------------------
def bits(x):
    return str(struct.unpack("<Q", struct.pack("<d", float(x)))[0])


def unbits(s):
    return struct.unpack("<d", struct.pack("<Q", int(s)))[0]


def mat_bits(A):
    A = np.asarray(A, dtype=float)
    return [[bits(v) for v in row] for row in A]


def mat_unbits(rows, ncols=None):
    if len(rows) == 0:
        return np.zeros((0, ncols or 0))
    return np.array([[unbits(v) for v in row] for row in rows], dtype=float).reshape(len(rows), -1)


def approx(a, b, rel=REL, ab=ABS):
    a, b = np.asarray(a, dtype=float), np.asarray(b, dtype=float)
    if a.shape != b.shape:
        return False
    if a.size == 0:
        return True
    same_nan = np.isnan(a) & np.isnan(b)
    with np.errstate(invalid="ignore"):
        ok = (np.abs(a - b) <= ab + rel * np.maximum(np.abs(a), np.abs(b))) | same_nan | (a == b)
    return bool(ok.all())


def close_resid(nr_a, nr_b, scale2, rel=PROP_REL):
    """Two residual norms whose squares were formed by cancellation of terms of size scale2."""
    a2, b2 = float(nr_a) ** 2, float(nr_b) ** 2
    return abs(a2 - b2) <= 1e-11 * scale2 + rel * max(a2, b2) + 1e-300


# ----------------------------------------------------------------------------
# data: case JSON -> pyttb object / plain numpy array
# ----------------------------------------------------------------------------
LETTERS = "abcdefgh"


def kr_dense(weights, factors):
    """Dense array of a Kruskal tensor with plain numpy."""
    N = len(factors)
    spec = ",".join(LETTERS[n] + "z" for n in range(N)) + ",z->" + LETTERS[:N]
    return np.einsum(spec, *[np.asarray(f, dtype=float) for f in factors], np.asarray(weights, dtype=float))


def dense_of(d):
    k = d["kind"]
    shape = tuple(d["shape"])
    if k == "dense":
        return np.array(d["data"], dtype=float).reshape(shape, order="F")
    if k == "sparse":
        A = np.zeros(shape)
        for s, v in zip(d["subs"], d["vals"]):
            A[tuple(s)] += v
        return A
    if k == "tucker":
        N = len(shape)
        core = np.array(d["core"]["data"], dtype=float).reshape(tuple(d["core"]["shape"]), order="F")
        spec = LETTERS[N:2 * N] + "," + ",".join(LETTERS[n] + LETTERS[N + n] for n in range(N)) + "->" + LETTERS[:N]
        return np.einsum(spec, core, *[np.array(f, dtype=float).reshape(shape[n], -1) for n, f in enumerate(d["factors"])])
    if k == "ktensor":
        return kr_dense(d["weights"], [np.array(f, dtype=float).reshape(shape[n], -1) for n, f in enumerate(d["factors"])])
    if k == "sum":
        return sum(dense_of(p) for p in d["parts"])
    raise ValueError(k)


def obj_of(d):
    k = d["kind"]
    shape = tuple(d["shape"])
    if k == "dense":
        return gen.mk_tensor(ttb, d["shape"], d["data"])
    if k == "sparse":
        return gen.mk_sptensor(ttb, d["shape"], d["subs"], d["vals"])
    if k == "tucker":
        return ttb.ttensor(gen.mk_tensor(ttb, d["core"]["shape"], d["core"]["data"]),
                           [np.array(f, dtype=float).reshape(shape[n], -1) for n, f in enumerate(d["factors"])])
    if k == "ktensor":
        return gen.mk_ktensor(ttb, d["weights"], d["factors"])
    if k == "sum":
        return ttb.sumtensor([obj_of(p) for p in d["parts"]])
    raise ValueError(k)


def scale_data(d, sc):
    """The data description with every value multiplied by the float `sc` (one factor per part)."""
    if sc == 1:
        return d
    k = d["kind"]
    if k == "dense":
        return {**d, "data": [float(v) * sc for v in d["data"]]}
    if k == "sparse":
        return {**d, "vals": [float(v) * sc for v in d["vals"]]}
    if k == "tucker":
        return {**d, "core": {**d["core"], "data": [float(v) * sc for v in d["core"]["data"]]}}
    if k == "ktensor":
        return {**d, "weights": [float(v) * sc for v in d["weights"]]}
    if k == "sum":
        return {**d, "parts": [scale_data(q, sc) for q in d["parts"]]}
    raise ValueError(k)


def case_scale(case):
    return float(case.get("scale", 1.0))


def case_obj(case):
    """The pyttb data object of a case (integer description times the case's scale)."""
    return obj_of(scale_data(case["data"], case_scale(case)))


def case_dense(case):
    """The same array with plain numpy, scaled after assembling the integer array."""
    return case_scale(case) * dense_of(case["data"])


def snapshot(o):
    """Bytes of every array an object owns (for the bitwise 'not modified' check)."""
    if isinstance(o, ttb.tensor):
        return [o.data.tobytes(), o.shape]
    if isinstance(o, ttb.sptensor):
        return [o.subs.tobytes(), o.vals.tobytes(), o.shape]
    if isinstance(o, ttb.ttensor):
        return [snapshot(o.core)] + [f.tobytes() for f in o.factor_matrices]
    if isinstance(o, ttb.ktensor):
        return [o.weights.tobytes()] + [f.tobytes() for f in o.factor_matrices] + [[f.shape for f in o.factor_matrices]]
    if isinstance(o, ttb.sumtensor):
        return [snapshot(p) for p in o.parts]
    raise TypeError(type(o))


def mttkrp_np(X, U, n):
    """X_(n) · khatrirao(all U but n) with plain numpy."""
    N = X.ndim
    R = U[0 if n != 0 else 1].shape[1] if N > 1 else 1
    ops, spec = [X], [LETTERS[:N]]
    for m in range(N):
        if m != n:
            ops.append(np.asarray(U[m], dtype=float))
            spec.append(LETTERS[m] + "z")
    out = np.einsum(",".join(spec) + "->" + LETTERS[n] + "z", *ops)
    return out.reshape(X.shape[n], R)


# ----------------------------------------------------------------------------
# recording
# ----------------------------------------------------------------------------
class Rec:
    """Duck-typed stand-in for the data tensor: delegates and records."""

    def __init__(self, X):
        self._X = X
        self.events = []  # ("mttkrp", n, [U copies], out) | ("solve", a, b, out) | ("innerprod", out) | ("nvecs", n, r, out)
        self.live_U = None
        self.norm_value = None

    @property
    def ndims(self):
        return self._X.ndims

    @property
    def shape(self):
        return self._X.shape

    def norm(self):
        v = self._X.norm()
        self.norm_value = v
        return v

    def mttkrp(self, U, n):
        self.live_U = U
        out = self._X.mttkrp(U, n)
        self.events.append(("mttkrp", int(n), [np.array(u, dtype=float, copy=True) for u in U], np.array(out, copy=True)))
        return out

    def innerprod(self, M):
        v = self._X.innerprod(M)
        self.events.append(("innerprod", float(v)))
        return v

    def nvecs(self, n, r):
        out = self._X.nvecs(n, r)
        self.events.append(("nvecs", int(n), int(r), np.array(out, copy=True)))
        return out


@contextlib.contextmanager
def recording_solve(rec):
    real = np.linalg.solve

    def solve(a, b, *args, **kw):
        out = real(a, b, *args, **kw)
        rec.events.append(("solve", np.array(a, copy=True), np.array(b, copy=True), np.array(out, copy=True)))
        return out

    real_eigsh = scipy.sparse.linalg.eigsh

    def eigsh(A, k=6, *args, **kw):
        # ARPACK's default start vector comes from a stateful generator: repeated calls
        # differ in the last bits.  A fixed positive start keeps the runs with limits 1..k+1
        # on one trajectory (any start is within eigsh's contract).
        if kw.get("v0") is None:
            kw["v0"] = np.random.RandomState(777).uniform(0.5, 1.5, A.shape[0])
        return real_eigsh(A, k, *args, **kw)

    np.linalg.solve = solve
    scipy.sparse.linalg.eigsh = eigsh
    try:
        yield
    finally:
        np.linalg.solve = real
        scipy.sparse.linalg.eigsh = real_eigsh


def init_arg(case):
    i = case["init"]
    if i["kind"] == "given":
        return gen.mk_ktensor(ttb, i["weights"], i["factors"])
    if i["kind"] == "random":
        np.random.seed(i["seed"])
        return "random"
    if i["kind"] == "nvecs":
        return "nvecs"
    if i["kind"] == "string":
        return i["value"]
    if i["kind"] == "raw":  # malformed: factor matrices of arbitrary shapes
        return ttb.ktensor([np.array(f, dtype=float).reshape(len(f), -1) for f in i["factors"]],
                           np.array(i["weights"], dtype=float))
    raise ValueError(i["kind"])


def run_once(case, maxiters, printitn):
    X = case_obj(case)
    before = snapshot(X)
    rec = Rec(X)
    out = {"rec": rec}
    try:
        init = init_arg(case)
    except Exception as e:  # noqa: BLE001  (a malformed guess the ktensor constructor refuses)
        out["res"] = {"reject": True, "exc": type(e).__name__, "msg": str(e)[:120], "where": "init"}
        return out
    guess_before = snapshot(init) if isinstance(init, ttb.ktensor) else None
    kw = {}
    if case.get("dimorder") is not None:
        kw["dimorder"] = list(case["dimorder"])
    if case.get("optdims") is not None:
        kw["optdims"] = list(case["optdims"])
    buf = io.StringIO()
    with warnings.catch_warnings(), np.errstate(all="ignore"), contextlib.redirect_stdout(buf), recording_solve(rec):
        warnings.simplefilter("ignore")
        res = call(ttb.cp_als, rec, case["rank"], stoptol=float(case["stoptol"]), maxiters=maxiters,
                   init=init, printitn=printitn, fixsigns=case["fixsigns"], **kw)
    out.update(res=res, stdout=buf.getvalue(), data_same=(snapshot(X) == before), guess=init,
               guess_same=(guess_before is None or snapshot(init) == guess_before),
               live_U=None if rec.live_U is None else [np.array(u, copy=True) for u in rec.live_U],
               normX=rec.norm_value)
    return out


def passes_of(rec, ndims_opt):
    """Group the recorded events into passes: list of lists of (n, Ucopies, mttkrp_out, solve_event|None)."""
    steps = []
    for ev in rec.events:
        if ev[0] == "mttkrp":
            steps.append([ev[1], ev[2], ev[3], None])
        elif ev[0] == "solve" and steps:
            steps[-1][3] = ev
    return [steps[i:i + ndims_opt] for i in range(0, len(steps), ndims_opt)]


# ----------------------------------------------------------------------------
# the main family
# ----------------------------------------------------------------------------
def reduced_dims(case):
    N = len(case["data"]["shape"])
    do = case["dimorder"] if case.get("dimorder") is not None else list(range(N))
    od = case["optdims"] if case.get("optdims") is not None else list(range(N))
    return [d for d in do if d in od]


def fail(kind, what, tags, impl=None, model=None, nontrivial=True):
    return Verdict(kind, what, impl, model, None, tags, nontrivial)


def tie_in(values, rel=1e-9):
    v = sorted(abs(float(x)) for x in values)
    return any(abs(a - b) <= rel * max(a, b, 1e-300) for a, b in zip(v, v[1:]))


class Trace(Family):
    name = "trace"
    theorems = ("C09_shape_rank", "C09_normal_form", "C09_knorm", "C09_iprod", "C09_residual", "C09_residual_sum",
                "C09_residual_returned", "C09_normal_equations", "C09_gram_khatrirao", "C09_mode_update_optimal",
                "C09_fit_monotone_partial", "C09_iters_le", "C09_stop_rule", "C09_init_returned")

    # -- generation ---------------------------------------------------------
    def gen(self, rng, tier):
        n = 80 if tier == "quick" else 400
        out = []
        kinds = ["dense", "sparse", "tucker", "sum"]
        for i in range(n):
            out.append(random_case(rng, kinds[i % 4], tier))
        # degenerate inputs: both guards of the mode update
        out += degenerate_cases(rng)
        return out

    # -- evaluation -----------------------------------------------------------
    def evaluate(self, cases):
        prepared = [self.prepare(c) for c in cases]
        reqs = []
        for p in prepared:
            p["req_at"] = len(reqs)
            reqs += p["reqs"]
        replies = drive(reqs)
        out = []
        for c, p in zip(cases, prepared):
            rep = replies[p["req_at"]:p["req_at"] + len(p["reqs"])]
            try:
                out.append(self.judge(c, p, rep))
            except Exception as e:  # noqa: BLE001
                raise RuntimeError(f"harness error on case {c}: {type(e).__name__}: {e}") from e
        return out

    def prepare(self, case):
        """Run the implementation, build the driver requests."""
        k = case["k"]
        pr = case["printitn"]
        runs_p = [run_once(case, j, pr) for j in range(1, k + 2)]
        runs_0 = runs_p if pr == 0 else [run_once(case, j, 0) for j in range(1, k + 2)]
        p = {"runs_p": runs_p, "runs_0": runs_0, "reqs": [], "plan": []}
        shape = case["data"]["shape"]
        N = len(shape)
        # option validation by the model
        ini = case["init"]
        sreq = {"op": "c09_setup", "shape": shape, "rank": case["rank"], "maxiters": 1,
                "dimorder": case.get("dimorder"), "optdims": case.get("optdims"),
                "init": ini["kind"], "has_nvecs": case["data"]["kind"] != "sum"}
        if ini["kind"] == "given":
            sreq["factors"] = [mat_bits(np.array(f, dtype=float).reshape(len(f), -1)) for f in ini["factors"]]
            sreq["weights"] = [bits(w) for w in ini["weights"]]
        elif ini["kind"] == "random":
            sreq["factors"] = [mat_bits(np.zeros((shape[n], case["rank"]))) for n in range(N)]
        p["reqs"].append(sreq)
        p["plan"].append(("setup",))
        if any("ok" not in r["res"] for r in runs_p + runs_0):
            return p
        dims = reduced_dims(case)
        longest = runs_0[-1]
        passes = passes_of(longest["rec"], len(dims))
        p["passes"] = passes
        normX = longest["normX"]
        fits0 = [float(r["res"]["ok"][2]["fit"]) for r in runs_0]
        for t, steps in enumerate(passes):
            if len(steps) != len(dims):
                continue
            fitold = 0.0 if t == 0 else fits0[t - 1]
            req = {"op": "c09_iter", "shape": shape, "rank": case["rank"], "stoptol": bits(case["stoptol"]),
                   "norm": bits(normX), "dims": dims, "iteration": t,
                   "U": [mat_bits(u) for u in steps[0][1]], "fit": bits(fitold),
                   "mttkrp": [{"n": s[0], "out": mat_bits(s[2])} for s in steps],
                   "solve": [{"n": s[0], "out": mat_bits(s[3][3].T)} for s in steps if s[3] is not None]}
            p["reqs"].append(req)
            p["plan"].append(("iter", t))
        # loop control for every limit
        npass = len(passes)
        for j in range(1, k + 2):
            p["reqs"].append({"op": "c09_ctrl", "fits": [bits(f) for f in fits0[:npass]],
                              "stoptol": bits(case["stoptol"]), "maxiters": j})
            p["plan"].append(("ctrl", j))
        return p

    # -- verdict ------------------------------------------------------------------
    def judge(self, case, p, rep):
        d = case["data"]
        shape = d["shape"]
        N = len(shape)
        R = case["rank"]
        k = case["k"]
        tags = [d["kind"], f"N{N}", f"R{R}", "init-" + case["init"]["kind"], f"k{k}", f"print{case['printitn']}",
                "fixsigns" if case["fixsigns"] else "nofixsigns",
                "dimorder-default" if case.get("dimorder") is None else "dimorder-given",
                "optdims-all" if case.get("optdims") is None or len(set(case["optdims"])) >= N else "optdims-subset"]
        if case.get("degenerate"):
            tags.append("degenerate-" + case["degenerate"])
        runs_p, runs_0 = p["runs_p"], p["runs_0"]
        setup = rep[0]
        # ---- rejections ----------------------------------------------------
        bad = [r for r in runs_p + runs_0 if "ok" not in r["res"]]
        if bad:
            exc = bad[0]["res"].get("exc")
            if exc == "LinAlgError":
                tags.append("solve-refused")
                return Verdict("ok", "", {"reject": exc}, None, None, tags, False)
            if "reject" in setup:
                tags.append("reject")
                return Verdict("ok", "", {"reject": exc}, setup, None, tags, False)
            return fail("violation", f"cp_als raised {exc}: {bad[0]['res'].get('msg')} on an admissible request",
                        tags, bad[0]["res"], setup)
        if "reject" in setup:
            return fail("corr", "the model rejects a request that cp_als accepts", tags, "accepted", setup)
        dims = reduced_dims(case)
        last = dims[-1]
        if setup["ok"]["dims"] != dims:
            return fail("corr", "reduced dimorder differs", tags, dims, setup)
        X = case_dense(case)
        normX_true = float(np.sqrt((X ** 2).sum()))
        is_sum = d["kind"] == "sum"
        if case_scale(case) != 1.0:
            tags.append("scale1e%+d" % round(math.log10(case_scale(case))))
        if normX_true == 0:
            tags.append("zero-data")
        passes = p["passes"]
        longest = runs_0[-1]
        normX = longest["normX"]
        zero_branch = (normX == 0)
        if not is_sum and not math.isclose(normX, normX_true, rel_tol=1e-12, abs_tol=0):
            return fail("violation", "data.norm() is not the Frobenius norm of the data", tags, normX, normX_true)
        sigma_ok = all(np.linalg.matrix_rank(np.moveaxis(X, n, 0).reshape(shape[n], -1)) >= R for n in range(N))
        nontrivial = sigma_ok and normX_true > 0 and not case.get("degenerate")
        if not sigma_ok:
            tags.append("rank-deficient-data")

        # ---- determinism of the observation: shorter runs are prefixes -------
        for r in runs_0[:-1] + (runs_p if runs_p is not runs_0 else []):
            ev_s = [e for e in r["rec"].events if e[0] == "mttkrp"]
            ev_l = [e for e in longest["rec"].events if e[0] == "mttkrp"]
            if len(ev_s) > len(ev_l) or not all(
                    a[1] == b[1] and all((x == y).all() or (np.isnan(x) & np.isnan(y)).any() for x, y in zip(a[2], b[2]))
                    for a, b in zip(ev_s, ev_l)):
                return fail("corr", "runs with a smaller iteration limit are not prefixes of the longest run", tags)

        # ---- conditioning of the recorded coefficient matrices ----------------
        illcond = False
        for steps in passes:
            for (_n, _Us, _mout, sev) in steps:
                if sev is not None:
                    with np.errstate(all="ignore"):
                        try:
                            if not (np.isfinite(sev[1]).all() and np.linalg.cond(sev[1]) < 1e10):
                                illcond = True
                        except np.linalg.LinAlgError:
                            illcond = True
        if illcond:
            tags.append("ill-conditioned")

        # ---- the property on the implementation, with plain numpy (first: a violation of
        # the property outranks a disagreement with the model) ----------------------
        v = self.property_checks(case, runs_p, runs_0, X, normX_true, dims, illcond, tags)
        if v is not None:
            return v
        if "non-finite" in tags:
            # inf/nan from a numerically singular solve: 0*nan differs between a sparse and a dense
            # evaluation of the same MTTKRP, so there is no state sequence to validate
            return Verdict("ok", "", None, None, None, tags, False)

        # ---- services: mttkrp results and solve contracts --------------------
        for t, steps in enumerate(passes):
            for (n, Us, mout, sev) in steps:
                ref = mttkrp_np(X, Us, n)
                if not approx(mout, ref, 1e-9, 1e-9 * float(np.abs(ref).max(initial=0)) + 1e-300):
                    return fail("violation", f"data.mttkrp(U, {n}) differs from X_(n)·khatrirao at pass {t}", tags,
                                mout.tolist(), ref.tolist())
                if sev is not None:
                    a, b, x = sev[1], sev[2], sev[3]
                    res = np.linalg.norm(a @ x - b)
                    if not res <= 1e-10 * (np.linalg.norm(a) * np.linalg.norm(x) + np.linalg.norm(b)) + 1e-300:
                        return fail("corr", f"np.linalg.solve broke its contract at pass {t} mode {n} (residual {res})", tags)

        # ---- trace validation: model step == recorded step ---------------------
        fits0 = [float(r["res"]["ok"][2]["fit"]) for r in runs_0]
        nrs0 = [float(r["res"]["ok"][2]["normresidual"]) for r in runs_0]
        iters0 = [int(r["res"]["ok"][2]["iters"]) for r in runs_0]
        model_after = {}
        for plan, r in zip(p["plan"], rep):
            if plan[0] != "iter":
                continue
            t = plan[1]
            steps = passes[t]
            if "ok" not in r:
                return fail("corr", f"model rejects pass {t}", tags, None, r)
            m = r["ok"]
            st = m["state"]
            model_after[t] = m
            # after-state of U
            if t + 1 < len(passes):
                U_next = passes[t + 1][0][1]
            else:
                U_next = longest["live_U"]
            for pos, tr in enumerate(m["trace"]):
                n, _, _, sev = steps[pos]
                if tr["n"] != n:
                    return fail("corr", f"mode order differs at pass {t}", tags)
                if tr["guard"] != (sev is None):
                    return fail("corr", f"all-zero guard differs at pass {t} mode {n}", tags, sev is None, tr["guard"])
                if sev is not None and not approx(mat_unbits(tr["Y"], R), sev[1].T):
                    return fail("corr", f"coefficient matrix Y differs at pass {t} mode {n}", tags,
                                sev[1].T.tolist(), mat_unbits(tr["Y"], R).tolist())
                # the factor seen by the next mttkrp call
                if pos + 1 < len(steps):
                    seen = steps[pos + 1][1][n]
                else:
                    seen = U_next[n]
                if not approx(mat_unbits(tr["Un"], R), seen):
                    return fail("corr", f"updated factor of mode {n} differs at pass {t}", tags,
                                np.asarray(seen).tolist(), mat_unbits(tr["Un"], R).tolist())
            for n in range(N):
                if not approx(mat_unbits(st["U"][n], R), U_next[n]):
                    return fail("corr", f"state after pass {t}: factor {n} differs", tags)
            # reported loop values after t+1 passes
            fit_m, nr_m = unbits(st["fit"]), unbits(st["normresidual"])
            normM_m, iprod_m = unbits(m["normM"]), unbits(m["iprod"])
            scale2 = normX ** 2 + normM_m ** 2 + 2 * abs(iprod_m)
            if zero_branch:
                okv = abs(nr_m - nrs0[t]) <= 1e-11 * scale2 + REL * abs(nr_m) and abs(fit_m - fits0[t]) <= 1e-11 * scale2 + REL * abs(fit_m)
            else:
                okv = close_resid(nr_m, nrs0[t], scale2, REL) and \
                    close_resid((1 - fit_m) * normX, (1 - fits0[t]) * normX, scale2, REL)
            if not okv:
                return fail("corr", f"fit / normresidual after pass {t} differ", tags,
                            {"fit": fits0[t], "normresidual": nrs0[t]}, {"fit": fit_m, "normresidual": nr_m})
            if iters0[t] != t or st["iteration"] != t:
                return fail("corr", f"iteration counter after pass {t} differs", tags, iters0[t], st["iteration"])
            # stop flag: known for every pass but the last one of the longest run
            if t + 1 < len(runs_0):
                impl_stop = (iters0[t + 1] == t)
                fc = abs((0.0 if t == 0 else fits0[t - 1]) - fits0[t])
                if abs(fc - float(case["stoptol"])) > 1e-7 and st["stop"] != impl_stop:
                    return fail("corr", f"stop flag after pass {t} differs", tags, impl_stop, st["stop"])
        # loop control
        for plan, r in zip(p["plan"], rep):
            if plan[0] != "ctrl":
                continue
            j = plan[1]
            if "ok" not in r or r["ok"]["iters"] != iters0[j - 1]:
                return fail("corr", f"iters for maxiters={j} differs", tags, iters0[j - 1], r)
            if int(runs_p[j - 1]["res"]["ok"][2]["iters"]) != iters0[j - 1]:
                return fail("violation", "iters depends on printitn", tags)

        # ---- the final clean-up (second batch: needs the model's weights) -------
        freqs, fplan = [], []
        for j in range(1, k + 2):
            t = iters0[j - 1]
            if t not in model_after:
                continue
            run = runs_p[j - 1]
            ips = [e[1] for e in run["rec"].events if e[0] == "innerprod"]
            freqs.append({"op": "c09_finish", "shape": shape, "norm": bits(normX),
                          "U": [mat_bits(u) for u in run["live_U"]],
                          "weights": model_after[t]["state"]["weights"],
                          "fit": bits(fits0[j - 1]), "normresidual": bits(nrs0[j - 1]), "iteration": t,
                          "fixsigns": bool(case["fixsigns"]), "printing": case["printitn"] > 0,
                          "innerprod": bits(ips[-1] if ips else 0.0)})
            fplan.append(j)
        frep = drive(freqs)
        for j, fr in zip(fplan, frep):
            run = runs_p[j - 1]
            M, _, outp = run["res"]["ok"]
            w_m = np.array([unbits(x) for x in fr["weights"]])
            F_m = [mat_unbits(f, R) for f in fr["factors"]]
            ambiguous = tie_in(w_m) or (case["fixsigns"] and any(
                tie_in(sorted(np.abs(F[:, r]))[-2:]) for F in F_m for r in range(R) if F.shape[0] > 1))
            if ambiguous:
                if "tie" not in tags:
                    tags.append("tie")
                Md_i = kr_dense(M.weights, M.factor_matrices)
                same = approx(kr_dense(w_m, F_m), Md_i, 1e-8, 1e-9 * float(np.abs(Md_i).max(initial=0)) + 1e-300)
            else:
                same = approx(w_m, M.weights, REL, ABS * float(np.abs(M.weights).max(initial=0))) and \
                    all(approx(a, b) for a, b in zip(F_m, M.factor_matrices))
            if not same:
                return fail("corr", f"returned model differs from arrange/fixsigns of the model (maxiters={j})", tags,
                            {"weights": M.weights.tolist()}, {"weights": w_m.tolist()})
            fit_m, nr_m = unbits(fr["fit"]), unbits(fr["normresidual"])
            normM_m = unbits(fr["normM"])
            scale2 = normX ** 2 + 3 * normM_m ** 2
            fit_i, nr_i = float(outp["fit"]), float(outp["normresidual"])
            if zero_branch:
                okv = abs(nr_m - nr_i) <= 1e-11 * scale2 + REL * abs(nr_m) and abs(fit_m - fit_i) <= 1e-11 * scale2 + REL * abs(fit_m)
            else:
                okv = close_resid(nr_m, nr_i, scale2, REL) and close_resid((1 - fit_m) * normX, (1 - fit_i) * normX, scale2, REL)
            if not okv or fr["iters"] != int(outp["iters"]):
                return fail("corr", f"reported fit / normresidual / iters differ from the model (maxiters={j})", tags,
                            {"fit": fit_i, "normresidual": nr_i}, {"fit": fit_m, "normresidual": nr_m})

        if len(passes) > 1:
            tags.append("multi-pass")
        if iters0[-1] < k:
            tags.append("stopped-early")
        else:
            tags.append("limit-reached")
        return Verdict("ok", "", {"fits": fits0, "iters": iters0}, None, None, tags,
                       nontrivial and "zero-component" not in tags and "non-finite" not in tags)

    def property_checks(self, case, runs_p, runs_0, X, normX_true, dims, illcond, tags):
        d = case["data"]
        shape = tuple(d["shape"])
        N, R, k = len(shape), case["rank"], case["k"]
        is_sum = d["kind"] == "sum"
        last = dims[-1]
        degenerate = bool(case.get("degenerate"))
        stoptol = float(case["stoptol"])
        prev_obj = None
        for label, runs in (("printitn", runs_p), ("printitn=0", runs_0)):
            if label == "printitn=0" and runs is runs_p:
                continue
            prev_obj = None
            for j, run in enumerate(runs, start=1):
                M, Minit, outp = run["res"]["ok"]
                where = f"(maxiters={j}, {label})"
                # untouched inputs
                if not run["data_same"]:
                    return fail("violation", f"cp_als modified the data tensor {where}", tags)
                if not run["guess_same"]:
                    return fail("violation", f"cp_als modified the caller's initial guess {where}", tags)
                # shape / rank
                W = np.asarray(M.weights, dtype=float)
                Fs = [np.asarray(f, dtype=float) for f in M.factor_matrices]
                if not isinstance(M, ttb.ktensor) or W.shape != (R,) or len(Fs) != N or \
                        any(F.shape != (shape[n], R) for n, F in enumerate(Fs)):
                    return fail("violation", f"returned model has the wrong shape or rank {where}", tags,
                                [list(F.shape) for F in Fs], [list(shape), R])
                if not np.isfinite(W).all() or not all(np.isfinite(F).all() for F in Fs):
                    # a coefficient matrix that is singular up to rounding (np.linalg.solve refuses it
                    # when it is exactly singular) makes the solver answer inf/nan
                    if degenerate or illcond or "rank-deficient-data" in tags:
                        tags.append("non-finite")
                        return None
                    return fail("violation", f"returned model has non-finite entries {where}", tags)
                # normal form
                for n, F in enumerate(Fs):
                    cn = np.sqrt((F ** 2).sum(axis=0))
                    for r in range(R):
                        unit = abs(cn[r] - 1) <= PROP_REL
                        # a component that collapsed to zero (start orthogonal to the data, zero data,
                        # zero factor in the guess) keeps a zero column and carries weight exactly 0:
                        # the `unit or zero` alternative of C09_normal_form
                        zero_ok = cn[r] == 0 and W[r] == 0
                        if zero_ok and "zero-component" not in tags:
                            tags.append("zero-component")
                        if not (unit or zero_ok):
                            return fail("violation", f"column {r} of factor {n} has 2-norm {cn[r]!r}, not 1 {where}", tags)
                if (W < 0).any():
                    return fail("violation", f"negative weight {where}", tags, W.tolist())
                if any(W[r] < W[r + 1] for r in range(R - 1)):
                    return fail("violation", f"weights are not in decreasing order {where}", tags, W.tolist())
                # reported values against ||X - M|| recomputed
                Md = kr_dense(W, Fs)
                normM2 = float((Md ** 2).sum())
                ip = float((X * Md).sum())
                fit_r, nr_r = float(outp["fit"]), float(outp["normresidual"])
                scale2 = normX_true ** 2 + normM2 + 2 * abs(ip)
                if is_sum:
                    want = normM2 - 2 * ip
                    if abs(nr_r - want) > 1e-10 * scale2 or abs(fit_r - want) > 1e-10 * scale2:
                        return fail("violation", f"sum tensor: reported value is not |M|^2 - 2<X,M> {where}", tags,
                                    {"fit": fit_r, "normresidual": nr_r}, want)
                    obj = want
                elif normX_true == 0:
                    want = normM2 - 2 * ip
                    if abs(nr_r - want) > 1e-10 * scale2 + 1e-300 or abs(fit_r - want) > 1e-10 * scale2 + 1e-300:
                        return fail("violation", f"zero data: reported value is not |M|^2 - 2<X,M> {where}", tags)
                    obj = want
                else:
                    true_nr = float(np.sqrt(((X - Md) ** 2).sum()))
                    if not close_resid(nr_r, true_nr, scale2):
                        return fail("violation", f"reported normresidual is not ||X - M|| {where}", tags, nr_r, true_nr)
                    if not close_resid((1 - fit_r) * normX_true, true_nr, scale2):
                        return fail("violation", f"reported fit is not 1 - ||X - M|| / ||X|| {where}", tags,
                                    fit_r, 1 - true_nr / normX_true)
                    if abs(fit_r - (1 - nr_r / normX_true)) > 1e-12 * max(1.0, nr_r / normX_true):
                        return fail("violation", f"reported fit and normresidual are inconsistent {where}", tags)
                    obj = true_nr ** 2
                # monotone: ||X - M||^2 (equivalently the fit) never gets worse with one more pass
                if prev_obj is not None and not illcond and not degenerate:
                    if obj > prev_obj + 1e-11 * scale2 + 1e-10 * abs(prev_obj):
                        return fail("violation", f"fit got worse from limit {j - 1} to {j} {where}", tags, prev_obj, obj)
                prev_obj = obj
                # normal equations of the factor updated last:  A (∗_{m≠n} Um'Um) = mttkrp(X, U, n)
                A = Fs[last] * W
                G = np.ones((R, R))
                for m in range(N):
                    if m != last:
                        G = G * (Fs[m].T @ Fs[m])
                B = mttkrp_np(X, Fs, last)
                res = np.linalg.norm(A @ G - B)
                bound = 1e-8 * (np.linalg.norm(A) * np.linalg.norm(G) + np.linalg.norm(B)) + 1e-300
                if not illcond and not degenerate and not res <= bound:
                    return fail("violation", f"the factor updated last does not satisfy its normal equations {where}",
                                tags, float(res), float(bound))
                # iteration count
                it = outp["iters"]
                if not (0 <= int(it) < j):
                    return fail("violation", f"iters={it} does not respect maxiters={j}", tags)
                # the returned start is the one actually used
                first = [e for e in run["rec"].events if e[0] == "mttkrp"][0][2]
                if not isinstance(Minit, ttb.ktensor) or len(Minit.factor_matrices) != N or any(
                        a.shape != b.shape or not (a == b).all() for a, b in zip(Minit.factor_matrices, first)):
                    return fail("violation", f"returned init is not the start the iteration used {where}", tags)
                ini = case["init"]
                if ini["kind"] == "given":
                    g = run["guess"]
                    if not (Minit.weights == g.weights).all() or any(
                            not (a == b).all() for a, b in zip(Minit.factor_matrices, g.factor_matrices)):
                        return fail("violation", f"returned init differs from the caller's guess {where}", tags)
                elif ini["kind"] == "random":
                    np.random.seed(ini["seed"])
                    draws = [np.random.uniform(0, 1, (shape[n], R)) for n in range(N)]
                    if any(not (a == b).all() for a, b in zip(Minit.factor_matrices, draws)) or not (Minit.weights == 1).all():
                        return fail("violation", f"returned init is not the seeded random start {where}", tags)
                elif ini["kind"] == "nvecs":
                    nv = [e for e in run["rec"].events if e[0] == "nvecs"]
                    if [e[1] for e in nv] != list(range(N)) or any(e[2] != R for e in nv) or any(
                            not (a == e[3]).all() for a, e in zip(Minit.factor_matrices, nv)):
                        return fail("violation", f"returned init is not the nvecs start {where}", tags)
                # echoed options
                par = outp["params"]
                want_do = list(range(N)) if case.get("dimorder") is None else list(case["dimorder"])
                want_od = list(range(N)) if case.get("optdims") is None else list(case["optdims"])
                if [int(x) for x in par["dimorder"]] != want_do or [int(x) for x in par["optdims"]] != want_od \
                        or par["maxiters"] != j or par["stoptol"] != stoptol or par["fixsigns"] != case["fixsigns"]:
                    return fail("violation", f"output['params'] does not echo the request {where}", tags)
        # stop rule on the exact loop values: stopped at pass t  <=>  t > 0 and |fit_t - fit_{t-1}| < stoptol
        fits0 = [float(r["res"]["ok"][2]["fit"]) for r in runs_0]
        iters0 = [int(r["res"]["ok"][2]["iters"]) for r in runs_0]
        for j in range(1, len(runs_0)):
            t = j - 1  # last pass of the run with limit j, if it was not stopped before
            if iters0[j - 1] != t:
                continue
            stopped = iters0[j] == t
            should = t > 0 and abs(fits0[t - 1] - fits0[t]) < stoptol
            if stopped != should:
                return fail("violation", f"stop rule: pass {t} stopped={stopped} but test says {should}", tags)
        return None

    def shrink(self, case):
        c = case
        if c["k"] > 1:
            yield {**c, "k": c["k"] - 1}
        if c["printitn"] != 0:
            yield {**c, "printitn": 0}
        if c["fixsigns"]:
            yield {**c, "fixsigns": False}
        if c.get("dimorder") is not None:
            yield {**c, "dimorder": None}
        if c.get("optdims") is not None:
            yield {**c, "optdims": None}
        if c["data"]["kind"] != "dense":
            X = dense_of(c["data"])
            yield {**c, "data": {"kind": "dense", "shape": c["data"]["shape"],
                                 "data": [float(x) for x in X.flatten(order="F")]}}


# ----------------------------------------------------------------------------
# generators
# ----------------------------------------------------------------------------
def rank_ok(X, R):
    return all(np.linalg.matrix_rank(np.moveaxis(X, n, 0).reshape(X.shape[n], -1)) >= R for n in range(X.ndim))


def gen_shape(rng, N, R):
    for _ in range(100):
        pool = [s for s in range(max(R, 1), 6)]
        s = [rng.choice(pool) for _ in range(N)]
        if len(set(s)) == N or rng.random() < 0.2:
            return s
    return s


def gen_data(rng, kind, shape, R):
    N = len(shape)
    for _ in range(200):
        if kind == "dense":
            d = {"kind": "dense", "shape": shape, "data": gen.dense_data(rng, shape, zero_share=0.15)}
        elif kind == "sparse":
            cells = gen.all_subs(shape)
            nn = rng.randint(max(1, len(cells) // 2), len(cells))
            subs = rng.sample(cells, nn)
            order = rng.choice(["sorted", "reversed", "shuffled"])
            if order == "sorted":
                subs.sort(key=lambda r: list(reversed(r)))
            elif order == "reversed":
                subs.sort(key=lambda r: list(reversed(r)), reverse=True)
            d = {"kind": "sparse", "shape": shape, "subs": subs, "vals": gen.int_values(rng, nn, nonzero=True)}
        elif kind == "tucker":
            cs = [rng.randint(min(R, s), s) for s in shape]
            d = {"kind": "tucker", "shape": shape,
                 "core": {"shape": cs, "data": gen.dense_data(rng, cs, zero_share=0.1)},
                 "factors": [gen.matrix(rng, shape[n], cs[n], -3, 3) for n in range(N)]}
        elif kind == "ktensor":
            r = rng.randint(1, 2)
            d = {"kind": "ktensor", "shape": shape, "weights": gen.int_values(rng, r, 1, 3),
                 "factors": [gen.matrix(rng, shape[n], r, -3, 3) for n in range(N)]}
            return d
        elif kind == "sum":
            first = gen_data(rng, rng.choice(["dense", "sparse"]), shape, R)
            parts = [first, gen_data(rng, "ktensor", shape, R)]
            if rng.random() < 0.3:
                parts.append(gen_data(rng, "tucker", shape, 1))
            d = {"kind": "sum", "shape": shape, "parts": parts}
        else:
            raise ValueError(kind)
        if rank_ok(dense_of(d), R):
            return d
    return d


def gen_given(rng, shape, R):
    for _ in range(200):
        F = [gen.matrix(rng, s, R, -4, 4, zero_share=0.1) for s in shape]
        if all(np.linalg.matrix_rank(np.array(f, dtype=float).reshape(s, R)) == R for f, s in zip(F, shape)):
            break
    w = [1] * R if rng.random() < 0.5 else gen.int_values(rng, R, 1, 4)
    return {"kind": "given", "weights": w, "factors": F}


def random_case(rng, kind, tier):
    N = rng.choice([2, 3, 3]) if tier == "quick" else rng.choice([2, 3, 3, 3, 4])
    R = rng.choice([1, 2, 2, 3])
    if N == 4:
        R = min(R, 2)
    shape = gen_shape(rng, N, R)
    if rng.random() < 0.08:
        R = 1
        shape[rng.randrange(N)] = 1
    data = gen_data(rng, kind, shape, R)
    ik = rng.choice(["given", "given", "random", "nvecs"])
    if ik == "nvecs" and kind == "sum":
        ik = "random"
    if ik == "given":
        init = gen_given(rng, shape, R)
    elif ik == "random":
        init = {"kind": "random", "seed": rng.randrange(10000)}
    else:
        init = {"kind": "nvecs"}
    dimorder = None if rng.random() < 0.4 else gen.perm(rng, N)
    optdims = None
    if rng.random() < 0.4:
        m = rng.randint(1, N)
        optdims = rng.sample(range(N), m)
        if rng.random() < 0.5:
            optdims.sort()
    return {"data": data, "rank": R, "init": init, "dimorder": dimorder, "optdims": optdims,
            "stoptol": rng.choice([0.0, 1e-9, 1e-4, 1e-4, 1e-2, 0.1]), "k": rng.randint(1, 6),
            "fixsigns": rng.random() < 0.6, "printitn": rng.choice([0, 0, 1, 2, 5])}


def degenerate_cases(rng):
    shape = [3, 4, 2]
    good = gen_data(rng, "dense", shape, 2)
    init = gen_given(rng, shape, 2)
    zero_factor = {**init, "factors": [init["factors"][0], [[0, 0]] * 4, init["factors"][2]]}
    base = {"rank": 2, "dimorder": None, "optdims": None, "stoptol": 1e-4, "k": 2, "fixsigns": True}
    return [
        {**base, "data": {"kind": "dense", "shape": shape, "data": [0] * 24}, "init": init, "printitn": 1,
         "degenerate": "zero-data"},
        {**base, "data": {"kind": "sparse", "shape": shape, "subs": [], "vals": []}, "init": init, "printitn": 0,
         "degenerate": "zero-data"},
        {**base, "data": good, "init": zero_factor, "printitn": 0, "degenerate": "zero-factor"},
        {**base, "data": good, "init": zero_factor, "printitn": 2, "fixsigns": False, "degenerate": "zero-factor"},
    ]


class Scale(Trace):
    """The same data at very small and very large magnitudes (entries 1e-12 .. 1e+12, so that
    ||X|| ranges from ~1e-11 to ~1e+13), every representation, printing off and on, and the
    exactly-zero tensor as its own case.  Every comparison with the independent recomputation
    is relative to the size of the quantities involved; nothing here is an absolute threshold,
    so a change that treats a small (or large) non-zero norm specially is a failing input.
    This family runs first, also in the widened search after a proof-side breakage."""
    name = "scale"

    QUICK = (-12, -10, -9, -8, -6, 6, 9, 12)
    THOROUGH = (-12, -11, -10, -9, -8, -7, -6, -5, -4, -2, 2, 4, 6, 8, 10, 12)

    def gen(self, rng, tier):
        out = []
        exps = self.QUICK if tier == "quick" else self.THOROUGH
        reps = 1 if tier == "quick" else 2
        for kind in ["dense", "sparse", "tucker", "sum"]:
            for _ in range(reps):
                for e in exps:
                    N = rng.choice([2, 3])
                    R = rng.choice([1, 2])
                    shape = gen_shape(rng, N, max(R, 2))
                    data = gen_data(rng, kind, shape, R)
                    iks = ["given", "random"] + ([] if kind == "sum" else ["nvecs"])
                    ik = rng.choice(iks)
                    init = gen_given(rng, shape, R) if ik == "given" else (
                        {"kind": "random", "seed": rng.randrange(10000)} if ik == "random" else {"kind": "nvecs"})
                    base = {"data": data, "scale": float("1e%d" % e), "rank": R, "init": init,
                            "dimorder": None if rng.random() < 0.6 else gen.perm(rng, N), "optdims": None,
                            "stoptol": rng.choice([1e-4, 1e-4, 1e-9, 1e-2]), "k": rng.choice([2, 3]),
                            "fixsigns": rng.random() < 0.5}
                    for pr in (0, 1):
                        out.append({**base, "printitn": pr})
        # the exactly-zero tensor, every representation that can hold it
        shape = [3, 4, 2]
        init = gen_given(rng, shape, 2)
        zero = {"rank": 2, "init": init, "dimorder": None, "optdims": None, "stoptol": 1e-4, "k": 2,
                "fixsigns": True, "degenerate": "zero-data"}
        zdense = {"kind": "dense", "shape": shape, "data": [0] * 24}
        zsparse = {"kind": "sparse", "shape": shape, "subs": [], "vals": []}
        ztucker = {"kind": "tucker", "shape": shape, "core": {"shape": [2, 2, 2], "data": [0] * 8},
                   "factors": [gen.matrix(rng, s, 2, -3, 3) for s in shape]}
        for zd in (zdense, zsparse, ztucker, {"kind": "sum", "shape": shape, "parts": [zdense, zsparse]}):
            for pr in (0, 1):
                out.append({**zero, "data": zd, "printitn": pr})
        return out


class Orders(Trace):
    """Every mode order x every non-empty subset of optimised modes for one tensor per data kind."""
    name = "orders_optdims"

    def gen(self, rng, tier):
        out = []
        kinds = ["dense", "sum"] if tier == "quick" else ["dense", "sparse", "tucker", "sum"]
        for kind in kinds:
            for N in (([3] if kind == "dense" else [2]) if tier == "quick" else [2, 3]):
                R = 2
                shape = [3, 4, 2][:N] if N == 3 else [4, 3]
                data = gen_data(rng, kind, shape, R)
                init = gen_given(rng, shape, R)
                for order in itertools.permutations(range(N)):
                    for m in range(1, N + 1):
                        for sub in itertools.combinations(range(N), m):
                            sub = list(sub)
                            if rng.random() < 0.5:
                                sub.reverse()
                            out.append({"data": data, "rank": R, "init": init, "dimorder": list(order),
                                        "optdims": sub, "stoptol": 1e-4, "k": 2 if tier == "quick" else 3,
                                        "fixsigns": rng.random() < 0.5, "printitn": rng.choice([0, 0, 1])})
        return out


class Options(Family):
    """Option validation: accepted / rejected like the model's `setup` (malformed stream)."""
    name = "options"
    theorems = ("C09_rejects",)

    def gen(self, rng, tier):
        out = []
        n = 40 if tier == "quick" else 200
        for _ in range(n):
            N = rng.choice([2, 3])
            shape = gen_shape(rng, N, 2)
            R = 2
            data = gen_data(rng, rng.choice(["dense", "sparse", "sum"]), shape, R)
            c = {"data": data, "rank": R, "init": gen_given(rng, shape, R), "dimorder": None, "optdims": None,
                 "stoptol": 1e-4, "maxiters": 2, "fixsigns": True, "printitn": 0}
            m = rng.choice(["ok", "dimorder-short", "dimorder-repeat", "dimorder-big", "optdims-disjoint", "optdims-extra",
                            "rank0", "init-rank", "init-ndims", "init-rows", "init-string", "maxiters0", "sum-nvecs",
                            "optdims-empty", "init-upper", "optdims-repeat"])
            c["mut"] = m
            if m == "dimorder-short":
                c["dimorder"] = list(range(N - 1))
            elif m == "dimorder-repeat":
                c["dimorder"] = [0] * N
            elif m == "dimorder-big":
                c["dimorder"] = list(range(1, N + 1))
            elif m == "optdims-disjoint":
                c["optdims"] = [N, N + 1]
            elif m == "optdims-extra":
                c["optdims"] = [0, N + 2]
            elif m == "optdims-empty":
                c["optdims"] = []
            elif m == "optdims-repeat":
                c["optdims"] = [0, 0] + ([1] if rng.random() < 0.5 else [])
            elif m == "rank0":
                c["rank"] = 0
            elif m == "init-rank":
                c["init"] = gen_given(rng, shape, 3)
            elif m == "init-ndims":
                c["init"] = gen_given(rng, shape + [2], R)
            elif m == "init-rows":
                s2 = list(shape)
                s2[rng.randrange(N)] += 1
                c["init"] = gen_given(rng, s2, R)
            elif m == "init-string":
                c["init"] = {"kind": "string", "value": rng.choice(["foo", "", "svd"])}
            elif m == "init-upper":
                np_seed = rng.randrange(1000)
                c["init"] = {"kind": "string", "value": rng.choice(["RANDOM", "Random"]), "seed": np_seed}
            elif m == "maxiters0":
                c["maxiters"] = 0
            elif m == "sum-nvecs":
                c["data"] = gen_data(rng, "sum", shape, R)
                c["init"] = {"kind": "nvecs"}
            out.append(c)
        return out

    def evaluate(self, cases):
        reqs, impls = [], []
        for c in cases:
            shape = c["data"]["shape"]
            N = len(shape)
            cc = {**c, "k": 1}
            if c["init"].get("seed") is not None:
                np.random.seed(c["init"]["seed"])
            r = run_once(cc, c["maxiters"], 0)
            impls.append(r)
            ini = c["init"]
            kind = ini["kind"]
            if kind == "string":
                kind = {"random": "random", "nvecs": "nvecs"}.get(ini["value"].lower(), "unsupported")
            req = {"op": "c09_setup", "shape": shape, "rank": c["rank"], "maxiters": c["maxiters"],
                   "dimorder": c.get("dimorder"), "optdims": c.get("optdims"), "init": kind,
                   "has_nvecs": c["data"]["kind"] != "sum"}
            if kind == "given":
                req["factors"] = [mat_bits(np.array(f, dtype=float).reshape(len(f), -1)) for f in ini["factors"]]
                req["weights"] = [bits(w) for w in ini["weights"]]
            elif kind == "random":
                req["factors"] = [mat_bits(np.zeros((shape[n], c["rank"]))) for n in range(N)]
            reqs.append(req)
        reps = drive(reqs)
        out = []
        for c, r, m in zip(cases, impls, reps):
            tags = [c["mut"], c["data"]["kind"]]
            acc_i = "ok" in r["res"]
            acc_m = "ok" in m
            if r["res"].get("exc") == "LinAlgError":
                out.append(Verdict("ok", "", None, None, None, tags + ["solve-refused"], False))
                continue
            if acc_i != acc_m:
                out.append(Verdict("corr" if acc_i else "violation",
                                   f"cp_als {'accepts' if acc_i else 'rejects'} but the model {'accepts' if acc_m else 'rejects'} ({c['mut']})",
                                   r["res"] if not acc_i else "accepted", m, None, tags))
                continue
            if acc_i:
                par = r["res"]["ok"][2]["params"]
                if [int(x) for x in par["dimorder"]] != m["ok"]["dimorder"] or [int(x) for x in par["optdims"]] != m["ok"]["optdims"]:
                    out.append(Verdict("corr", "echoed dimorder / optdims differ", None, m, None, tags))
                    continue
            out.append(Verdict("ok", "", {"accepted": acc_i}, m, None, tags + (["accepted"] if acc_i else ["rejected"]), acc_i))
        return out


class Formulas(Family):
    """Cross-check of the translator: generated Lean definitions at Float vs eval of the Python text."""
    name = "formulas"
    theorems = ("C09_residual", "C09_residual_sum", "C09_stop_rule")

    def gen(self, rng, tier):
        n = 80 if tier == "quick" else 400
        out = []
        names = ["branchZero", "normresidualZero", "fitZero", "normresidual", "fit", "fitchange", "stopTest",
                 "firstIteration", "colWeightFirst", "colWeightLater"]
        for i in range(n):
            name = names[i % len(names)]
            vals = [rng.choice([0.0, 1.0, -1.0, rng.uniform(-10, 10), rng.uniform(0, 1e-3), rng.randint(-5, 5) / 4])
                    for _ in range(rng.randint(3, 5))]
            out.append({"name": name, "vals": vals, "nat": rng.choice([0, 0, 1, 2, 7])})
        return out

    def evaluate(self, cases):
        exprs, lost = gen_cpals.formulas()
        reqs, impls, skipped = [], [], set()
        for k, c in enumerate(cases):
            if c["name"] not in exprs:
                # the cross-check of the translator's reading has nothing to read for this definition (the pinned one is
                # in use); the lost anchor itself is reported by the proof side (run.py treats it as a tie by
                # correspondence only, at the thorough size).  The definitions that WERE read are still cross-checked.
                skipped.add(k)
                continue
            e = exprs[c["name"]]
            params = e["params"]
            env = {"np": np, "sum": sum, "abs": abs}
            args = []
            vals = list(c["vals"])
            if "Unew" in params:
                col = np.array(vals, dtype=float).reshape(-1, 1)
                env["Unew"] = col
                args = vals
            else:
                # the driver op takes its arguments in the order of the PINNED definition's parameters; the expression read
                # from the source may list (a subset of) the same names in another order - bind by name on both sides
                scal = _pinned_params().get(c["name"]) or [q for q in params if q != "iteration"]
                extra = [q for q in params if q != "iteration" and q not in scal]
                if c["name"] in ("fit",):  # keep the divisor away from 0
                    vals = [v if v != 0 else 2.5 for v in vals]
                vals = (vals + [1.5, -0.75, 2.25, 0.5, 3.0])[:len(scal) + len(extra)]
                for q, v in zip(scal + extra, vals):
                    # the translator hands out the expression over the parameter names (`M.norm()` is `normM`)
                    env[q] = np.float64(v)
                args = vals[:len(scal)]
            env["iteration"] = c["nat"]
            with np.errstate(all="ignore"):
                val = eval(compile(e["python"], "<cp_als formula>", "eval"), env)  # noqa: S307
            if "Unew" in params:
                val = np.asarray(val).reshape(-1)[0]
            impls.append(val)
            reqs.append({"op": "c09_formula", "name": c["name"], "args": [bits(v) for v in args], "nat": c["nat"]})
        reps = iter(drive(reqs) if reqs else [])
        impls = iter(impls)
        out = []
        for k, c in enumerate(cases):
            if k in skipped:
                out.append(Verdict("ok", f"translator lost anchors: {lost}", None, None, None, ["anchor-lost"], False))
                continue
            v, m = next(impls), next(reps)
            tags = [c["name"]]
            if "bool" in m:
                ok = bool(v) == m["bool"]
                mv = m["bool"]
            else:
                mv = unbits(m["float"])
                # an algebraically equal rewrite of a formula differs by rounding relative to the OPERANDS (1 - a/b against
                # (b - a)/b cancels); a misread or changed formula is O(1) off
                mag = max([1.0, abs(mv), abs(float(v))] + [abs(float(x)) for x in c["vals"]]) if math.isfinite(mv) and math.isfinite(float(v)) else 1.0
                ok = (math.isnan(mv) and math.isnan(float(v))) or mv == float(v) or abs(mv - float(v)) <= 1e-13 * mag
            out.append(Verdict("ok" if ok else "corr", "" if ok else f"generated {c['name']} differs from the Python expression",
                               float(v) if not isinstance(v, (bool, np.bool_)) else bool(v), mv, None, tags))
        return out


_PINNED_PARAMS = None


def _pinned_params():
    """{definition: [names of its scalar parameters in order]} of the pinned CP-ALS formulas (the order the driver op expects)"""
    global _PINNED_PARAMS
    if _PINNED_PARAMS is None:
        import re
        from harness.lib import ROOT
        txt = (ROOT / "harness" / "translate" / "pinned" / "CpAlsFormulas.lean").read_text()
        _PINNED_PARAMS = {}
        for m in re.finditer(r"^def (\w+)((?:\s*\([^)]*\))*)\s*:", txt, flags=re.M):
            _PINNED_PARAMS[m.group(1)] = [q for q, t in re.findall(r"\((\w+) : ([^)]*)\)", m.group(2)) if t.strip() == "α"]
    return _PINNED_PARAMS


def families():
    return [Scale(), Formulas(), Options(), Orders(), Trace()]
