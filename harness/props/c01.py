"""C01 — conversions between representations preserve the tensor."""
from __future__ import annotations

import itertools

import numpy as np
import pyttb as ttb

from harness import gen
from harness.lib import (Family, Verdict, call, deep_eq, dense_j, drive, jval, ndarray_j, sparse_j,
                         sparse_sorted_j, strip_exc)
from harness.props.c07 import dense_at, dense_case, f_index, sp_at, sp_case, sp_to_dense_j

RULE = ("dense and sparse tensors (sparsity classes empty/one/some/all, stored order sorted/reversed/shuffled) "
        "and Kruskal tensors (ranks 1..3, weights of both signs and zero) on shapes of order 1..4 with distinct, "
        "repeated and singleton extents; for matricization every ordered partition of the modes for N<=3 (quick) "
        "/ N<=4 (thorough) incl. an empty side, plus the fc / bc / t conventions and malformed splits; "
        "non-trivial = accepted and more than one cell; distinct = distinct case hash")
ASSUMPTIONS = ["np.nonzero scans in C order of the F-order ravel = first index fastest; linear-index assignment "
               "through tensor.__setitem__ has last-write-wins semantics"]
ANCHORS = [('pyttb/tensor.py', 'tensor.find'), ('pyttb/tensor.py', 'tensor.to_sptensor'), ('pyttb/tensor.py', 'tensor.to_tenmat'), ('pyttb/tenmat.py', 'tenmat.__init__'), ('pyttb/tenmat.py', 'tenmat.to_tensor'), ('pyttb/sptensor.py', 'sptensor.full'), ('pyttb/sptensor.py', 'sptensor.to_sptenmat'), ('pyttb/sptenmat.py', 'sptenmat.__init__'), ('pyttb/sptenmat.py', 'sptenmat.to_sptensor'), ('pyttb/sptenmat.py', 'sptenmat.full'), ('pyttb/ktensor.py', 'ktensor.full'), ('pyttb/pyttb_utils.py', 'gather_wrap_dims')]
EXHAUSTIVE = {"quick": False, "thorough": False}


def ordered_partitions(n):
    """every (rdims, cdims) with rdims ++ cdims a permutation of range(n)"""
    out = []
    for p in itertools.permutations(range(n)):
        for k in range(n + 1):
            out.append((list(p[:k]), list(p[k:])))
    return out


def sub2ind(shape, sub):
    return f_index(shape, sub)


class DenseSparse(Family):
    name = "dense_sparse"
    theorems = ("C01_toSparse_get", "C01_toSparse_wf", "C01_toSparse_nnz", "C01_sp_full_at",
                "C01_dense_sparse_dense", "C01_sparse_dense_sparse")

    def gen(self, rng, tier):
        out = []
        n = 60 if tier == "quick" else 800
        for _ in range(n):
            s = gen.shape(rng, 1, 4, 4)
            if rng.random() < 0.5:
                zs = rng.choice([0.0, 0.3, 0.7, 1.0])
                out.append({"k": "d2s", "x": {"shape": s, "data": gen.dense_data(rng, s, zs)}})
            else:
                out.append({"k": "s2d", "x": sp_case(rng, s)})
        return out

    def evaluate(self, cases):
        impls, reqs = [], []
        for c in cases:
            x = c["x"]
            if c["k"] == "d2s":
                T = gen.mk_tensor(ttb, x["shape"], x["data"])

                def f(T=T):
                    S = T.to_sptensor()
                    return {"sp": sparse_j(S), "nnz": int(S.nnz), "tnnz": int(T.nnz), "back": dense_j(S.full())}
                impls.append(call(f))
                reqs.append({"op": "to_sptensor", "T": x})
            else:
                S = gen.mk_sptensor(ttb, x["shape"], x["subs"], x["vals"])

                def g(S=S):
                    D = S.full()
                    return {"full": dense_j(D), "double": ndarray_j(S.double()), "back": sparse_sorted_j(sparse_j(D.to_sptensor())),
                            "nnz": int(S.nnz)}
                impls.append(call(g))
                reqs.append({"op": "sp_full", "S": x})
        models = drive(reqs)
        out = []
        for c, impl, m in zip(cases, impls, models):
            x = c["x"]
            tags = [c["k"], f"N{len(x['shape'])}"]
            if "ok" not in impl:
                out.append(Verdict("violation", "a conversion raised", impl, m, None, tags))
                continue
            r = impl["ok"]
            bad = None
            if c["k"] == "d2s":
                nz = sum(1 for v in x["data"] if v != 0)
                tags.append("allzero" if nz == 0 else ("full" if nz == len(x["data"]) else "some"))
                if not deep_eq(r["sp"], m["sp"]):
                    bad = "to_sptensor differs from the proved model (stored form)"
                elif not deep_eq(r["back"], x):
                    bad = "dense -> sparse -> dense changed the tensor"
                elif r["nnz"] != nz or r["tnnz"] != nz or len(r["sp"]["subs"]) != nz:
                    bad = "reported nonzero count differs from the number of non-zero entries"
                nt = nz > 0
            else:
                spec = sp_to_dense_j(x)
                tags.append(f"nnz{min(len(x['subs']), 3)}")
                if not deep_eq(r["full"], m):
                    bad = "sptensor.full differs from the proved model"
                elif not deep_eq(r["full"], spec) or not deep_eq(r["double"], spec):
                    bad = "sparse -> dense does not denote the same array"
                elif not deep_eq(r["back"], sparse_sorted_j(x)):
                    bad = "sparse -> dense -> sparse changed the tensor"
                elif r["nnz"] != len(x["subs"]):
                    bad = "nnz differs from the number of stored entries"
                nt = len(x["subs"]) > 0
            out.append(Verdict("violation" if bad else "ok", bad or "", impl, m, None, tags, nt))
        return out


class TenmatFam(Family):
    name = "tenmat"
    theorems = ("C01_tenmat_entry", "C01_tenmat_roundtrip", "C01_tenmat_rejects", "C01_wrap_conventions")

    def gen(self, rng, tier):
        out = []
        lim = 3 if tier == "quick" else 4
        shapes = [[3], [2, 3], [2, 3, 4], [3, 1, 2], [2, 2, 3]] + ([[2, 3, 1, 2], [3, 2, 4, 2]] if tier == "thorough" else [[2, 3, 2, 1]])
        shapes += [gen.shape(rng, 1, 4, 4, distinct=True) for _ in range(3 if tier == "quick" else 20)]
        for s in shapes:
            N = len(s)
            x = dense_case(rng, s)
            parts = ordered_partitions(N)
            if N > lim or (tier == "quick" and len(parts) > 40):
                parts = rng.sample(parts, 30)
            for r, c_ in parts:
                out.append({"x": x, "rdims": r, "cdims": c_, "cyc": None})
            for k in range(N):
                for cyc in ("fc", "bc", "t"):
                    out.append({"x": x, "rdims": [k], "cdims": None, "cyc": cyc})
                out.append({"x": x, "rdims": [k], "cdims": None, "cyc": None})
                out.append({"x": x, "rdims": None, "cdims": [k], "cyc": None})
            # malformed
            out.append({"x": x, "rdims": [0], "cdims": [0], "cyc": None})
            out.append({"x": x, "rdims": [N], "cdims": None, "cyc": None})
            out.append({"x": x, "rdims": None, "cdims": None, "cyc": None})
            if N > 1:
                out.append({"x": x, "rdims": [0], "cdims": [1] * (N - 1) if N > 2 else [0], "cyc": None})
        return out

    def evaluate(self, cases):
        impls, reqs = [], []
        for c in cases:
            x = c["x"]
            T = gen.mk_tensor(ttb, x["shape"], x["data"])

            def f(T=T, c=c):
                kw = {}
                if c["rdims"] is not None:
                    kw["rdims"] = np.array(c["rdims"], dtype=int)
                if c["cdims"] is not None:
                    kw["cdims"] = np.array(c["cdims"], dtype=int)
                if c["cyc"]:
                    kw["cdims_cyclic"] = c["cyc"]
                M = T.to_tenmat(**kw)
                return {"tshape": list(M.tshape), "rdims": jval(M.rindices), "cdims": jval(M.cindices),
                        "data": ndarray_j(M.data), "mshape": list(M.shape), "back": dense_j(M.to_tensor())}
            impls.append(call(f))
            reqs.append({"op": "to_tenmat", "T": x, "rdims": c["rdims"], "cdims": c["cdims"], "cyc": c["cyc"]})
        models = drive(reqs)
        out = []
        for c, impl, m in zip(cases, impls, models):
            x = c["x"]
            N = len(x["shape"])
            tags = [f"N{N}", c["cyc"] or ("both" if (c["rdims"] is not None and c["cdims"] is not None) else "one")]
            ic = strip_exc(impl)
            if "reject" in ic or "reject" in m:
                tags.append("reject")
                ok = ("reject" in ic) == ("reject" in m)
                out.append(Verdict("ok" if ok else "violation", "" if ok else "acceptance of the mode split differs from the model",
                                   impl, m, None, tags, False))
                continue
            r, mm = ic["ok"], m["ok"]
            bad = None
            got = {k: r[k] for k in ("tshape", "rdims", "cdims", "data")}
            if not deep_eq(got, mm):
                bad = "to_tenmat differs from the proved model"
            elif not deep_eq(r["back"], x):
                bad = "to_tenmat followed by to_tensor changed the tensor"
            elif r["mshape"] != r["data"]["shape"]:
                bad = "reported matrix shape is inconsistent"
            else:
                # the placement rule itself
                rd, cd = r["rdims"], r["cdims"]
                at = dense_at(x)
                rs, cs = [x["shape"][k] for k in rd], [x["shape"][k] for k in cd]
                for i in gen.all_subs(x["shape"]):
                    a = sub2ind(rs, [i[k] for k in rd])
                    b = sub2ind(cs, [i[k] for k in cd])
                    if r["data"]["data"][a + r["data"]["shape"][0] * b] != at(i):
                        bad = f"entry {i} is not at row {a}, column {b}"
                        break
            out.append(Verdict("violation" if bad else "ok", bad or "", impl, m, None, tags, gen.numel(x["shape"]) > 1))
        return out


class SptenmatFam(Family):
    name = "sptenmat"
    theorems = ("C01_sptenmat_entry", "C01_sptenmat_roundtrip", "C01_sptenmat_full")

    def gen(self, rng, tier):
        out = []
        lim = 3 if tier == "quick" else 4
        shapes = [[3], [2, 3], [2, 3, 4], [3, 1, 2]] + ([[2, 3, 1, 2]] if tier == "thorough" else [])
        shapes += [gen.shape(rng, 1, 4, 4, distinct=True) for _ in range(3 if tier == "quick" else 20)]
        for s in shapes:
            N = len(s)
            for klass in ("empty", "one", "some", "all"):
                subs, vals = gen.sparse_entries(rng, s, klass)
                x = {"shape": s, "subs": subs, "vals": vals}
                parts = ordered_partitions(N)
                if N > lim or len(parts) > (12 if tier == "quick" else 60):
                    parts = rng.sample(parts, 12 if tier == "quick" else 40)
                for r, c_ in parts:
                    out.append({"x": x, "rdims": r, "cdims": c_, "cyc": None})
                for k in range(N):
                    out.append({"x": x, "rdims": [k], "cdims": None, "cyc": rng.choice(["fc", "bc", "t", None])})
        return out

    def evaluate(self, cases):
        impls, reqs = [], []
        for c in cases:
            x = c["x"]
            S = gen.mk_sptensor(ttb, x["shape"], x["subs"], x["vals"])

            def f(S=S, c=c):
                kw = {}
                if c["rdims"] is not None:
                    kw["rdims"] = np.array(c["rdims"], dtype=int)
                if c["cdims"] is not None:
                    kw["cdims"] = np.array(c["cdims"], dtype=int)
                if c["cyc"]:
                    kw["cdims_cyclic"] = c["cyc"]
                M = S.to_sptenmat(**kw)
                subs = np.asarray(M.subs)
                D = S.full().to_tenmat(**kw)
                return {"tshape": list(M.tshape), "rdims": jval(M.rdims), "cdims": jval(M.cdims),
                        "subs": [] if subs.size == 0 else jval(subs.astype(int)),
                        "vals": [] if np.asarray(M.vals).size == 0 else jval(np.asarray(M.vals).reshape(-1)),
                        "nnz": int(M.nnz), "mshape": list(M.shape),
                        "back": sparse_sorted_j(sparse_j(M.to_sptensor())),
                        "full": ndarray_j(M.full().data), "dfull": ndarray_j(D.data),
                        "double": ndarray_j(M.double().toarray())}
            impls.append(call(f))
            reqs.append({"op": "to_sptenmat", "S": x, "rdims": c["rdims"], "cdims": c["cdims"], "cyc": c["cyc"]})
        models = drive(reqs)
        out = []
        for c, impl, m in zip(cases, impls, models):
            x = c["x"]
            tags = [f"N{len(x['shape'])}", f"nnz{min(len(x['subs']), 3)}", c["cyc"] or "split"]
            ic = strip_exc(impl)
            if "reject" in ic or "reject" in m:
                ok = ("reject" in ic) == ("reject" in m)
                out.append(Verdict("ok" if ok else "violation", "" if ok else "to_sptenmat acceptance differs from the model", impl, m, None, tags, False))
                continue
            r, mm = ic["ok"], m["ok"]
            bad = None
            got = {k: r[k] for k in ("tshape", "rdims", "cdims", "subs", "vals")}
            if not deep_eq(got, mm):
                bad = "to_sptenmat differs from the proved model (stored form)"
            elif not deep_eq(r["back"], sparse_sorted_j(x)):
                bad = "sparse -> sptenmat -> sparse changed the tensor"
            elif not deep_eq(r["full"], r["dfull"]) or not deep_eq(r["double"], r["dfull"]):
                bad = "sptenmat.full()/double() differs from the dense matricization"
            elif r["nnz"] != len(r["subs"]) or len(r["subs"]) != len(x["subs"]):
                bad = "sptenmat reports a wrong number of nonzeros"
            elif len(set(map(tuple, r["subs"]))) != len(r["subs"]) or any(v == 0 for v in r["vals"]):
                bad = "sptenmat is not well-formed (duplicate subscripts or explicit zero)"
            out.append(Verdict("violation" if bad else "ok", bad or "", impl, m, None, tags, len(x["subs"]) > 0))
        return out


class SptenmatCtor(Family):
    """sptenmat(subs, vals, rdims, cdims, tshape) with copying and sptenmat.from_array: duplicate
    (row, column) pairs are summed, zero sums dropped; the object denotes the summed matrix."""
    name = "sptenmat_ctor"
    theorems = ("C01_sptenmat_entry",)

    def gen(self, rng, tier):
        out = []
        for _ in range(40 if tier == "quick" else 400):
            s = gen.shape(rng, 1, 4, 4)
            N = len(s)
            p = gen.perm(rng, N)
            k = rng.randint(0, N)
            r, c_ = p[:k], p[k:]
            R, C = gen.numel([s[m] for m in r]), gen.numel([s[m] for m in c_])
            n = rng.randint(0, 6)
            subs = [[rng.randrange(R), rng.randrange(C)] for _ in range(n)]
            if subs and rng.random() < 0.7:  # repeated pairs, some cancelling
                for _ in range(rng.randint(1, 3)):
                    subs.append(list(rng.choice(subs)))
            vals = gen.int_values(rng, len(subs), -4, 4, nonzero=True)
            if len(subs) >= 2 and rng.random() < 0.3:
                subs[-1] = list(subs[0])
                vals[-1] = -vals[0]
            out.append({"subs": subs, "vals": vals, "rdims": r, "cdims": c_, "tshape": s,
                        "via": rng.choice(["ctor", "ctor", "coo"])})
        return out

    def evaluate(self, cases):
        from scipy import sparse as sp
        impls, reqs = [], []
        for c in cases:
            def f(c=c):
                r, c_ = np.array(c["rdims"], dtype=int), np.array(c["cdims"], dtype=int)
                R = gen.numel([c["tshape"][m] for m in c["rdims"]])
                C = gen.numel([c["tshape"][m] for m in c["cdims"]])
                if c["via"] == "coo" and c["subs"]:
                    rows = [x[0] for x in c["subs"]]
                    cols = [x[1] for x in c["subs"]]
                    M = ttb.sptenmat.from_array(sp.coo_matrix((np.array(c["vals"], dtype=float), (rows, cols)), shape=(R, C)),
                                                r, c_, tuple(c["tshape"]))
                else:
                    subs = np.array(c["subs"], dtype=int).reshape(len(c["subs"]), 2) if c["subs"] else None
                    vals = np.array(c["vals"], dtype=float).reshape(-1, 1) if c["subs"] else None
                    M = ttb.sptenmat(subs, vals, r, c_, tuple(c["tshape"]))
                s_ = np.asarray(M.subs)
                return {"subs": [] if s_.size == 0 else jval(s_.astype(int)),
                        "vals": [] if np.asarray(M.vals).size == 0 else jval(np.asarray(M.vals).reshape(-1)),
                        "nnz": int(M.nnz), "double": ndarray_j(M.double().toarray()), "full": ndarray_j(M.full().data)}
            impls.append(call(f))
            reqs.append({"op": "sptenmat_ctor", "subs": c["subs"], "vals": c["vals"], "rdims": c["rdims"],
                         "cdims": c["cdims"], "tshape": c["tshape"]})
        models = drive(reqs)
        out = []
        for c, impl, m in zip(cases, impls, models):
            dup = len(set(map(tuple, c["subs"]))) != len(c["subs"])
            tags = [c["via"], "dup" if dup else "nodup", f"n{min(len(c['subs']), 3)}"]
            if "ok" not in impl or "ok" not in m:
                ok = ("ok" in impl) == ("ok" in m)
                out.append(Verdict("ok" if ok else "violation", "" if ok else "sptenmat constructor acceptance differs from the model", impl, m, None, tags, False))
                continue
            r = impl["ok"]
            R = gen.numel([c["tshape"][k] for k in c["rdims"]])
            C = gen.numel([c["tshape"][k] for k in c["cdims"]])
            dense = [[0] * C for _ in range(R)]
            for (a, b), v in zip(c["subs"], c["vals"]):
                dense[a][b] += v
            spec = {"shape": [R, C], "data": [dense[a][b] for b in range(C) for a in range(R)]}
            bad = None
            if not deep_eq(r["double"], spec) or not deep_eq(r["full"], spec):
                bad = "sptenmat does not denote the sum of the given (row, column, value) triples"
            elif r["nnz"] != sum(1 for v in spec["data"] if v != 0) or len(r["subs"]) != r["nnz"]:
                bad = "sptenmat reports a wrong number of nonzeros / keeps explicit zeros"
            elif not deep_eq({"subs": r["subs"], "vals": r["vals"]}, {"subs": m["ok"]["subs"], "vals": m["ok"]["vals"]}):
                bad = "sptenmat stored form differs from the proved model"
            out.append(Verdict("violation" if bad else "ok", bad or "", impl, m, spec, tags, len(c["subs"]) > 0))
        return out


class KruskalFull(Family):
    name = "kruskal_full"
    theorems = ("C01_kruskal_full",)

    def gen(self, rng, tier):
        out = []
        for _ in range(60 if tier == "quick" else 600):
            s = gen.shape(rng, 1, 4, 4)
            R = rng.randint(1, 3)
            out.append({"weights": gen.int_values(rng, R, -3, 3), "factors": [gen.matrix(rng, m, R) for m in s]})
        out.append({"weights": [2], "factors": [[[1], [3]]]})
        return out

    def evaluate(self, cases):
        impls, reqs = [], []
        for c in cases:
            K = gen.mk_ktensor(ttb, c["weights"], c["factors"])
            impls.append(call(lambda K=K: {"full": dense_j(K.full()), "double": ndarray_j(K.double())}))
            reqs.append({"op": "k_full", "K": c})
        models = drive(reqs)
        out = []
        for c, impl, m in zip(cases, impls, models):
            shape = [len(f) for f in c["factors"]]
            R = len(c["weights"])
            tags = [f"N{len(shape)}", f"R{R}"]
            spec = {"shape": shape, "data": [
                sum(c["weights"][r] * int(np.prod([c["factors"][n][i[n]][r] for n in range(len(shape))])) for r in range(R))
                for i in gen.all_subs(shape)]}
            if "ok" not in impl:
                out.append(Verdict("violation", "ktensor.full raised", impl, m, spec, tags))
                continue
            bad = None
            if not deep_eq(impl["ok"]["full"], spec) or not deep_eq(impl["ok"]["double"], spec):
                bad = "ktensor.full is not sum_r lambda_r prod_n A_n[i_n, r]"
            elif not deep_eq(impl["ok"]["full"], m.get("ok")):
                bad = "ktensor.full differs from the proved model"
            out.append(Verdict("violation" if bad else "ok", bad or "", impl, m, spec, tags, True))
        return out


def families():
    return [DenseSparse(), TenmatFam(), SptenmatFam(), SptenmatCtor(), KruskalFull()]
