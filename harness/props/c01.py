"""C01 — conversions between representations preserve the tensor."""
from __future__ import annotations

import contextlib
import itertools
import logging
import warnings

import numpy as np
import pyttb as ttb

from harness import gen
from harness.lib import (Family, Verdict, call, deep_eq, dense_j, drive, jval, ndarray_j, sparse_j,
                         sparse_sorted_j, strip_exc)
from harness.props.c07 import dense_at, dense_case, f_index, sp_at, sp_case, sp_to_dense_j

RULE = ("dense and sparse tensors (sparsity classes empty/one/some/all, stored order sorted/reversed/shuffled) "
        "and Kruskal tensors (ranks 1..3, weights of both signs and zero) on shapes of order 1..4 with distinct, "
        "repeated and singleton extents; for matricization every ordered partition of the modes for N<=3 (quick) "
        "/ N<=4 (thorough) incl. an empty side, plus the fc / bc / t conventions and malformed splits; "
        "every conversion also on operands with a history, enumerated: dense tensors grown by subscript / region / "
        "subscript-array assignment (one mode, all modes, a new trailing mode), filled from empty, written in place, "
        "permuted, built from F / C / transposed / strided / negative-stride arrays of float64 / int / bool / float32 "
        "with and without copying, comparison results (bool), or with .data re-pointed (layout of .data tagged F / C / FC / neither); sparse tensors "
        "filled entry by entry in unsorted order, overwritten, deleted from, grown, or taken from a grown dense tensor; "
        "tenmat / sptenmat wrapped around user arrays in those layouts; Kruskal / Tucker / sum tensors over such components; "
        "second batch: what every converted object reports (tshape / rindices / cindices / matrix shape / shape / ndims / nnz) for every "
        "ordered partition (N<=3 quick / N<=4 thorough), every convention and malformed splits, sparsity classes x stored orders; "
        "double() / to_tensor() / full() of all seven classes; ktensor.to_tenmat over every ordered partition, every convention, ranks 1..3, "
        "against the model, full().to_tenmat, the Khatri-Rao form and the sum formula; random chains of 2..6 conversions from any of the seven "
        "classes (also dense / sparse operands with a history), ~4% with a missing method or malformed split; the tenmat constructor with "
        "matrices of the prescribed shape and of other shapes with the same cell count (must be refused), vectors (must be reshaped), "
        "3-way and empty arrays, defaults, bad modes; "
        "non-trivial = accepted and more than one cell; distinct = distinct case hash")
ASSUMPTIONS = ["np.nonzero scans in C order of the F-order ravel = first index fastest; linear-index assignment "
               "through tensor.__setitem__ has last-write-wins semantics"]
ANCHORS = [('pyttb/tensor.py', 'tensor.find'), ('pyttb/tensor.py', 'tensor.to_sptensor'), ('pyttb/tensor.py', 'tensor.to_tenmat'), ('pyttb/tenmat.py', 'tenmat.__init__'), ('pyttb/tenmat.py', 'tenmat.to_tensor'), ('pyttb/sptensor.py', 'sptensor.full'), ('pyttb/sptensor.py', 'sptensor.to_sptenmat'), ('pyttb/sptenmat.py', 'sptenmat.__init__'), ('pyttb/sptenmat.py', 'sptenmat.to_sptensor'), ('pyttb/sptenmat.py', 'sptenmat.full'), ('pyttb/ktensor.py', 'ktensor.full'), ('pyttb/pyttb_utils.py', 'gather_wrap_dims'),
           ('pyttb/tensor.py', 'tensor.double'), ('pyttb/tensor.py', 'tensor.full'), ('pyttb/sptensor.py', 'sptensor.double'),
           ('pyttb/sptensor.py', 'sptensor.to_tensor'), ('pyttb/ktensor.py', 'ktensor.double'), ('pyttb/ktensor.py', 'ktensor.to_tensor'),
           ('pyttb/ktensor.py', 'ktensor.to_tenmat'), ('pyttb/ttensor.py', 'ttensor.double'), ('pyttb/ttensor.py', 'ttensor.to_tensor'),
           ('pyttb/ttensor.py', 'ttensor.full'), ('pyttb/sumtensor.py', 'sumtensor.double'), ('pyttb/sumtensor.py', 'sumtensor.to_tensor'),
           ('pyttb/sumtensor.py', 'sumtensor.full'), ('pyttb/tenmat.py', 'tenmat.double'), ('pyttb/tenmat.py', 'tenmat.shape'),
           ('pyttb/tenmat.py', 'tenmat.ndims'), ('pyttb/sptenmat.py', 'sptenmat.double'), ('pyttb/sptenmat.py', 'sptenmat.shape'),
           ('pyttb/sptenmat.py', 'sptenmat.nnz'), ('pyttb/sptensor.py', 'sptensor.nnz'), ('pyttb/tensor.py', 'tensor.nnz')]
EXHAUSTIVE = {"quick": False, "thorough": False}


def ordered_partitions(n):
    """every (rdims, cdims) with rdims ++ cdims a permutation of range(n)"""
    out = []
    for p in itertools.permutations(range(n)):
        for k in range(n + 1):
            out.append((list(p[:k]), list(p[k:])))
    return out


def sub2ind(shape, sub):
    return f_index(shape, sub)


class DenseSparse(Family):
    name = "dense_sparse"
    theorems = ("C01_toSparse_get", "C01_toSparse_wf", "C01_toSparse_nnz", "C01_sp_full_at",
                "C01_dense_sparse_dense", "C01_sparse_dense_sparse")

    def gen(self, rng, tier):
        out = []
        n = 60 if tier == "quick" else 800
        for _ in range(n):
            s = gen.shape(rng, 1, 4, 4)
            if rng.random() < 0.5:
                zs = rng.choice([0.0, 0.3, 0.7, 1.0])
                out.append({"k": "d2s", "x": {"shape": s, "data": gen.dense_data(rng, s, zs)}})
            else:
                out.append({"k": "s2d", "x": sp_case(rng, s)})
        return out

    def evaluate(self, cases):
        impls, reqs = [], []
        for c in cases:
            x = c["x"]
            if c["k"] == "d2s":
                T = gen.mk_tensor(ttb, x["shape"], x["data"])

                def f(T=T):
                    S = T.to_sptensor()
                    return {"sp": sparse_j(S), "nnz": int(S.nnz), "tnnz": int(T.nnz), "back": dense_j(S.full())}
                impls.append(call(f))
                reqs.append({"op": "to_sptensor", "T": x})
            else:
                S = gen.mk_sptensor(ttb, x["shape"], x["subs"], x["vals"])

                def g(S=S):
                    D = S.full()
                    return {"full": dense_j(D), "double": ndarray_j(S.double()), "back": sparse_sorted_j(sparse_j(D.to_sptensor())),
                            "nnz": int(S.nnz)}
                impls.append(call(g))
                reqs.append({"op": "sp_full", "S": x})
        models = drive(reqs)
        out = []
        for c, impl, m in zip(cases, impls, models):
            x = c["x"]
            tags = [c["k"], f"N{len(x['shape'])}"]
            if "ok" not in impl:
                out.append(Verdict("violation", "a conversion raised", impl, m, None, tags))
                continue
            r = impl["ok"]
            bad = None
            if c["k"] == "d2s":
                nz = sum(1 for v in x["data"] if v != 0)
                tags.append("allzero" if nz == 0 else ("full" if nz == len(x["data"]) else "some"))
                if not deep_eq(r["sp"], m["sp"]):
                    bad = "to_sptensor differs from the proved model (stored form)"
                elif not deep_eq(r["back"], x):
                    bad = "dense -> sparse -> dense changed the tensor"
                elif r["nnz"] != nz or r["tnnz"] != nz or len(r["sp"]["subs"]) != nz:
                    bad = "reported nonzero count differs from the number of non-zero entries"
                nt = nz > 0
            else:
                spec = sp_to_dense_j(x)
                tags.append(f"nnz{min(len(x['subs']), 3)}")
                if not deep_eq(r["full"], m):
                    bad = "sptensor.full differs from the proved model"
                elif not deep_eq(r["full"], spec) or not deep_eq(r["double"], spec):
                    bad = "sparse -> dense does not denote the same array"
                elif not deep_eq(r["back"], sparse_sorted_j(x)):
                    bad = "sparse -> dense -> sparse changed the tensor"
                elif r["nnz"] != len(x["subs"]):
                    bad = "nnz differs from the number of stored entries"
                nt = len(x["subs"]) > 0
            out.append(Verdict("violation" if bad else "ok", bad or "", impl, m, None, tags, nt))
        return out


class TenmatFam(Family):
    name = "tenmat"
    theorems = ("C01_tenmat_entry", "C01_tenmat_roundtrip", "C01_tenmat_rejects", "C01_wrap_conventions")

    def gen(self, rng, tier):
        out = []
        lim = 3 if tier == "quick" else 4
        shapes = [[3], [2, 3], [2, 3, 4], [3, 1, 2], [2, 2, 3]] + ([[2, 3, 1, 2], [3, 2, 4, 2]] if tier == "thorough" else [[2, 3, 2, 1]])
        shapes += [gen.shape(rng, 1, 4, 4, distinct=True) for _ in range(3 if tier == "quick" else 20)]
        for s in shapes:
            N = len(s)
            x = dense_case(rng, s)
            parts = ordered_partitions(N)
            if N > lim or (tier == "quick" and len(parts) > 40):
                parts = rng.sample(parts, 30)
            for r, c_ in parts:
                out.append({"x": x, "rdims": r, "cdims": c_, "cyc": None})
            for k in range(N):
                for cyc in ("fc", "bc", "t"):
                    out.append({"x": x, "rdims": [k], "cdims": None, "cyc": cyc})
                out.append({"x": x, "rdims": [k], "cdims": None, "cyc": None})
                out.append({"x": x, "rdims": None, "cdims": [k], "cyc": None})
            # malformed
            out.append({"x": x, "rdims": [0], "cdims": [0], "cyc": None})
            out.append({"x": x, "rdims": [N], "cdims": None, "cyc": None})
            out.append({"x": x, "rdims": None, "cdims": None, "cyc": None})
            if N > 1:
                out.append({"x": x, "rdims": [0], "cdims": [1] * (N - 1) if N > 2 else [0], "cyc": None})
        return out

    def evaluate(self, cases):
        impls, reqs = [], []
        for c in cases:
            x = c["x"]
            T = gen.mk_tensor(ttb, x["shape"], x["data"])

            def f(T=T, c=c):
                kw = {}
                if c["rdims"] is not None:
                    kw["rdims"] = np.array(c["rdims"], dtype=int)
                if c["cdims"] is not None:
                    kw["cdims"] = np.array(c["cdims"], dtype=int)
                if c["cyc"]:
                    kw["cdims_cyclic"] = c["cyc"]
                M = T.to_tenmat(**kw)
                return {"tshape": list(M.tshape), "rdims": jval(M.rindices), "cdims": jval(M.cindices),
                        "data": ndarray_j(M.data), "mshape": list(M.shape), "back": dense_j(M.to_tensor())}
            impls.append(call(f))
            reqs.append({"op": "to_tenmat", "T": x, "rdims": c["rdims"], "cdims": c["cdims"], "cyc": c["cyc"]})
        models = drive(reqs)
        out = []
        for c, impl, m in zip(cases, impls, models):
            x = c["x"]
            N = len(x["shape"])
            tags = [f"N{N}", c["cyc"] or ("both" if (c["rdims"] is not None and c["cdims"] is not None) else "one")]
            ic = strip_exc(impl)
            if "reject" in ic or "reject" in m:
                tags.append("reject")
                ok = ("reject" in ic) == ("reject" in m)
                out.append(Verdict("ok" if ok else "violation", "" if ok else "acceptance of the mode split differs from the model",
                                   impl, m, None, tags, False))
                continue
            r, mm = ic["ok"], m["ok"]
            bad = None
            got = {k: r[k] for k in ("tshape", "rdims", "cdims", "data")}
            if not deep_eq(got, mm):
                bad = "to_tenmat differs from the proved model"
            elif not deep_eq(r["back"], x):
                bad = "to_tenmat followed by to_tensor changed the tensor"
            elif r["mshape"] != r["data"]["shape"]:
                bad = "reported matrix shape is inconsistent"
            else:
                # the placement rule itself
                rd, cd = r["rdims"], r["cdims"]
                at = dense_at(x)
                rs, cs = [x["shape"][k] for k in rd], [x["shape"][k] for k in cd]
                for i in gen.all_subs(x["shape"]):
                    a = sub2ind(rs, [i[k] for k in rd])
                    b = sub2ind(cs, [i[k] for k in cd])
                    if r["data"]["data"][a + r["data"]["shape"][0] * b] != at(i):
                        bad = f"entry {i} is not at row {a}, column {b}"
                        break
            out.append(Verdict("violation" if bad else "ok", bad or "", impl, m, None, tags, gen.numel(x["shape"]) > 1))
        return out


class SptenmatFam(Family):
    name = "sptenmat"
    theorems = ("C01_sptenmat_entry", "C01_sptenmat_roundtrip", "C01_sptenmat_full")

    def gen(self, rng, tier):
        out = []
        lim = 3 if tier == "quick" else 4
        shapes = [[3], [2, 3], [2, 3, 4], [3, 1, 2]] + ([[2, 3, 1, 2]] if tier == "thorough" else [])
        shapes += [gen.shape(rng, 1, 4, 4, distinct=True) for _ in range(3 if tier == "quick" else 20)]
        for s in shapes:
            N = len(s)
            for klass in ("empty", "one", "some", "all"):
                subs, vals = gen.sparse_entries(rng, s, klass)
                x = {"shape": s, "subs": subs, "vals": vals}
                parts = ordered_partitions(N)
                if N > lim or len(parts) > (12 if tier == "quick" else 60):
                    parts = rng.sample(parts, 12 if tier == "quick" else 40)
                for r, c_ in parts:
                    out.append({"x": x, "rdims": r, "cdims": c_, "cyc": None})
                for k in range(N):
                    out.append({"x": x, "rdims": [k], "cdims": None, "cyc": rng.choice(["fc", "bc", "t", None])})
        return out

    def evaluate(self, cases):
        impls, reqs = [], []
        for c in cases:
            x = c["x"]
            S = gen.mk_sptensor(ttb, x["shape"], x["subs"], x["vals"])

            def f(S=S, c=c):
                kw = {}
                if c["rdims"] is not None:
                    kw["rdims"] = np.array(c["rdims"], dtype=int)
                if c["cdims"] is not None:
                    kw["cdims"] = np.array(c["cdims"], dtype=int)
                if c["cyc"]:
                    kw["cdims_cyclic"] = c["cyc"]
                M = S.to_sptenmat(**kw)
                subs = np.asarray(M.subs)
                D = S.full().to_tenmat(**kw)
                return {"tshape": list(M.tshape), "rdims": jval(M.rdims), "cdims": jval(M.cdims),
                        "subs": [] if subs.size == 0 else jval(subs.astype(int)),
                        "vals": [] if np.asarray(M.vals).size == 0 else jval(np.asarray(M.vals).reshape(-1)),
                        "nnz": int(M.nnz), "mshape": list(M.shape),
                        "back": sparse_sorted_j(sparse_j(M.to_sptensor())),
                        "full": ndarray_j(M.full().data), "dfull": ndarray_j(D.data),
                        "double": ndarray_j(M.double().toarray())}
            impls.append(call(f))
            reqs.append({"op": "to_sptenmat", "S": x, "rdims": c["rdims"], "cdims": c["cdims"], "cyc": c["cyc"]})
        models = drive(reqs)
        out = []
        for c, impl, m in zip(cases, impls, models):
            x = c["x"]
            tags = [f"N{len(x['shape'])}", f"nnz{min(len(x['subs']), 3)}", c["cyc"] or "split"]
            ic = strip_exc(impl)
            if "reject" in ic or "reject" in m:
                ok = ("reject" in ic) == ("reject" in m)
                out.append(Verdict("ok" if ok else "violation", "" if ok else "to_sptenmat acceptance differs from the model", impl, m, None, tags, False))
                continue
            r, mm = ic["ok"], m["ok"]
            bad = None
            got = {k: r[k] for k in ("tshape", "rdims", "cdims", "subs", "vals")}
            if not deep_eq(got, mm):
                bad = "to_sptenmat differs from the proved model (stored form)"
            elif not deep_eq(r["back"], sparse_sorted_j(x)):
                bad = "sparse -> sptenmat -> sparse changed the tensor"
            elif not deep_eq(r["full"], r["dfull"]) or not deep_eq(r["double"], r["dfull"]):
                bad = "sptenmat.full()/double() differs from the dense matricization"
            elif r["nnz"] != len(r["subs"]) or len(r["subs"]) != len(x["subs"]):
                bad = "sptenmat reports a wrong number of nonzeros"
            elif len(set(map(tuple, r["subs"]))) != len(r["subs"]) or any(v == 0 for v in r["vals"]):
                bad = "sptenmat is not well-formed (duplicate subscripts or explicit zero)"
            out.append(Verdict("violation" if bad else "ok", bad or "", impl, m, None, tags, len(x["subs"]) > 0))
        return out


class SptenmatCtor(Family):
    """sptenmat(subs, vals, rdims, cdims, tshape) with copying and sptenmat.from_array: duplicate
    (row, column) pairs are summed, zero sums dropped; the object denotes the summed matrix."""
    name = "sptenmat_ctor"
    theorems = ("C01_sptenmat_entry",)

    def gen(self, rng, tier):
        out = []
        for _ in range(40 if tier == "quick" else 400):
            s = gen.shape(rng, 1, 4, 4)
            N = len(s)
            p = gen.perm(rng, N)
            k = rng.randint(0, N)
            r, c_ = p[:k], p[k:]
            R, C = gen.numel([s[m] for m in r]), gen.numel([s[m] for m in c_])
            n = rng.randint(0, 6)
            subs = [[rng.randrange(R), rng.randrange(C)] for _ in range(n)]
            if subs and rng.random() < 0.7:  # repeated pairs, some cancelling
                for _ in range(rng.randint(1, 3)):
                    subs.append(list(rng.choice(subs)))
            vals = gen.int_values(rng, len(subs), -4, 4, nonzero=True)
            if len(subs) >= 2 and rng.random() < 0.3:
                subs[-1] = list(subs[0])
                vals[-1] = -vals[0]
            out.append({"subs": subs, "vals": vals, "rdims": r, "cdims": c_, "tshape": s,
                        "via": rng.choice(["ctor", "ctor", "coo"])})
        return out

    def evaluate(self, cases):
        from scipy import sparse as sp
        impls, reqs = [], []
        for c in cases:
            def f(c=c):
                r, c_ = np.array(c["rdims"], dtype=int), np.array(c["cdims"], dtype=int)
                R = gen.numel([c["tshape"][m] for m in c["rdims"]])
                C = gen.numel([c["tshape"][m] for m in c["cdims"]])
                if c["via"] == "coo" and c["subs"]:
                    rows = [x[0] for x in c["subs"]]
                    cols = [x[1] for x in c["subs"]]
                    M = ttb.sptenmat.from_array(sp.coo_matrix((np.array(c["vals"], dtype=float), (rows, cols)), shape=(R, C)),
                                                r, c_, tuple(c["tshape"]))
                else:
                    subs = np.array(c["subs"], dtype=int).reshape(len(c["subs"]), 2) if c["subs"] else None
                    vals = np.array(c["vals"], dtype=float).reshape(-1, 1) if c["subs"] else None
                    M = ttb.sptenmat(subs, vals, r, c_, tuple(c["tshape"]))
                s_ = np.asarray(M.subs)
                return {"subs": [] if s_.size == 0 else jval(s_.astype(int)),
                        "vals": [] if np.asarray(M.vals).size == 0 else jval(np.asarray(M.vals).reshape(-1)),
                        "nnz": int(M.nnz), "double": ndarray_j(M.double().toarray()), "full": ndarray_j(M.full().data)}
            impls.append(call(f))
            reqs.append({"op": "sptenmat_ctor", "subs": c["subs"], "vals": c["vals"], "rdims": c["rdims"],
                         "cdims": c["cdims"], "tshape": c["tshape"]})
        models = drive(reqs)
        out = []
        for c, impl, m in zip(cases, impls, models):
            dup = len(set(map(tuple, c["subs"]))) != len(c["subs"])
            tags = [c["via"], "dup" if dup else "nodup", f"n{min(len(c['subs']), 3)}"]
            if "ok" not in impl or "ok" not in m:
                ok = ("ok" in impl) == ("ok" in m)
                out.append(Verdict("ok" if ok else "violation", "" if ok else "sptenmat constructor acceptance differs from the model", impl, m, None, tags, False))
                continue
            r = impl["ok"]
            R = gen.numel([c["tshape"][k] for k in c["rdims"]])
            C = gen.numel([c["tshape"][k] for k in c["cdims"]])
            dense = [[0] * C for _ in range(R)]
            for (a, b), v in zip(c["subs"], c["vals"]):
                dense[a][b] += v
            spec = {"shape": [R, C], "data": [dense[a][b] for b in range(C) for a in range(R)]}
            bad = None
            if not deep_eq(r["double"], spec) or not deep_eq(r["full"], spec):
                bad = "sptenmat does not denote the sum of the given (row, column, value) triples"
            elif r["nnz"] != sum(1 for v in spec["data"] if v != 0) or len(r["subs"]) != r["nnz"]:
                bad = "sptenmat reports a wrong number of nonzeros / keeps explicit zeros"
            elif not deep_eq({"subs": r["subs"], "vals": r["vals"]}, {"subs": m["ok"]["subs"], "vals": m["ok"]["vals"]}):
                bad = "sptenmat stored form differs from the proved model"
            out.append(Verdict("violation" if bad else "ok", bad or "", impl, m, spec, tags, len(c["subs"]) > 0))
        return out


class KruskalFull(Family):
    name = "kruskal_full"
    theorems = ("C01_kruskal_full",)

    def gen(self, rng, tier):
        out = []
        for _ in range(60 if tier == "quick" else 600):
            s = gen.shape(rng, 1, 4, 4)
            R = rng.randint(1, 3)
            out.append({"weights": gen.int_values(rng, R, -3, 3), "factors": [gen.matrix(rng, m, R) for m in s]})
        out.append({"weights": [2], "factors": [[[1], [3]]]})
        # every split point of the two Khatri-Rao groups (data-dependent: argmin over i of prod(shape[:i]) + prod(shape[i:])),
        # enumerated for orders 2..6 - with extents up to 4 the split is almost always 1 or 2 (seed C01s)
        import itertools
        from math import prod
        seen = {}
        for N in range(2, 7):
            for shp in itertools.product((1, 2, 3, 5, 9, 30), repeat=N):
                if prod(shp) > 800:
                    continue
                i_split = min(range(1, N), key=lambda i: (prod(shp[:i]) + prod(shp[i:]), i))
                seen.setdefault((N, i_split), []).append(list(shp))
        for (N, i_split), shapes in sorted(seen.items()):
            picks = [shapes[0], shapes[-1]] + (rng.sample(shapes, min(len(shapes), 2 if tier == "quick" else 8)))
            for shp in picks:
                R = rng.randint(1, 3)
                out.append({"weights": gen.int_values(rng, R, -3, 3), "factors": [gen.matrix(rng, m, R) for m in shp],
                            "split": i_split})
        return out

    def evaluate(self, cases):
        impls, reqs = [], []
        for c in cases:
            K = gen.mk_ktensor(ttb, c["weights"], c["factors"])
            impls.append(call(lambda K=K: {"full": dense_j(K.full()), "double": ndarray_j(K.double())}))
            reqs.append({"op": "k_full", "K": c})
        models = drive(reqs)
        out = []
        for c, impl, m in zip(cases, impls, models):
            shape = [len(f) for f in c["factors"]]
            R = len(c["weights"])
            tags = [f"N{len(shape)}", f"R{R}"] + ([f"split{c['split']}"] if "split" in c else [])
            spec = {"shape": shape, "data": [
                sum(c["weights"][r] * int(np.prod([c["factors"][n][i[n]][r] for n in range(len(shape))])) for r in range(R))
                for i in gen.all_subs(shape)]}
            if "ok" not in impl:
                out.append(Verdict("violation", "ktensor.full raised", impl, m, spec, tags))
                continue
            bad = None
            if not deep_eq(impl["ok"]["full"], spec) or not deep_eq(impl["ok"]["double"], spec):
                bad = "ktensor.full is not sum_r lambda_r prod_n A_n[i_n, r]"
            elif not deep_eq(impl["ok"]["full"], m.get("ok")):
                bad = "ktensor.full differs from the proved model"
            out.append(Verdict("violation" if bad else "ok", bad or "", impl, m, spec, tags, True))
        return out


# ---------------------------------------------------------------------------------------------
# Operands produced by EARLIER OPERATIONS (not handed straight to a constructor)
#
# A conversion has to preserve what its operand denotes whatever the history of the operand: a
# dense tensor enlarged by assignment past its extent holds a freshly allocated, C-ordered
# buffer; a tensor built from a transposed / strided view or with copy=False, a sparse tensor
# filled entry by entry in arbitrary order, a tenmat / sptenmat wrapped around user arrays are
# all legitimate operands.  A case below is a *recipe* (JSON) for such an operand plus one
# conversion.  What the operand denotes is book-kept independently by `_Sim` from the LOGICAL
# subscripts of the recipe (a dict subscript -> value; nothing in it knows a memory order) and
# is cross-checked against element-by-element subscript reads of the real operand; the
# conversion's result is compared with that reference and with the proved Lean model (which is
# layout-free) through the driver ops of the constructor-fed families above.
# ---------------------------------------------------------------------------------------------
_DT = {"f8": np.float64, "f4": np.float32, "i8": np.int64, "i4": np.int32, "b1": np.bool_}


def _flags(a):
    f, c = bool(a.flags["F_CONTIGUOUS"]), bool(a.flags["C_CONTIGUOUS"])
    return "FC" if f and c else "F" if f else "C" if c else "neither"


@contextlib.contextmanager
def _quiet():
    logging.disable(logging.WARNING)
    try:
        with warnings.catch_warnings():
            warnings.simplefilter("ignore")
            yield
    finally:
        logging.disable(logging.NOTSET)


def laid_out(shape, data, lay="F", dtype="f8"):
    """ndarray whose LOGICAL entries are `data` (listed first subscript fastest) held in memory
    layout `lay`.  Filled entry by entry through subscripts: independent of any memory order."""
    dt = _DT[dtype]
    shape = tuple(int(x) for x in shape)
    N = len(shape)
    if lay == "F":
        a = np.zeros(shape, dtype=dt, order="F")
    elif lay == "C":
        a = np.zeros(shape, dtype=dt, order="C")
    elif lay == "T":  # transposed view (first two axes swapped) of a C-ordered buffer
        if N < 2:
            a = np.zeros(shape, dtype=dt)
        else:
            p = [1, 0] + list(range(2, N))
            a = np.zeros(tuple(shape[k] for k in p), dtype=dt, order="C").transpose(p)
    elif lay == "strided":  # every second cell of a buffer twice as large in every mode; junk in between
        a = np.full(tuple(2 * x for x in shape), 77, dtype=dt)[tuple(slice(1, None, 2) for _ in shape)]
    elif lay == "neg":  # negative strides
        a = np.zeros(shape, dtype=dt)[tuple(slice(None, None, -1) for _ in shape)]
    else:
        raise ValueError(lay)
    assert a.shape == shape
    for i, v in zip(gen.all_subs(list(shape)), data):
        a[tuple(i)] = v
    return a


def f_unindex(shape, k):
    out = []
    for s in shape:
        out.append(k % s)
        k //= s
    return out


class _Sim:
    """What a history of assignments denotes: a shape and a dict subscript -> value (absent = 0)."""

    def __init__(self, shape=(), cells=None):
        self.shape = [int(x) for x in shape]
        self.cells = dict(cells or {})

    @classmethod
    def of_dense(cls, shape, data):
        return cls(shape, {tuple(i): v for i, v in zip(gen.all_subs(list(shape)), data)})

    def grow(self, need):
        n = len(self.shape)
        if len(need) < n:
            raise ValueError("key shorter than the order")
        new = [max(a, b) for a, b in zip(self.shape, need[:n])] + [int(x) for x in need[n:]]
        extra = len(new) - n
        if extra:
            self.cells = {k + (0,) * extra: v for k, v in self.cells.items()}
        self.shape = new

    def put(self, key, v):
        key = tuple(int(k) for k in key)
        if len(key) != len(self.shape) or any(k < 0 or k >= s for k, s in zip(key, self.shape)):
            raise ValueError("subscript outside the tensor")
        self.cells[key] = v

    def step(self, st):
        op = st["op"]
        if op == "set1":
            self.grow([k + 1 for k in st["key"]])
            self.put(st["key"], st["val"])
        elif op == "region":
            key = st["key"]
            self.grow([k[1] if isinstance(k, list) else k + 1 for k in key])
            v = st["val"]
            vshape = [k[1] - k[0] for k in key if isinstance(k, list)]
            if isinstance(v, dict):
                if v["shape"] != vshape:
                    raise ValueError("block shape")
                at = dense_at(v)
            else:
                at = lambda o: v  # noqa: E731
            for off in gen.all_subs(vshape):
                it = iter(off)
                self.put([k[0] + next(it) if isinstance(k, list) else k for k in key], at(off))
        elif op == "subs":
            rows = st["subs"]
            if len({tuple(r) for r in rows}) != len(rows):
                raise ValueError("repeated subscript")
            self.grow([max(r[d] for r in rows) + 1 for d in range(len(rows[0]))])
            for r, v in zip(rows, st["vals"]):
                self.put(r, v)
        elif op == "lin":
            n = gen.numel(self.shape)
            if len(set(st["idx"])) != len(st["idx"]) or any(k < 0 or k >= n for k in st["idx"]):
                raise ValueError("linear index")
            for k, v in zip(st["idx"], st["vals"]):
                self.put(f_unindex(self.shape, k), v)
        elif op == "permute":
            o = st["order"]
            if sorted(o) != list(range(len(self.shape))):
                raise ValueError("order")
            self.cells = {tuple(k[a] for a in o): v for k, v in self.cells.items()}
            self.shape = [self.shape[a] for a in o]
        elif op == "attr":
            pass  # same entries, another buffer
        elif op == "gt0":  # a comparison result: a bool tensor of the same shape
            self.cells = {k: int(v > 0) for k, v in self.cells.items()}
        else:
            raise ValueError(op)

    def dense_j(self):
        return {"shape": list(self.shape), "data": [self.cells.get(tuple(i), 0) for i in gen.all_subs(self.shape)]}

    def sparse_j(self):
        nz = sorted((k, v) for k, v in self.cells.items() if v != 0)
        return {"shape": list(self.shape), "subs": [list(k) for k, _ in nz], "vals": [v for _, v in nz]}


def ref_dense(src):
    b = src["base"]
    sim = _Sim() if b is None else _Sim.of_dense(b["shape"], [int(bool(v)) if b.get("dtype") == "b1" else v for v in b["data"]])
    for st in src["steps"]:
        sim.step(st)
    return sim


def ref_sparse(src):
    b = src["base"]
    if b is None:
        sim = _Sim()
    elif "dense" in b:
        sim = ref_dense(b["dense"])
    else:
        if len({tuple(r) for r in b.get("subs", [])}) != len(b.get("subs", [])):
            raise ValueError("repeated subscript")
        sim = _Sim(b["shape"], {tuple(r): v for r, v in zip(b.get("subs", []), b.get("vals", []))})
    for st in src["steps"]:
        sim.step(st)
    return sim


def _key(k):
    return tuple(slice(x[0], x[1]) if isinstance(x, list) else int(x) for x in k)


def build_dense(src):
    """run the recipe on the real code"""
    b = src["base"]
    if b is None:
        T = ttb.tensor()
    else:
        T = ttb.tensor(laid_out(b["shape"], b["data"], b.get("lay", "F"), b.get("dtype", "f8")), copy=b.get("copy", True))
    for st in src["steps"]:
        op = st["op"]
        if op == "set1":
            T[tuple(int(k) for k in st["key"])] = st["val"]
        elif op == "region":
            v = st["val"]
            T[_key(st["key"])] = laid_out(v["shape"], v["data"], st.get("vlay", "C")) if isinstance(v, dict) else v
        elif op == "subs":
            T[np.array(st["subs"], dtype=int)] = np.array(st["vals"], dtype=float)
        elif op == "lin":
            T[np.array(st["idx"], dtype=int)] = np.array(st["vals"], dtype=float)
        elif op == "permute":
            T = T.permute(np.array(st["order"], dtype=int))
        elif op == "gt0":
            T = T > 0
        elif op == "attr":  # the public data attribute re-pointed at an equal array in another layout
            T.data = laid_out(list(T.shape), [T.data[tuple(i)] for i in gen.all_subs([int(s) for s in T.shape])],
                              st["lay"], "f8")
        else:
            raise ValueError(op)
    return T


def build_sparse(src):
    b = src["base"]
    if b is None:
        S = ttb.sptensor()
    elif "dense" in b:
        S = build_dense(b["dense"]).to_sptensor()
    elif not b.get("subs"):
        S = ttb.sptensor(shape=tuple(b["shape"]))
    else:
        n, N = len(b["subs"]), len(b["shape"])
        subs = laid_out([n, N], [b["subs"][r][d] for d in range(N) for r in range(n)], b.get("lay", "C"), "i8")
        vals = laid_out([n, 1], b["vals"], b.get("vlay", "C"), b.get("dtype", "f8"))
        S = ttb.sptensor(subs, vals, tuple(b["shape"]), copy=b.get("copy", True))
    for st in src["steps"]:
        op = st["op"]
        if op == "set1":
            S[tuple(int(k) for k in st["key"])] = st["val"]
        elif op == "subs":
            S[np.array(st["subs"], dtype=int)] = np.array(st["vals"], dtype=float).reshape(-1, 1)
        elif op == "permute":
            S = S.permute(np.array(st["order"], dtype=int))
        else:
            raise ValueError(op)
    return S


def read_dense(T):
    """the array a dense tensor denotes, read entry by entry through subscripts"""
    shape = [int(s) for s in T.shape]
    if tuple(T.data.shape) != tuple(shape):
        raise ValueError(f"data.shape {T.data.shape} != shape {T.shape}")
    return {"shape": shape, "data": jval([T.data[tuple(i)] for i in gen.all_subs(shape)])}


def read_matrix(A):
    A = np.asarray(A)
    shape = [int(s) for s in A.shape]
    return {"shape": shape, "data": jval([A[tuple(i)] for i in gen.all_subs(shape)])}


def read_sparse(S):
    """the array a sparse tensor denotes (values stored under one subscript add up), zeros dropped, sorted"""
    shape = [int(s) for s in S.shape]
    acc = {}
    subs, vals = np.asarray(S.subs), np.asarray(S.vals)
    n = 0 if subs.size == 0 else subs.shape[0]
    for r in range(n):
        k = tuple(int(subs[r, d]) for d in range(len(shape)))
        if any(x < 0 or x >= s for x, s in zip(k, shape)):
            raise ValueError("stored subscript outside the shape")
        acc[k] = acc.get(k, 0) + vals[r, 0]
    nz = sorted((k, v) for k, v in acc.items() if v != 0)
    return {"shape": shape, "subs": [list(k) for k, _ in nz], "vals": jval([v for _, v in nz])}


def matricize_ref(x, rd, cd):
    """the matrix the (rd, cd) split of the dense reference x must give (placement rule of the property)"""
    rs, cs = [x["shape"][k] for k in rd], [x["shape"][k] for k in cd]
    R, C = gen.numel(rs), gen.numel(cs)
    mat = [0] * (R * C)
    at = dense_at(x)
    for i in gen.all_subs(x["shape"]):
        mat[sub2ind(rs, [i[k] for k in rd]) + R * sub2ind(cs, [i[k] for k in cd])] = at(i)
    return {"shape": [R, C], "data": mat}


def _kw(conv):
    kw = {}
    if conv.get("rdims") is not None:
        kw["rdims"] = np.array(conv["rdims"], dtype=int)
    if conv.get("cdims") is not None:
        kw["cdims"] = np.array(conv["cdims"], dtype=int)
    if conv.get("cyc"):
        kw["cdims_cyclic"] = conv["cyc"]
    return kw


def splits_for(rng, N, cap):
    """mode splits for an operand of order N: every ordered partition (sampled beyond `cap`) and every
    single-mode convention"""
    parts = ordered_partitions(N)
    if len(parts) > cap:
        parts = rng.sample(parts, cap)
    out = [{"rdims": r, "cdims": c_, "cyc": None} for r, c_ in parts]
    for k in range(N):
        for cyc in ("fc", "bc", "t", None):
            out.append({"rdims": [k], "cdims": None, "cyc": cyc})
        out.append({"rdims": None, "cdims": [k], "cyc": None})
    return out


def _distinct_data(rng, s, zero_share=0.25):
    """entries pairwise distinct where non-zero (so that no misplacement can go unnoticed), some zeros"""
    n = gen.numel(s)
    pool = [v for v in range(-9, 10) if v]
    vals = rng.sample(pool, n) if n <= len(pool) else [rng.choice(pool) for _ in range(n)]
    out = [0 if rng.random() < zero_share else v for v in vals]
    if n > 1 and all(v == 0 for v in out):
        out[rng.randrange(n)] = vals[0]
    return out


def _block(rng, vshape, lo=10, hi=30):
    n = gen.numel(vshape)
    vals = rng.sample(range(lo, hi), n) if n <= hi - lo else [rng.randrange(lo, hi) for _ in range(n)]
    if n > 2:
        vals[rng.randrange(n)] = 0
    return {"shape": list(vshape), "data": vals}


def dense_sources(rng, tier):
    """ENUMERATION (not a sample) of the ways a dense operand comes about; only the values are drawn.
    -> [(label, recipe)]"""
    out = []
    bases = [[3], [2, 3], [3, 2], [3, 1, 2], [2, 3, 2]]
    if tier == "thorough":
        bases += [[1, 3], [2, 2], [4, 3, 2], [2, 3, 4], [2, 1, 2, 3]]

    def base(s, lay="F", dt="f8", copy=True):
        d = _distinct_data(rng, s)
        if dt == "b1":
            d = [int(v != 0) for v in d]
        return {"shape": list(s), "data": d, "lay": lay, "dtype": dt, "copy": copy}

    def nv():
        return rng.choice([v for v in range(31, 60)])

    def add(label, b, steps):
        out.append((label, {"base": b, "steps": steps}))

    for s in bases:
        N = len(s)
        inner = [x - 1 for x in s]
        keys = {"first": [s[0]] + [0] * (N - 1), "last": [0] * (N - 1) + [s[-1]], "all": list(s),
                "far": [x + 1 for x in s]}
        seen = set()
        for nm, key in keys.items():
            if tuple(key) in seen:
                continue
            seen.add(tuple(key))
            add(f"grow-sub-{nm}", base(s), [{"op": "set1", "key": key, "val": nv()}])
        add("grow-trailing-mode2", base(s), [{"op": "set1", "key": inner + [1], "val": nv()}])
        add("grow-trailing-mode1", base(s), [{"op": "set1", "key": [0] * N + [0], "val": nv()}])
        # region growth: a slab past the last mode; a block straddling the end of the first mode; a slab in a new mode
        k1 = [[0, x] for x in s[:-1]] + [[s[-1], s[-1] + 2]]
        add("grow-region-last", base(s), [{"op": "region", "key": k1, "val": _block(rng, s[:-1] + [2]), "vlay": rng.choice(["C", "F"])}])
        k2 = [[s[0] - 1, s[0] + 1]] + [[0, x] for x in s[1:]]
        add("grow-region-first", base(s), [{"op": "region", "key": k2, "val": _block(rng, [2] + s[1:]), "vlay": "F"}])
        k3 = [[0, x] for x in s] + [1]
        add("grow-region-newmode", base(s), [{"op": "region", "key": k3, "val": _block(rng, s), "vlay": "C"}])
        add("grow-region-scalar", base(s), [{"op": "region", "key": [[x - 1, x + 1] for x in s], "val": nv()}])
        # subscript-array growth
        rows = [keys["first"], keys["last"]] if N > 1 else [[s[0]], [s[0] + 2]]
        add("grow-subs", base(s), [{"op": "subs", "subs": rows, "vals": [nv(), -nv()]}])
        add("grow-subs-newmode", base(s), [{"op": "subs", "subs": [inner + [1], [0] * N + [0]], "vals": [nv(), -nv()]}])
        # growth, then further writes into the new buffer
        add("grow-then-write", base(s), [
            {"op": "set1", "key": list(s), "val": nv()},
            {"op": "set1", "key": [0] * N, "val": -nv()},
            {"op": "lin", "idx": [1, gen.numel([x + 1 for x in s]) - 2], "vals": [nv(), nv()]},
            {"op": "region", "key": [[0, 2]] + [0] * (N - 1), "val": _block(rng, [2]), "vlay": "C"}])
        add("grow-twice", base(s), [{"op": "set1", "key": keys["first"], "val": nv()},
                                    {"op": "set1", "key": [0] * (N - 1) + [s[-1] + 1], "val": -nv()}])
        if N > 1:
            add("grow-then-permute", base(s), [{"op": "set1", "key": list(s), "val": nv()},
                                               {"op": "permute", "order": list(range(N))[::-1]}])
            add("permute-then-grow", base(s), [{"op": "permute", "order": list(range(1, N)) + [0]},
                                               {"op": "set1", "key": [s[k] for k in list(range(1, N)) + [0]], "val": nv()}])
        add("write-in-place", base(s), [{"op": "set1", "key": inner, "val": nv()}])
        for dt in ("i8", "b1"):
            add(f"grow-sub-all-{dt}", base(s, "C", dt), [{"op": "set1", "key": list(s), "val": nv()}])
        # a comparison result (bool data), as it is and after growth (F01-bool-tenmat)
        add("compare-gt0", base(s), [{"op": "gt0"}])
        add("grow-then-compare-gt0", base(s), [{"op": "set1", "key": list(s), "val": nv()}, {"op": "gt0"}])
    # an empty tensor filled by assignment
    add("empty-fill", None, [{"op": "set1", "key": [0, 2], "val": nv()}, {"op": "set1", "key": [1, 0], "val": -nv()}])
    add("empty-fill", None, [{"op": "set1", "key": [2], "val": nv()}, {"op": "set1", "key": [0], "val": -nv()}])
    add("empty-fill", None, [{"op": "set1", "key": [1, 0, 2], "val": nv()}, {"op": "set1", "key": [0, 1, 0], "val": -nv()},
                             {"op": "set1", "key": [1, 1, 1], "val": nv()}])
    add("empty-fill", None, [{"op": "set1", "key": [2, 1], "val": nv()}, {"op": "set1", "key": [0, 0], "val": -nv()},
                             {"op": "set1", "key": [1, 3], "val": nv()}, {"op": "set1", "key": [0, 1], "val": nv()}])
    add("empty-fill-subs", None, [{"op": "subs", "subs": [[0, 2, 1], [1, 0, 0]], "vals": [nv(), -nv()]}])
    add("empty-fill-subs", None, [{"op": "subs", "subs": [[1, 2]], "vals": [nv()]}])
    add("empty-fill-region", None, [{"op": "region", "key": [[0, 2], [0, 3]], "val": _block(rng, [2, 3]), "vlay": "C"}])
    add("empty-fill-newmode", None, [{"op": "set1", "key": [1, 2], "val": nv()}, {"op": "set1", "key": [0, 0, 1], "val": -nv()}])
    # constructor fed with arrays in every memory layout / dtype, copying or not
    for s in [[4], [2, 3], [3, 1, 2], [2, 3, 2]] + ([[3, 4, 2], [2, 2, 3, 2]] if tier == "thorough" else []):
        for lay in ("F", "C", "T", "strided", "neg"):
            for copy in (True, False):
                add(f"ctor-{lay}-{'copy' if copy else 'nocopy'}", base(s, lay, "f8", copy), [])
        for dt in ("i8", "i4", "b1", "f4"):
            for lay in ("C", "strided"):
                add(f"ctor-{dt}-{lay}", base(s, lay, dt, True), [])
    # the data attribute pointed at an equal array that is neither C- nor F-contiguous
    for s in [[2, 3], [2, 3, 2]]:
        for lay in ("T", "strided", "C"):
            add(f"attr-{lay}", base(s), [{"op": "attr", "lay": lay}])
    return out


def random_dense_source(rng):
    s = gen.shape(rng, 1, 3, 3)
    sim_shape = list(s)
    b = {"shape": s, "data": _distinct_data(rng, s), "lay": rng.choice(["F", "C", "T", "strided", "neg"]),
         "dtype": "f8", "copy": rng.random() < 0.7}
    if rng.random() < 0.15:
        b, sim_shape = None, []
    src = {"base": b, "steps": []}
    for _ in range(rng.randint(1, 4)):
        N = len(sim_shape)
        kind = rng.choice(["set1", "set1", "region", "subs", "lin", "permute"])
        if N == 0 and kind in ("lin", "permute"):
            kind = "set1"
        if kind == "set1":
            key = [rng.randint(0, x) for x in sim_shape] if N else [rng.randint(0, 2) for _ in range(rng.randint(1, 3))]
            if N < 3 and rng.random() < 0.2:
                key.append(rng.randint(0, 1))
            st = {"op": "set1", "key": key, "val": rng.randint(31, 59)}
        elif kind == "region":
            key = []
            dims = sim_shape if N else [2] * rng.randint(1, 2)
            for x in dims:
                lo = rng.randint(0, x)
                key.append([lo, lo + rng.randint(1, 2)] if rng.random() < 0.7 else rng.randint(0, x))
            vshape = [k[1] - k[0] for k in key if isinstance(k, list)]
            st = {"op": "region", "key": key, "val": _block(rng, vshape) if vshape and rng.random() < 0.8 else rng.randint(31, 59),
                  "vlay": rng.choice(["C", "F"])}
        elif kind == "subs":
            dims = sim_shape if N else [2] * rng.randint(1, 3)
            rows = {tuple(rng.randint(0, x) for x in dims) for _ in range(rng.randint(1, 3))}
            rows = [list(r) for r in sorted(rows)]
            rng.shuffle(rows)
            st = {"op": "subs", "subs": rows, "vals": [rng.randint(31, 59) for _ in rows]}
        elif kind == "lin":
            n = gen.numel(sim_shape)
            idx = rng.sample(range(n), min(n, rng.randint(1, 3)))
            st = {"op": "lin", "idx": idx, "vals": [rng.randint(31, 59) for _ in idx]}
        else:
            st = {"op": "permute", "order": gen.perm(rng, N)}
        src["steps"].append(st)
        sim_shape = ref_dense({"base": None if b is None else dict(b), "steps": src["steps"]}).shape
        if gen.numel(sim_shape) > 60:
            break
    return src


class DerivedDense(Family):
    """every conversion of a dense tensor, on operands produced by earlier operations: grown by assignment
    (C-ordered buffer), filled from empty, built from C / transposed / strided / negative-stride views and
    integer / bool / float32 arrays with and without copying, permuted, written in place"""
    name = "derived_dense"
    theorems = ("C01_toSparse_get", "C01_toSparse_wf", "C01_toSparse_nnz", "C01_dense_sparse_dense",
                "C01_tenmat_entry", "C01_tenmat_roundtrip", "C01_wrap_conventions")

    def gen(self, rng, tier):
        srcs = dense_sources(rng, tier)
        if tier == "thorough":
            srcs += [("random-history", random_dense_source(rng)) for _ in range(150)]
        out = []
        for label, src in srcs:
            N = len(ref_dense(src).shape)
            light = label.startswith("ctor-")
            convs = [{"k": "sparse"}, {"k": "same"}]
            splits = splits_for(rng, N, (6 if light else 24) if tier == "quick" else 40)
            if light and tier == "quick" and len(splits) > 8:
                splits = rng.sample(splits, 8)
            for j, sp in enumerate(splits):
                convs.append(dict(sp, k="tenmat", copy=(j % 4 != 3)))
            for cv in convs:
                out.append({"label": label, "src": src, "conv": cv})
        return out

    def shrink(self, case):
        st = case["src"]["steps"]
        for k in range(len(st) - 1, -1, -1):
            yield {**case, "src": {"base": case["src"]["base"], "steps": st[:k] + st[k + 1:]}}
        if case["conv"]["k"] == "tenmat":
            yield {**case, "conv": {"k": "sparse"}}

    def evaluate(self, cases):
        refs, impls, reqs = [], [], []
        for c in cases:
            try:
                x = ref_dense(c["src"]).dense_j()
            except Exception:  # noqa: BLE001  (a shrunk recipe may be meaningless)
                x = None
            refs.append(x)
            cv = c["conv"]
            if x is None:
                impls.append(None)
                continue
            with _quiet():
                built = call(build_dense, c["src"])
                if "ok" not in built:
                    impls.append({"operand": built})
                    reqs.append(None)
                    continue
                T = built["ok"]
                info = {"lay": _flags(T.data), "dtype": str(T.data.dtype), "operand": call(read_dense, T)}

                def conv(T=T, cv=cv):
                    if cv["k"] == "sparse":
                        S = T.to_sptensor()
                        fs, fv = T.find()
                        F = ttb.sptensor(np.array(fs), np.array(fv), T.shape) if np.asarray(fs).size else ttb.sptensor(shape=T.shape)
                        return {"sp": sparse_j(S), "den": read_sparse(S), "find": read_sparse(F), "nfind": int(np.asarray(fv).size),
                                "nnz": int(S.nnz), "tnnz": int(T.nnz), "back": read_dense(S.full()),
                                "double": read_matrix(S.double())}
                    if cv["k"] == "same":
                        return {"full": read_dense(T.full()), "double": read_matrix(T.double()), "copy": read_dense(T.copy()),
                                "again": read_dense(ttb.tensor(T.data, T.shape)), "after": read_dense(T)}
                    M = T.to_tenmat(**_kw(cv), copy=cv.get("copy", True))
                    return {"tshape": [int(v) for v in M.tshape], "rdims": jval(M.rindices), "cdims": jval(M.cindices),
                            "data": read_matrix(M.data), "mshape": [int(v) for v in M.shape],
                            "double": read_matrix(M.double()), "back": read_dense(M.to_tensor()),
                            "back_nocopy": read_dense(M.to_tensor(copy=False))}
                info["res"] = call(conv)
            impls.append(info)
            if cv["k"] == "sparse":
                reqs.append({"op": "to_sptensor", "T": x})
            elif cv["k"] == "tenmat":
                reqs.append({"op": "to_tenmat", "T": x, "rdims": cv.get("rdims"), "cdims": cv.get("cdims"), "cyc": cv.get("cyc")})
            else:
                reqs.append(None)
        replies = iter(drive([r for r in reqs if r is not None]))
        models = [next(replies) if r is not None else None for r in reqs]
        models = iter(models)
        out = []
        for c, x, impl in zip(cases, refs, impls):
            cv = c["conv"]
            tags = [c.get("label", "?"), cv["k"]]
            if x is None:
                out.append(Verdict("ok", "recipe without a meaning", None, None, None, tags + ["void-recipe"], False))
                continue
            m = next(models)
            tags += [f"N{len(x['shape'])}"]
            if "res" not in impl or "ok" not in impl["operand"] or not deep_eq(impl["operand"]["ok"], x):
                # building the operand is C04's business (assignment), not a conversion
                out.append(Verdict("ok", "the operand itself is not what its history says (not a conversion)", impl, m, x,
                                   tags + ["operand-mismatch"], False))
                continue
            tags += [f"lay:{impl['lay']}", f"dtype:{impl['dtype']}"]
            res = impl["res"]
            nt = gen.numel(x["shape"]) > 1
            if cv["k"] == "tenmat" and ("ok" not in res or "reject" in m):
                ok = ("ok" not in res) == ("reject" in m)
                out.append(Verdict("ok" if ok else "violation", "" if ok else "acceptance of the mode split differs from the model",
                                   impl, m, x, tags + ["reject"], False))
                continue
            if "ok" not in res:
                out.append(Verdict("violation", "a conversion raised", impl, m, x, tags, nt))
                continue
            r = res["ok"]
            bad = None
            if cv["k"] == "sparse":
                want = sparse_sorted_j(ref_dense(c["src"]).sparse_j())
                nz = len(want["subs"])
                if not deep_eq(sparse_sorted_j(r["den"]), want):
                    bad = "dense -> sparse: the sptensor does not denote the same array"
                elif not deep_eq(sparse_sorted_j(r["find"]), want):
                    bad = "find() does not list the non-zero entries of the array"
                elif not deep_eq(r["back"], x) or not deep_eq(r["double"], x):
                    bad = "dense -> sparse -> dense changed the tensor"
                elif r["nnz"] != nz or r["tnnz"] != nz or r["nfind"] != nz or len(r["sp"]["subs"]) != nz:
                    bad = "reported nonzero count differs from the number of non-zero entries"
                elif not deep_eq(r["sp"], m["sp"]):
                    bad = "to_sptensor differs from the proved model (stored form)"
                tags.append("allzero" if nz == 0 else "some")
            elif cv["k"] == "same":
                for k in ("full", "double", "copy", "again", "after"):
                    if not deep_eq(r[k], x):
                        bad = bad or f"{k}: dense -> dense changed the tensor"
            else:
                mm = m["ok"]
                got = {k: r[k] for k in ("tshape", "rdims", "cdims", "data")}
                spec = matricize_ref(x, r["rdims"], r["cdims"]) if sorted(r["rdims"] + r["cdims"]) == list(range(len(x["shape"]))) else None
                if spec is None or not deep_eq(r["data"], spec):
                    bad = "to_tenmat: an entry is not at (row, column) = (sub2ind of its row modes, sub2ind of its column modes)"
                elif not deep_eq(got, mm):
                    bad = "to_tenmat differs from the proved model"
                elif not deep_eq(r["back"], x) or not deep_eq(r["back_nocopy"], x):
                    bad = "to_tenmat followed by to_tensor changed the tensor"
                elif not deep_eq(r["double"], spec):
                    bad = "tenmat.double() differs from the matricization"
                elif r["mshape"] != spec["shape"] or r["tshape"] != x["shape"]:
                    bad = "reported shapes are inconsistent"
                tags.append(cv.get("cyc") or "split")
            out.append(Verdict("violation" if bad else "ok", bad or "", impl, m, x, tags, nt))
        return out


# -- sparse operands ---------------------------------------------------------------------------
def sparse_sources(rng, tier):
    out = []

    def add(label, b, steps):
        out.append((label, {"base": b, "steps": steps}))

    def entries(s, klass="some", order=None):
        subs, vals = gen.sparse_entries(rng, s, klass, order)
        pool = [v for v in range(-9, 10) if v]
        if len(vals) <= len(pool):
            vals = rng.sample(pool, len(vals))
        return subs, vals

    def nv():
        return rng.randint(31, 59)

    shapes = [[4], [2, 3], [3, 1, 2], [2, 3, 2]] + ([[3, 2], [2, 3, 4], [2, 1, 2, 3]] if tier == "thorough" else [])
    for s in shapes:
        N = len(s)
        cells = gen.all_subs(s)
        # element assignment into an empty sptensor of that shape, in non-sorted order
        order = list(cells)
        rng.shuffle(order)
        k = max(2, len(order) // 2)
        add("assign-unsorted", {"shape": s}, [{"op": "set1", "key": key, "val": (-1) ** j * nv()} for j, key in enumerate(order[:k])])
        add("assign-reversed", {"shape": s}, [{"op": "set1", "key": key, "val": nv()}
                                              for key in sorted(cells, key=lambda r: list(reversed(r)), reverse=True)[:k]])
        rows = order[:k]
        add("assign-subs-array", {"shape": s}, [{"op": "subs", "subs": rows, "vals": [(-1) ** j * nv() for j in range(len(rows))]}])
        # stored tensor (sorted / reversed / shuffled), then overwritten, deleted and grown
        for o in ("sorted", "reversed", "shuffled"):
            subs, vals = entries(s, "some", o)
            while len(subs) < 2:
                subs, vals = entries(s, "all", o)
            b = {"shape": s, "subs": subs, "vals": vals}
            add(f"stored-{o}-overwrite-delete", b, [{"op": "set1", "key": subs[0], "val": nv()},
                                                    {"op": "set1", "key": subs[-1], "val": 0}])
            add(f"stored-{o}-grow-sub", b, [{"op": "set1", "key": list(s), "val": nv()}])
            add(f"stored-{o}-grow-first", b, [{"op": "set1", "key": [s[0] + 1] + [0] * (N - 1), "val": -nv()}])
            add(f"stored-{o}-grow-subs", b, [{"op": "subs", "subs": [list(s), [0] * (N - 1) + [s[-1] + 1]], "vals": [nv(), -nv()]}])
            add(f"stored-{o}-grow-newmode", b, [{"op": "set1", "key": [x - 1 for x in s] + [1], "val": nv()}])
            add(f"stored-{o}-grow-newmode-subs", b, [{"op": "subs", "subs": [[x - 1 for x in s] + [1], [0] * N + [0]],
                                                     "vals": [nv(), -nv()]}])
            if N > 1:
                add(f"stored-{o}-permute-grow", b, [{"op": "permute", "order": list(range(1, N)) + [0]},
                                                    {"op": "set1", "key": [s[k2] for k2 in list(range(1, N)) + [0]], "val": nv()}])
        # constructor fed with subscript / value arrays in other layouts, copying or not
        for lay in ("C", "F", "strided", "neg"):
            for copy in (True, False):
                subs, vals = entries(s, rng.choice(["some", "all"]), "shuffled")
                if not subs:
                    subs, vals = entries(s, "all", "shuffled")
                add(f"ctor-subs{lay}-{'copy' if copy else 'nocopy'}",
                    {"shape": s, "subs": subs, "vals": vals, "lay": lay, "vlay": rng.choice(["C", "strided"]), "copy": copy}, [])
        # dense tensors with a history, converted, then converted again
        dsrc = {"base": {"shape": s, "data": _distinct_data(rng, s), "lay": "F", "dtype": "f8", "copy": True},
                "steps": [{"op": "set1", "key": list(s), "val": nv()}]}
        add("from-grown-dense", {"dense": dsrc}, [])
        add("from-grown-dense-then-assign", {"dense": dsrc}, [{"op": "set1", "key": [0] * N, "val": -nv()}])
    # a shapeless empty sptensor filled by assignment
    add("empty-fill", None, [{"op": "set1", "key": [1, 2], "val": nv()}, {"op": "set1", "key": [0, 1], "val": -nv()},
                             {"op": "set1", "key": [2, 0], "val": nv()}])
    add("empty-fill-subs", None, [{"op": "subs", "subs": [[1, 0, 2], [0, 2, 1], [1, 1, 0]], "vals": [nv(), -nv(), nv()]}])
    add("from-filled-dense", {"dense": {"base": None, "steps": [{"op": "set1", "key": [0, 2], "val": nv()},
                                                                {"op": "set1", "key": [1, 0], "val": -nv()}]}}, [])
    return out


class DerivedSparse(Family):
    """every conversion of a sparse tensor, on operands produced by earlier operations: filled entry by
    entry in arbitrary order, overwritten / deleted / grown by assignment (also into a new mode), permuted,
    built around subscript arrays in other layouts without copying, obtained from a grown dense tensor"""
    name = "derived_sparse"
    theorems = ("C01_sp_full_at", "C01_sparse_dense_sparse", "C01_sptenmat_entry", "C01_sptenmat_roundtrip",
                "C01_sptenmat_full")

    def gen(self, rng, tier):
        out = []
        for label, src in sparse_sources(rng, tier):
            N = len(ref_sparse(src).shape)
            convs = [{"k": "dense"}]
            light = label.startswith("ctor-")
            for sp in splits_for(rng, N, (4 if light else 8) if tier == "quick" else 24):
                if sp["cdims"] is None and sp["cyc"] is None and light:
                    continue
                convs.append(dict(sp, k="sptenmat"))
            for cv in convs:
                out.append({"label": label, "src": src, "conv": cv})
        return out

    def shrink(self, case):
        st = case["src"]["steps"]
        for k in range(len(st) - 1, -1, -1):
            yield {**case, "src": {"base": case["src"]["base"], "steps": st[:k] + st[k + 1:]}}
        if case["conv"]["k"] == "sptenmat":
            yield {**case, "conv": {"k": "dense"}}

    def evaluate(self, cases):
        refs, impls, reqs = [], [], []
        for c in cases:
            try:
                sim = ref_sparse(c["src"])
            except Exception:  # noqa: BLE001
                sim = None
            refs.append(sim)
            cv = c["conv"]
            if sim is None:
                impls.append(None)
                continue
            with _quiet():
                built = call(build_sparse, c["src"])
                if "ok" not in built:
                    impls.append({"operand": built})
                    reqs.append(None)
                    continue
                S = built["ok"]
                info = {"operand": call(read_sparse, S), "stored": call(sparse_j, S)}

                def conv(S=S, cv=cv):
                    if cv["k"] == "dense":
                        D = S.full()
                        return {"full": read_dense(D), "lay": _flags(D.data), "double": read_matrix(S.double()),
                                "to_tensor": read_dense(S.to_tensor()), "back": read_sparse(D.to_sptensor()), "nnz": int(S.nnz)}
                    M = S.to_sptenmat(**_kw(cv))
                    subs = np.asarray(M.subs)
                    return {"tshape": [int(v) for v in M.tshape], "rdims": jval(M.rdims), "cdims": jval(M.cdims),
                            "subs": [] if subs.size == 0 else jval(subs.astype(int)),
                            "vals": [] if np.asarray(M.vals).size == 0 else jval(np.asarray(M.vals).reshape(-1)),
                            "nnz": int(M.nnz), "mshape": [int(v) for v in M.shape], "back": read_sparse(M.to_sptensor()),
                            "full": read_matrix(M.full().data), "double": read_matrix(M.double().toarray())}
                info["res"] = call(conv)
            impls.append(info)
            if "ok" not in info["stored"]:
                reqs.append(None)
            elif cv["k"] == "dense":
                reqs.append({"op": "sp_full", "S": info["stored"]["ok"]})
            else:
                reqs.append({"op": "to_sptenmat", "S": info["stored"]["ok"], "rdims": cv.get("rdims"), "cdims": cv.get("cdims"),
                             "cyc": cv.get("cyc")})
        replies = iter(drive([r for r in reqs if r is not None]))
        models = iter([next(replies) if r is not None else None for r in reqs])
        out = []
        for c, sim, impl in zip(cases, refs, impls):
            cv = c["conv"]
            tags = [c.get("label", "?"), cv["k"]]
            if sim is None:
                out.append(Verdict("ok", "recipe without a meaning", None, None, None, tags + ["void-recipe"], False))
                continue
            m = next(models)
            want = sparse_sorted_j(sim.sparse_j())
            x = sim.dense_j()
            tags += [f"N{len(x['shape'])}", f"nnz{min(len(want['subs']), 3)}"]
            from_dense = isinstance(c["src"]["base"], dict) and "dense" in c["src"]["base"] and not c["src"]["steps"]
            if "res" not in impl or "ok" not in impl["operand"] or not deep_eq(sparse_sorted_j(impl["operand"]["ok"]), want):
                if from_dense and "res" in impl:
                    out.append(Verdict("violation", "dense (with a history) -> sparse: the sptensor does not denote the same array",
                                       impl, m, want, tags, True))
                else:
                    out.append(Verdict("ok", "the operand itself is not what its history says (not a conversion)", impl, m, want,
                                       tags + ["operand-mismatch"], False))
                continue
            res = impl["res"]
            nt = len(want["subs"]) > 0
            if cv["k"] == "sptenmat" and ("ok" not in res or "reject" in m):
                ok = ("ok" not in res) == ("reject" in m)
                out.append(Verdict("ok" if ok else "violation", "" if ok else "to_sptenmat acceptance differs from the model",
                                   impl, m, want, tags + ["reject"], False))
                continue
            if "ok" not in res:
                out.append(Verdict("violation", "a conversion raised", impl, m, want, tags, nt))
                continue
            r = res["ok"]
            bad = None
            if cv["k"] == "dense":
                if not deep_eq(r["full"], x) or not deep_eq(r["double"], x) or not deep_eq(r["to_tensor"], x):
                    bad = "sparse -> dense does not denote the same array"
                elif not deep_eq(r["full"], m):
                    bad = "sptensor.full differs from the proved model"
                elif not deep_eq(sparse_sorted_j(r["back"]), want):
                    bad = "sparse -> dense -> sparse changed the tensor"
                elif r["nnz"] != len(want["subs"]):
                    bad = "nnz differs from the number of non-zero entries"
            else:
                mm = m["ok"]
                got = {k: r[k] for k in ("tshape", "rdims", "cdims", "subs", "vals")}
                spec = matricize_ref(x, r["rdims"], r["cdims"]) if sorted(r["rdims"] + r["cdims"]) == list(range(len(x["shape"]))) else None
                if spec is None or not deep_eq(r["full"], spec) or not deep_eq(r["double"], spec):
                    bad = "sptenmat.full()/double() is not the matricization of the array the operand denotes"
                elif not deep_eq(sparse_sorted_j(r["back"]), want):
                    bad = "sparse -> sptenmat -> sparse changed the tensor"
                elif not deep_eq(got, mm):
                    bad = "to_sptenmat differs from the proved model (stored form)"
                elif r["nnz"] != len(want["subs"]) or len(r["subs"]) != r["nnz"] or r["mshape"] != spec["shape"]:
                    bad = "sptenmat reports a wrong number of nonzeros / shape"
                elif len(set(map(tuple, r["subs"]))) != len(r["subs"]) or any(v == 0 for v in r["vals"]):
                    bad = "sptenmat is not well-formed (duplicate subscripts or explicit zero)"
                tags.append(cv.get("cyc") or "split")
            out.append(Verdict("violation" if bad else "ok", bad or "", impl, m, want, tags, nt))
        return out


# -- tenmat / sptenmat wrapped directly around user arrays ----------------------------------------
class DirectMatrices(Family):
    """tenmat(data, rdims, cdims, tshape) and sptenmat(subs, vals, ...) / sptenmat.from_array built directly
    from user arrays in C / F / transposed / strided layouts (integer and float32 too), with and without
    copying, converted back to a tensor: entry (sub2ind rows, sub2ind cols) of the matrix is entry i of the tensor"""
    name = "direct_matrices"
    theorems = ("C01_tenmat_roundtrip", "C01_tenmat_entry", "C01_sptenmat_roundtrip", "C01_sptenmat_entry")

    def gen(self, rng, tier):
        out = []
        shapes = [[3], [2, 3], [3, 1, 2], [2, 3, 2]] + ([[2, 3, 4], [2, 1, 2, 3]] if tier == "thorough" else [])
        for s in shapes:
            N = len(s)
            parts = ordered_partitions(N)
            if len(parts) > (6 if tier == "quick" else 24):
                parts = rng.sample(parts, 6 if tier == "quick" else 24)
            for r, c_ in parts:
                R, C = gen.numel([s[k] for k in r]), gen.numel([s[k] for k in c_])
                for lay, dt, copy in [("C", "f8", True), ("C", "f8", False), ("F", "f8", False), ("T", "f8", True),
                                      ("strided", "f8", False), ("neg", "f8", True), ("C", "i8", True), ("strided", "f4", True)]:
                    out.append({"k": "tenmat", "tshape": s, "rdims": r, "cdims": c_, "data": _distinct_data(rng, [R, C]),
                                "lay": lay, "dtype": dt, "copy": copy})
                cells = [[a, b] for b in range(C) for a in range(R)]
                for lay, vlay, copy in [("C", "C", True), ("F", "strided", True), ("strided", "C", True), ("C", "C", False),
                                        ("F", "strided", False), ("neg", "C", False)]:
                    k = rng.randint(1, len(cells))
                    subs = rng.sample(cells, k)
                    vals = gen.int_values(rng, k, nonzero=True, distinct=True)
                    if copy and k >= 2 and rng.random() < 0.5:  # repeated pairs are summed when copying
                        subs.append(list(subs[0]))
                        vals.append(rng.choice([5, -vals[0]]))
                    out.append({"k": "sptenmat", "tshape": s, "rdims": r, "cdims": c_, "subs": subs, "vals": vals,
                                "lay": lay, "vlay": vlay, "copy": copy})
                for lay in ("C", "F", "T", "strided"):
                    out.append({"k": "from_array", "tshape": s, "rdims": r, "cdims": c_, "data": _distinct_data(rng, [R, C], 0.5),
                                "lay": lay})
        return out

    def evaluate(self, cases):
        impls, reqs = [], []
        for c in cases:
            s = c["tshape"]
            rd, cd = c["rdims"], c["cdims"]
            R, C = gen.numel([s[k] for k in rd]), gen.numel([s[k] for k in cd])

            def f(c=c, s=s, R=R, C=C):
                r_, c_ = np.array(c["rdims"], dtype=int), np.array(c["cdims"], dtype=int)
                if c["k"] == "tenmat":
                    A = laid_out([R, C], c["data"], c["lay"], c["dtype"])
                    M = ttb.tenmat(A, r_, c_, tuple(s), copy=c["copy"])
                    return {"lay": _flags(A), "data": read_matrix(M.data), "double": read_matrix(M.double()),
                            "back": read_dense(M.to_tensor()), "back_nocopy": read_dense(M.to_tensor(copy=False)),
                            "copy": read_matrix(M.copy().data), "tshape": [int(v) for v in M.tshape],
                            "again": read_matrix(M.to_tensor().to_tenmat(rdims=r_, cdims=c_).data)}
                if c["k"] == "sptenmat":
                    n = len(c["subs"])
                    subs = laid_out([n, 2], [c["subs"][r][d] for d in range(2) for r in range(n)], c["lay"], "i8")
                    vals = laid_out([n, 1], c["vals"], c["vlay"], "f8")
                    M = ttb.sptenmat(subs, vals, r_, c_, tuple(s), copy=c["copy"])
                    lay = _flags(subs)
                else:
                    A = laid_out([R, C], c["data"], c["lay"], "f8")
                    M = ttb.sptenmat.from_array(A, r_, c_, tuple(s))
                    lay = _flags(A)
                ms = np.asarray(M.subs)
                return {"lay": lay, "subs": [] if ms.size == 0 else jval(ms.astype(int)),
                        "vals": [] if np.asarray(M.vals).size == 0 else jval(np.asarray(M.vals).reshape(-1)),
                        "nnz": int(M.nnz), "full": read_matrix(M.full().data), "double": read_matrix(M.double().toarray()),
                        "back": read_sparse(M.to_sptensor()), "backfull": read_dense(M.to_sptensor().full())}
            with _quiet():
                impls.append(call(f))
            if c["k"] == "tenmat":
                reqs.append({"op": "tenmat_to_tensor", "M": {"tshape": s, "rdims": rd, "cdims": cd, "data": {"shape": [R, C], "data": c["data"]}}})
            else:
                if c["k"] == "sptenmat":
                    subs, vals = c["subs"], c["vals"]
                else:  # from_array lists the non-zero cells row by row
                    subs = [[a, b] for a in range(R) for b in range(C) if c["data"][a + R * b] != 0]
                    vals = [c["data"][a + R * b] for a, b in subs]
                if c["k"] == "sptenmat" and not c["copy"]:
                    reqs.append({"op": "sptenmat_to_sptensor", "M": {"tshape": s, "rdims": rd, "cdims": cd, "subs": subs, "vals": vals}})
                else:
                    reqs.append({"op": "sptenmat_ctor", "subs": subs, "vals": vals, "rdims": rd, "cdims": cd, "tshape": s})
        models = drive(reqs)
        out = []
        for c, impl, m in zip(cases, impls, models):
            s = c["tshape"]
            rd, cd = c["rdims"], c["cdims"]
            rs, cs = [s[k] for k in rd], [s[k] for k in cd]
            R, C = gen.numel(rs), gen.numel(cs)
            tags = [c["k"], f"N{len(s)}", "copy" if c.get("copy", True) else "nocopy"]
            if "ok" not in impl:
                out.append(Verdict("violation", "wrapping a valid matrix / converting it back raised", impl, m, None, tags, True))
                continue
            r = impl["ok"]
            tags.append(f"lay:{r['lay']}")
            # the matrix and the tensor it denotes, from the logical (row, column) pairs of the case
            if c["k"] == "sptenmat":
                mat = [0] * (R * C)
                for (a, b), v in zip(c["subs"], c["vals"]):
                    mat[a + R * b] += v
            else:
                mat = list(c["data"])
            spec_m = {"shape": [R, C], "data": mat}
            ten = []
            for i in gen.all_subs(s):
                ten.append(mat[sub2ind(rs, [i[k] for k in rd]) + R * sub2ind(cs, [i[k] for k in cd])])
            spec_t = {"shape": list(s), "data": ten}
            bad = None
            if c["k"] == "tenmat":
                if not deep_eq(r["data"], spec_m) or not deep_eq(r["double"], spec_m) or not deep_eq(r["copy"], spec_m):
                    bad = "tenmat built from a user array does not hold that matrix"
                elif not deep_eq(r["back"], spec_t) or not deep_eq(r["back_nocopy"], spec_t):
                    bad = "tenmat.to_tensor: entry i is not the matrix entry at (sub2ind rows, sub2ind cols)"
                elif not deep_eq(r["back"], m):
                    bad = "tenmat.to_tensor differs from the proved model"
                elif not deep_eq(r["again"], spec_m) or r["tshape"] != list(s):
                    bad = "tenmat -> tensor -> tenmat changed the matrix"
            else:
                nz = sum(1 for v in mat if v != 0)
                want = sparse_sorted_j(_Sim.of_dense(s, ten).sparse_j())
                if not deep_eq(r["full"], spec_m) or not deep_eq(r["double"], spec_m):
                    bad = "sptenmat built from user arrays does not denote the sum of the given (row, column, value) triples"
                elif not deep_eq(sparse_sorted_j(r["back"]), want) or not deep_eq(r["backfull"], spec_t):
                    bad = "sptenmat.to_sptensor: entry i is not the matrix entry at (sub2ind rows, sub2ind cols)"
                elif r["nnz"] != nz or len(r["subs"]) != nz:
                    bad = "sptenmat reports a wrong number of nonzeros / keeps explicit zeros"
                elif c["k"] == "sptenmat" and not c["copy"]:
                    if not deep_eq(sparse_sorted_j(r["back"]), sparse_sorted_j(m)):
                        bad = "sptenmat.to_sptensor differs from the proved model"
                elif "ok" not in m or not deep_eq({"subs": r["subs"], "vals": r["vals"]}, {"subs": m["ok"]["subs"], "vals": m["ok"]["vals"]}):
                    bad = "sptenmat stored form differs from the proved model"
            out.append(Verdict("violation" if bad else "ok", bad or "", impl, m, spec_t, tags, R * C > 1))
        return out


# -- Kruskal / Tucker / sum tensors whose components have a history ---------------------------------
def _mat_lay(rows, lay):
    m, n = len(rows), len(rows[0]) if rows else 0
    return laid_out([m, n], [rows[a][b] for b in range(n) for a in range(m)], lay, "f8")


class DerivedHolders(Family):
    """Kruskal / Tucker / sum tensor -> dense when the components come from earlier operations: factor
    matrices that are C-ordered / transposed / strided views (copied or not), a Tucker core that was grown
    by assignment (dense, C-ordered buffer) or filled entry by entry (sparse), sum parts with a history"""
    name = "derived_holders"
    theorems = ("C01_kruskal_full", "C01_tucker_full", "C01_sum_full")

    def gen(self, rng, tier):
        out = []
        lays = ["F", "C", "T", "strided", "neg"]
        shapes = [[3], [2, 3], [3, 1, 2], [2, 3, 2]] + ([[2, 3, 4], [3, 2, 2, 2]] if tier == "thorough" else [])
        grown = [(lb, src) for lb, src in dense_sources(rng, "quick")
                 if lb.startswith(("grow-sub-all", "grow-sub-first", "grow-trailing-mode2", "grow-region-last", "grow-subs",
                                   "grow-then-write", "empty-fill", "attr-", "ctor-C-nocopy", "ctor-strided-copy"))]
        for s in shapes:
            for j, lay in enumerate(lays):
                for copy in (True, False):
                    R = 1 + (j + int(copy)) % 3
                    out.append({"k": "kruskal", "weights": gen.int_values(rng, R, -3, 3), "factors": [gen.matrix(rng, m, R) for m in s],
                                "lays": [lay if (n + j) % 2 == 0 else lays[(j + n) % len(lays)] for n in range(len(s))],
                                "copy": copy})
        for lb, src in grown:
            cs = ref_dense(src).shape
            if gen.numel(cs) > 40:
                continue
            for copy in (True, False):
                fl = [rng.choice(lays) for _ in cs]
                out.append({"k": "tucker", "label": lb, "core": {"dense": src},
                            "factors": [gen.matrix(rng, rng.randint(1, 3), m) for m in cs], "lays": fl, "copy": copy})
                out.append({"k": "sum", "label": lb, "copy": copy, "parts": [
                    {"dense": src},
                    {"sparse": {"base": {"shape": cs}, "steps": [{"op": "set1", "key": [x - 1 for x in cs], "val": rng.randint(31, 59)},
                                                                 {"op": "set1", "key": [0] * len(cs), "val": -rng.randint(31, 59)}]}},
                    {"dense": src}][:rng.randint(1, 3)]})
        for lb, src in sparse_sources(rng, "quick"):
            if lb.startswith(("assign-unsorted", "stored-shuffled-grow-sub", "stored-reversed-grow-newmode", "empty-fill")):
                cs = ref_sparse(src).shape
                out.append({"k": "tucker", "label": "sp-" + lb, "core": {"sparse": src},
                            "factors": [gen.matrix(rng, rng.randint(1, 3), m) for m in cs], "lays": [rng.choice(lays) for _ in cs],
                            "copy": rng.random() < 0.5})
                out.append({"k": "sum", "label": "sp-" + lb, "copy": rng.random() < 0.5, "parts": [{"sparse": src}, {"sparse": src}]})
        return out

    @staticmethod
    def _part(p):
        return build_dense(p["dense"]) if "dense" in p else build_sparse(p["sparse"])

    @staticmethod
    def _part_ref(p):
        return ref_dense(p["dense"]) if "dense" in p else ref_sparse(p["sparse"])

    def evaluate(self, cases):
        impls, reqs, specs = [], [], []
        for c in cases:
            def f(c=c):
                if c["k"] == "kruskal":
                    X = ttb.ktensor([_mat_lay(F_, lay) for F_, lay in zip(c["factors"], c["lays"])],
                                    np.array(c["weights"], dtype=float), copy=c["copy"])
                elif c["k"] == "tucker":
                    X = ttb.ttensor(self._part(c["core"]), [_mat_lay(F_, lay) for F_, lay in zip(c["factors"], c["lays"])],
                                    copy=c["copy"])
                else:
                    X = ttb.sumtensor([self._part(p) for p in c["parts"]], copy=c["copy"])
                return {"full": read_dense(X.full()), "double": read_matrix(X.double()), "to_tensor": read_dense(X.to_tensor())}
            with _quiet():
                impls.append(call(f))
            if c["k"] == "kruskal":
                shape = [len(F_) for F_ in c["factors"]]
                R = len(c["weights"])
                spec = {"shape": shape, "data": [
                    sum(c["weights"][r] * int(np.prod([c["factors"][n][i[n]][r] for n in range(len(shape))])) for r in range(R))
                    for i in gen.all_subs(shape)]}
                reqs.append({"op": "k_full", "K": {"weights": c["weights"], "factors": c["factors"]}})
            elif c["k"] == "tucker":
                core = self._part_ref(c["core"]).dense_j()
                at = dense_at(core)
                shape = [len(F_) for F_ in c["factors"]]
                spec = {"shape": shape, "data": [
                    sum(at(j) * int(np.prod([c["factors"][n][i[n]][j[n]] for n in range(len(shape))])) for j in gen.all_subs(core["shape"]))
                    for i in gen.all_subs(shape)]}
                reqs.append({"op": "c02_full", "X": {"kind": "tucker", "core": core, "factors": c["factors"]}})
            else:
                refs = [self._part_ref(p).dense_j() for p in c["parts"]]
                spec = {"shape": refs[0]["shape"], "data": [sum(v) for v in zip(*[r["data"] for r in refs])]}
                reqs.append({"op": "c02_full", "X": {"kind": "sum", "parts": [dict(r, kind="dense") for r in refs]}})
            specs.append(spec)
        models = drive(reqs)
        out = []
        for c, impl, m, spec in zip(cases, impls, models, specs):
            tags = [c["k"], c.get("label", "-"), f"N{len(spec['shape'])}", "copy" if c["copy"] else "nocopy"]
            mj = m.get("ok") if c["k"] == "kruskal" else (m.get("model") or {}).get("ok")
            if mj is not None:
                mj = {"shape": mj["shape"], "data": mj["data"]}
            if "ok" not in impl:
                out.append(Verdict("violation", "converting to dense raised", impl, m, spec, tags, True))
                continue
            r = impl["ok"]
            bad = None
            for k in ("full", "double", "to_tensor"):
                if not deep_eq(r[k], spec):
                    bad = bad or f"{c['k']} -> dense ({k}) is not the array the object denotes"
            if not bad and (mj is None or not deep_eq(r["full"], mj)):
                bad = f"{c['k']}.full differs from the proved model"
            out.append(Verdict("violation" if bad else "ok", bad or "", impl, m, spec, tags, True))
        return out


# ---------------------------------------------------------------------------------------------
# Second batch: reports, double() / to_tensor() of every class, ktensor.to_tenmat, chains of
# conversions, the tenmat constructor.  One evaluator (`_run_chain`) serves all of them: a case is
# a start holder (any of the seven classes; dense / sparse also "with a history") and a list of
# conversion calls.  After EVERY prefix of the chain three things are compared:
#   implementation  - the real object: stored form, what it reports, double()
#   model           - driver op c01_chain (Lean runChain: stored form, reports, Holder.double)
#   specification   - the array the START holder denotes, computed here from the defining formulas
#                     (sum formula for Kruskal / Tucker / sum, placement rule for the matricized
#                     classes, never through pyttb), the expected mode split from the documented
#                     conventions (`wrap_ref`), the matrix shape (prod r, prod c), the non-zero count.
# ---------------------------------------------------------------------------------------------
_HAS = {  # the conversion methods each class has, and the class they yield
    "dense": {"full": "dense", "to_sptensor": "sparse", "to_tenmat": "tenmat"},
    "sparse": {"full": "dense", "to_tensor": "dense", "to_sptenmat": "sptenmat"},
    "kruskal": {"full": "dense", "to_tensor": "dense", "to_tenmat": "tenmat"},
    "tucker": {"full": "dense", "to_tensor": "dense"},
    "sum": {"full": "dense", "to_tensor": "dense"},
    "tenmat": {"to_tensor": "dense"},
    "sptenmat": {"full": "tenmat", "to_sptensor": "sparse"},
}
_METHODS = ("full", "to_tensor", "to_sptensor", "to_tenmat", "to_sptenmat")


def wrap_ref(n, rd, cd, cyc):
    """(rdims, cdims) the documented conventions prescribe for the arguments, or None when the split is
    not a partition of the modes (the call has to be refused)"""
    if rd is None and cd is None:
        return None
    for l in (rd, cd):
        if l is not None and any(k < 0 or k >= n for k in l):
            return None
    if rd is not None and cd is None:
        if len(rd) == 1 and cyc:
            k = rd[0]
            if cyc == "t":
                r, c = [m for m in range(n) if m != k], [k]
            elif cyc == "fc":
                r, c = [k], list(range(k + 1, n)) + list(range(k))
            else:
                r, c = [k], list(range(k - 1, -1, -1)) + list(range(n - 1, k, -1))
        else:
            r, c = list(rd), [m for m in range(n) if m not in rd]
    elif rd is None:
        r, c = [m for m in range(n) if m not in cd], list(cd)
    else:
        r, c = list(rd), list(cd)
    if sorted(r + c) != list(range(n)):
        return None
    return r, c


def _kruskal_ref(w, fs):
    shape = [len(f) for f in fs]
    R = len(w)
    return {"shape": shape, "data": [
        sum(w[r] * int(np.prod([fs[n][i[n]][r] for n in range(len(shape))])) for r in range(R))
        for i in gen.all_subs(shape)]}


def _tucker_ref(core, fs):
    at = dense_at(core)
    shape = [len(f) for f in fs]
    return {"shape": shape, "data": [
        sum(at(j) * int(np.prod([fs[n][i[n]][j[n]] for n in range(len(shape))])) for j in gen.all_subs(core["shape"]))
        for i in gen.all_subs(shape)]}


def _unmatricize(tshape, rd, cd, mat):
    """tensor whose (rd, cd) matricization is the matrix `mat` (placement rule of the property)"""
    rs, cs = [tshape[k] for k in rd], [tshape[k] for k in cd]
    R = gen.numel(rs)
    if mat["shape"] != [R, gen.numel(cs)]:
        raise ValueError(f"matrix shape {mat['shape']} is not (prod r, prod c) = {[R, gen.numel(cs)]}")
    return {"shape": list(tshape), "data": [
        mat["data"][sub2ind(rs, [i[k] for k in rd]) + R * sub2ind(cs, [i[k] for k in cd])] for i in gen.all_subs(tshape)]}


def _triples_matrix(shape2, subs, vals):
    mat = [0] * (shape2[0] * shape2[1])
    for (a, b), v in zip(subs, vals):
        if not (0 <= a < shape2[0] and 0 <= b < shape2[1]):
            raise ValueError("stored pair outside the matrix")
        mat[a + shape2[0] * b] += v
    return {"shape": list(shape2), "data": mat}


def holder_ref(h):
    """the array a start holder (JSON) denotes, from the defining formulas"""
    k = h["kind"]
    if k == "dense":
        return {"shape": list(h["shape"]), "data": list(h["data"])}
    if k == "sparse":
        return sp_to_dense_j(h)
    if k == "kruskal":
        return _kruskal_ref(h["weights"], h["factors"])
    if k == "tucker":
        return _tucker_ref(h["core"], h["factors"])
    if k == "sum":
        refs = [holder_ref(p) for p in h["parts"]]
        return {"shape": refs[0]["shape"], "data": [sum(v) for v in zip(*[r["data"] for r in refs])]}
    rs = [h["tshape"][m] for m in h["rdims"]]
    cs = [h["tshape"][m] for m in h["cdims"]]
    if k == "tenmat":
        return _unmatricize(h["tshape"], h["rdims"], h["cdims"], h["data"])
    return _unmatricize(h["tshape"], h["rdims"], h["cdims"],
                        _triples_matrix([gen.numel(rs), gen.numel(cs)], h["subs"], h["vals"]))


def holder_build(h):
    """the real object for a start holder (JSON)"""
    k = h["kind"]
    if k == "dense":
        return gen.mk_tensor(ttb, h["shape"], h["data"])
    if k == "sparse":
        return gen.mk_sptensor(ttb, h["shape"], h["subs"], h["vals"])
    if k == "kruskal":
        return gen.mk_ktensor(ttb, h["weights"], h["factors"])
    if k == "tucker":
        return ttb.ttensor(gen.mk_tensor(ttb, h["core"]["shape"], h["core"]["data"]),
                           [np.array(f, dtype=float).reshape(len(f), h["core"]["shape"][n]) for n, f in enumerate(h["factors"])])
    if k == "sum":
        return ttb.sumtensor([holder_build(p) for p in h["parts"]])
    r_, c_ = np.array(h["rdims"], dtype=int), np.array(h["cdims"], dtype=int)
    if k == "tenmat":
        d = h["data"]
        return ttb.tenmat(np.array(d["data"], dtype=float).reshape(tuple(d["shape"]), order="F"), r_, c_, tuple(h["tshape"]))
    n = len(h["subs"])
    subs = np.array(h["subs"], dtype=int).reshape(n, 2) if n else None
    vals = np.array(h["vals"], dtype=float).reshape(-1, 1) if n else None
    return ttb.sptenmat(subs, vals, r_, c_, tuple(h["tshape"]), copy=h.get("copy", True))


def _kind_of(X):
    for k, cls in (("dense", ttb.tensor), ("sparse", ttb.sptensor), ("kruskal", ttb.ktensor), ("tucker", ttb.ttensor),
                   ("sum", ttb.sumtensor), ("tenmat", ttb.tenmat), ("sptenmat", ttb.sptenmat)):
        if isinstance(X, cls):
            return k
    raise TypeError(type(X))


def state_j(X, start_j=None):
    """canonical form of a real object: stored form, what it reports, double()"""
    k = _kind_of(X)
    if k == "dense":
        h = dict(dense_j(X), kind="dense")
        rep = {"shape": [int(v) for v in X.shape], "nnz": int(X.nnz)}
        dbl = ndarray_j(X.double())
    elif k == "sparse":
        h = dict(sparse_j(X), kind="sparse")
        rep = {"shape": [int(v) for v in X.shape], "nnz": int(X.nnz)}
        dbl = ndarray_j(X.double())
    elif k in ("kruskal", "tucker", "sum"):
        h = start_j  # only ever a start holder: its components are the case's
        rep = {"shape": [int(v) for v in X.shape]}
        dbl = ndarray_j(X.double())
    elif k == "tenmat":
        h = {"kind": "tenmat", "tshape": [int(v) for v in X.tshape], "rdims": jval(X.rindices), "cdims": jval(X.cindices),
             "data": ndarray_j(X.data)}
        rep = {"tshape": h["tshape"], "rdims": h["rdims"], "cdims": h["cdims"], "shape": [int(v) for v in X.shape],
               "ndims": int(X.ndims)}
        dbl = ndarray_j(X.double())
    else:
        subs, vals = np.asarray(X.subs), np.asarray(X.vals)
        h = {"kind": "sptenmat", "tshape": [int(v) for v in X.tshape], "rdims": jval(X.rdims), "cdims": jval(X.cdims),
             "subs": [] if subs.size == 0 else jval(subs.astype(int)), "vals": [] if vals.size == 0 else jval(vals.reshape(-1))}
        rep = {"tshape": h["tshape"], "rdims": h["rdims"], "cdims": h["cdims"], "shape": [int(v) for v in X.shape],
               "nnz": int(X.nnz)}
        dbl = ndarray_j(X.double().toarray())
    return {"h": h, "rep": rep, "double": {"ok": dbl}}


def _apply(X, st):
    m = st["c"]
    if m in ("to_tenmat", "to_sptenmat"):
        return getattr(X, m)(**_kw(st))
    return getattr(X, m)()


def check_state(st, ref, split):
    """specification side: does the state (canonical form of a real object) show the array `ref`, and is
    what it reports consistent with it?  `split` = the (rdims, cdims) a matricized object must report."""
    h, rep, dbl = st["h"], st["rep"], st["double"].get("ok")
    k = h["kind"]
    nz = sum(1 for v in ref["data"] if v != 0)
    if k in ("tenmat", "sptenmat"):
        if rep["tshape"] != ref["shape"]:
            return f"{k} reports tshape {rep['tshape']} for a tensor of shape {ref['shape']}"
        if split is not None and [rep["rdims"], rep["cdims"]] != [list(split[0]), list(split[1])]:
            return f"{k} reports the split {rep['rdims']} | {rep['cdims']}, the conventions prescribe {split[0]} | {split[1]}"
        rd, cd = rep["rdims"], rep["cdims"]
        if sorted(rd + cd) != list(range(len(ref["shape"]))):
            return f"{k} reports a split that is not a partition of the modes"
        want = [gen.numel([ref["shape"][m] for m in rd]), gen.numel([ref["shape"][m] for m in cd])]
        if rep["shape"] != want:
            return f"{k} reports the matrix shape {rep['shape']}, its split prescribes {want}"
        mref = matricize_ref(ref, rd, cd)
        if k == "tenmat":
            if rep["ndims"] != 2:
                return "tenmat.ndims is not 2"
            if not deep_eq(h["data"], mref):
                return "the tenmat does not hold the matricization of the array (placement rule)"
        else:
            try:
                mat = _triples_matrix(want, h["subs"], [frac_(v) for v in h["vals"]])
            except ValueError as e:
                return f"sptenmat: {e}"
            if not deep_eq(jval(mat), mref):
                return "the sptenmat does not denote the matricization of the array (placement rule)"
            if rep["nnz"] != nz or len(h["subs"]) != nz:
                return f"sptenmat reports nnz={rep['nnz']} / stores {len(h['subs'])} triples for {nz} non-zero cells"
        if dbl is None or not deep_eq(dbl, mref):
            return f"{k}.double() is not the matricization of the array"
        return None
    if rep["shape"] != ref["shape"]:
        return f"{k} reports shape {rep['shape']} for a tensor of shape {ref['shape']}"
    if k == "dense":
        if not deep_eq({"shape": h["shape"], "data": h["data"]}, ref):
            return "the dense tensor does not hold the array"
        if rep["nnz"] != nz:
            return f"tensor.nnz={rep['nnz']} for {nz} non-zero cells"
    elif k == "sparse":
        if len(set(map(tuple, h["subs"]))) != len(h["subs"]) or any(v == 0 for v in h["vals"]):
            return "the sparse tensor is not well-formed (repeated subscript or explicit zero)"
        if not deep_eq(sp_to_dense_j(h), ref):
            return "the sparse tensor does not denote the array"
        if rep["nnz"] != nz:
            return f"sptensor.nnz={rep['nnz']} for {nz} non-zero cells"
    if dbl is None or not deep_eq(dbl, ref):
        return f"{k}.double() is not the array"
    return None


def frac_(v):
    from harness.lib import frac
    return frac(v)


def _run_chain(cases, fam_tags):
    """cases: {"H": start holder JSON (kind dense / sparse may carry "src": a recipe), "steps": [...]}"""
    prepared = []
    for c in cases:
        H = c["H"]
        info = {"H": H, "err": None}
        try:
            with _quiet():
                if "src" in H:  # operand with a history: built by the recipe, reference book-kept from the recipe
                    if H["kind"] == "dense":
                        X = build_dense(H["src"])
                        ref = ref_dense(H["src"]).dense_j()
                        Hm = dict(read_dense(X), kind="dense")
                        if not deep_eq({"shape": Hm["shape"], "data": Hm["data"]}, ref):
                            raise ValueError("operand does not hold the array its history prescribes")
                    else:
                        X = build_sparse(H["src"])
                        ref = ref_sparse(H["src"]).dense_j()
                        Hm = dict(sparse_j(X), kind="sparse")
                        if not deep_eq(sp_to_dense_j(read_sparse(X)), ref):
                            raise ValueError("operand does not denote the array its history prescribes")
                else:
                    X = holder_build(H)
                    ref = holder_ref(H)
                    Hm = {k: v for k, v in H.items() if k != "copy"}
            info.update(X=X, ref=ref, Hm=Hm)
        except Exception as e:  # noqa: BLE001  (a shrunk case may be meaningless)
            info["err"] = f"{type(e).__name__}: {e}"
        prepared.append(info)
    reqs = [{"op": "c01_chain", "H": p["Hm"], "steps": c["steps"]} for c, p in zip(cases, prepared) if p["err"] is None]
    models = iter(drive(reqs))
    out = []
    for c, p in zip(cases, prepared):
        tags = list(fam_tags(c))
        if p["err"] is not None:
            out.append(Verdict("ok", "", {"skipped": p["err"]}, None, None, tags + ["skipped"], False))
            continue
        m = next(models)
        X, ref, Hm = p["X"], p["ref"], p["Hm"]
        kind = Hm["kind"]
        n = len(ref["shape"])
        split = (Hm["rdims"], Hm["cdims"]) if kind in ("tenmat", "sptenmat") else None
        trace = []
        bad = None
        want_ok = True
        with _quiet():
            states = [call(state_j, X, Hm)]
            for st in c["steps"]:
                if "ok" not in states[-1]:
                    break
                r = call(_apply, X, st)
                if "ok" in r:
                    X = r["ok"]
                    states.append(call(state_j, X, None))
                else:
                    states.append(r)
        # walk the prefixes
        for k, stj in enumerate(states):
            mk = m["trace"][k]
            if k > 0:
                st = c["steps"][k - 1]
                tgt = _HAS[kind].get(st["c"])
                if tgt is None:
                    want_ok = False
                elif st["c"] in ("to_tenmat", "to_sptenmat"):
                    split = wrap_ref(n, st.get("rdims"), st.get("cdims"), st.get("cyc"))
                    want_ok = split is not None
                elif tgt != "tenmat":
                    split = None
                if want_ok:
                    kind = tgt
            if not want_ok:
                if "ok" in stj:
                    bad = f"step {k} ({c['steps'][k - 1]['c']}) must be refused (no such method / not a partition of the modes) but was accepted"
                elif "ok" in mk:
                    bad = f"step {k}: refused by the implementation and the specification, accepted by the model"
                break
            if "ok" not in stj:
                bad = f"step {k} ({'start' if k == 0 else c['steps'][k - 1]['c']}) raised on a well-formed operand: {stj.get('exc')} {stj.get('msg')}"
                break
            sj = stj["ok"]
            why = check_state(sj, ref, split)
            if why:
                bad = f"after {k} step(s): {why}"
                break
            if "ok" not in mk:
                bad = f"step {k}: accepted by the implementation, refused by the model"
                break
            mm = mk["ok"]
            if not deep_eq(sj["h"], mm["h"]):
                bad = f"after {k} step(s): stored form differs from the proved model"
            elif not deep_eq(sj["rep"], mm["rep"]):
                bad = f"after {k} step(s): reported properties differ from the proved model"
            elif not deep_eq(sj["double"], mm["double"]):
                bad = f"after {k} step(s): double() differs from the proved model"
            if bad:
                break
            trace.append(sj["h"]["kind"])
        if bad is None and want_ok != bool(m["valid"]) and len(states) == len(c["steps"]) + 1:
            bad = "the model's well-typedness of the chain differs from the specification's"
        nt = want_ok and gen.numel(ref["shape"]) > 1 and any(v != 0 for v in ref["data"])
        tags += [f"N{n}", "accepted" if want_ok else "refused"] + sorted({f"step:{a[:5]}>{b[:5]}" for a, b in zip(trace, trace[1:])})
        out.append(Verdict("violation" if bad else "ok", bad or "", {"states": [strip_exc(s) if "ok" not in s else s for s in states]},
                           m, {"ref": ref}, tags, nt))
    return out


def _shrink_chain(case):
    st = case["steps"]
    for k in range(len(st) - 1, -1, -1):
        yield {**case, "steps": st[:k] + st[k + 1:]}
    for k in range(len(st) - 1, 0, -1):
        yield {**case, "steps": st[:k]}


def _rand_split(rng, N, valid=True):
    """arguments of a to_tenmat / to_sptenmat call"""
    if not valid:
        return rng.choice([{"rdims": [0], "cdims": [0]}, {"rdims": [N]}, {}, {"rdims": [0], "cdims": list(range(N))},
                           {"cdims": [N + 1]}, {"rdims": [N], "cyc": "fc"}])
    z = rng.random()
    if z < 0.5:
        p = gen.perm(rng, N)
        k = rng.randint(0, N)
        return {"rdims": p[:k], "cdims": p[k:]}
    if z < 0.8:
        return {"rdims": [rng.randrange(N)], "cyc": rng.choice(["fc", "bc", "t"])}
    p = gen.perm(rng, N)
    k = rng.randint(0, N)
    return {"rdims": p[:k]} if rng.random() < 0.5 else {"cdims": p[:k]}


def _shape_pool(rng, tier):
    """distinct, repeated and singleton extents, orders 1..4"""
    fixed = [[3], [1], [2, 3], [3, 3], [1, 4], [2, 3, 4], [3, 1, 2], [2, 2, 3], [1, 1, 2]]
    fixed += [[2, 3, 1, 2], [3, 2, 4, 2]] if tier == "thorough" else [[2, 1, 2, 3]]
    return fixed + [gen.shape(rng, 1, 4, 4, distinct=rng.random() < 0.5) for _ in range(4 if tier == "quick" else 30)]


def rand_holder(rng, kind, s):
    """a start holder of the given class for shape s (values of both signs and zeros, every stored order)"""
    N = len(s)
    if kind == "dense":
        return {"kind": "dense", "shape": s, "data": gen.dense_data(rng, s, rng.choice([0.0, 0.3, 0.7, 1.0]))}
    if kind == "sparse":
        subs, vals = gen.sparse_entries(rng, s)
        return {"kind": "sparse", "shape": s, "subs": subs, "vals": vals}
    if kind == "kruskal":
        R = rng.randint(1, 3)
        return {"kind": "kruskal", "weights": gen.int_values(rng, R, -3, 3), "factors": [gen.matrix(rng, m, R) for m in s]}
    if kind == "tucker":
        cs = [rng.randint(1, 2) for _ in s]
        return {"kind": "tucker", "core": {"shape": cs, "data": gen.dense_data(rng, cs)},
                "factors": [gen.matrix(rng, m, cm) for m, cm in zip(s, cs)]}
    if kind == "sum":
        kinds = [rng.choice(["dense", "sparse", "kruskal", "tucker"]) for _ in range(rng.randint(1, 3))]
        return {"kind": "sum", "parts": [rand_holder(rng, k, s) for k in kinds]}
    p = gen.perm(rng, N)
    k = rng.randint(0, N)
    r, c_ = p[:k], p[k:]
    R, C = gen.numel([s[m] for m in r]), gen.numel([s[m] for m in c_])
    if kind == "tenmat":
        return {"kind": "tenmat", "tshape": s, "rdims": r, "cdims": c_, "data": {"shape": [R, C], "data": gen.dense_data(rng, [R, C])}}
    subs, vals = gen.sparse_entries(rng, [R, C])
    if rng.random() < 0.5:  # the copying constructor sorts, the non-copying one keeps the order given
        return {"kind": "sptenmat", "tshape": s, "rdims": r, "cdims": c_, "subs": subs, "vals": vals, "copy": False}
    pairs = sorted(zip(map(tuple, subs), vals))
    return {"kind": "sptenmat", "tshape": s, "rdims": r, "cdims": c_, "subs": [list(a) for a, _ in pairs], "vals": [v for _, v in pairs]}


class Reports(Family):
    """what the converted objects report: tshape / rindices / cindices / matrix shape / shape / ndims / nnz,
    for every ordered partition of the modes (N <= 3 quick / N <= 4 thorough), every convention, malformed
    splits; sparsity classes empty / one / some / all in sorted / reversed / shuffled stored order"""
    name = "reports"
    theorems = ("C01_tenmat_reports", "C01_tenmat_accepts", "C01_sptenmat_reports", "C01_sptenmat_accepts",
                "C01_toSptensor_reports", "C01_wrap_conventions")

    def gen(self, rng, tier):
        out = []
        lim = 3 if tier == "quick" else 4
        shapes = [[3], [2, 3], [3, 3], [2, 3, 4], [3, 1, 2], [2, 2, 3]] + ([[2, 3, 1, 2], [3, 2, 4, 2]] if tier == "thorough" else [[2, 1, 3, 2]])
        shapes += [gen.shape(rng, 1, 4, 4, distinct=True) for _ in range(2 if tier == "quick" else 12)]
        for s in shapes:
            N = len(s)
            parts = ordered_partitions(N)
            if N > lim or (tier == "quick" and len(parts) > 32):
                parts = rng.sample(parts, 24)
            splits = [{"rdims": r, "cdims": c_} for r, c_ in parts]
            for k in range(N):
                splits += [{"rdims": [k], "cyc": cyc} for cyc in ("fc", "bc", "t")] + [{"rdims": [k]}, {"cdims": [k]}]
            splits += [{"rdims": [0], "cdims": [0]}, {"rdims": [N]}, {}, {"cdims": [N]}, {"rdims": [N], "cyc": "bc"}]
            D = {"kind": "dense", "shape": s, "data": _distinct_data(rng, s)}
            for sp in splits:
                out.append({"H": D, "steps": [dict(sp, c="to_tenmat")]})
            for klass in ("empty", "one", "some", "all"):
                subs, vals = gen.sparse_entries(rng, s, klass)
                S = {"kind": "sparse", "shape": s, "subs": subs, "vals": vals}
                sps = splits if (klass == "some" or tier == "thorough") else rng.sample(splits, min(len(splits), 10))
                for sp in sps:
                    out.append({"H": S, "steps": [dict(sp, c="to_sptenmat")]})
                out.append({"H": S, "steps": [{"c": "full"}, {"c": "to_sptensor"}]})
            for zs in (0.0, 0.5, 1.0):
                out.append({"H": {"kind": "dense", "shape": s, "data": gen.dense_data(rng, s, zs)},
                            "steps": [{"c": "to_sptensor"}, {"c": "full"}]})
        return out

    def evaluate(self, cases):
        return _run_chain(cases, lambda c: [c["H"]["kind"], c["steps"][0]["c"], c["steps"][0].get("cyc") or "split"])

    def shrink(self, case):
        return _shrink_chain(case)


class DoubleAll(Family):
    """X.double() / X.to_tensor() / X.full() of every class (tensor, sptensor, ktensor, ttensor, sumtensor, tenmat,
    sptenmat): the array of full() (the matrix for the matricized classes)"""
    name = "double_all"
    theorems = ("C01_double_tensor", "C01_double_sptensor", "C01_double_ktensor", "C01_double_ttensor",
                "C01_double_sumtensor", "C01_double_tenmat", "C01_double_sptenmat", "C01_double_holder",
                "C01_tenmat_toTensor", "C01_sptenmat_toSptensor", "C01_sptenmat_full_any")

    def gen(self, rng, tier):
        out = []
        for s in _shape_pool(rng, tier):
            for kind in _HAS:
                for _ in range(1 if tier == "quick" else 3):
                    H = rand_holder(rng, kind, s)
                    for m in _HAS[kind]:
                        if m in ("to_tenmat", "to_sptenmat"):
                            continue
                        out.append({"H": H, "steps": [{"c": m}]})
        # sparsity classes x stored orders for the two scatter implementations
        for s in ([3], [2, 3], [3, 1, 2], [2, 2, 2]):
            for klass in ("empty", "one", "some", "all"):
                for order in ("sorted", "reversed", "shuffled"):
                    subs, vals = gen.sparse_entries(rng, s, klass, order)
                    out.append({"H": {"kind": "sparse", "shape": s, "subs": subs, "vals": vals}, "steps": [{"c": "to_tensor"}]})
                    p = gen.perm(rng, len(s))
                    k = rng.randint(0, len(s))
                    R, C = gen.numel([s[m] for m in p[:k]]), gen.numel([s[m] for m in p[k:]])
                    subs, vals = gen.sparse_entries(rng, [R, C], klass, order)
                    out.append({"H": {"kind": "sptenmat", "tshape": s, "rdims": p[:k], "cdims": p[k:], "subs": subs, "vals": vals,
                                      "copy": False}, "steps": [{"c": "full"}]})
        return out

    def evaluate(self, cases):
        return _run_chain(cases, lambda c: [c["H"]["kind"], c["steps"][0]["c"]])

    def shrink(self, case):
        return _shrink_chain(case)


class Chains(Family):
    """random chains of 2..6 conversions between the seven classes, starting from any class - also from dense /
    sparse operands with a history (grown, filled from empty, views, unsorted element assignment ...); mostly
    well-typed chains, some with a missing method or a malformed mode split somewhere"""
    name = "chains"
    theorems = ("C01_chain", "C01_chain_accepts", "C01_chain_accepts_iff", "C01_step_rejects", "C01_split_valid_iff",
                "C01_chain_double", "C01_double_holder", "C01_chain_rejects_missing_method")

    @staticmethod
    def _steps(rng, kind, N, length, p_bad):
        steps = []
        for _ in range(length):
            if rng.random() < p_bad:
                if rng.random() < 0.5:
                    m = rng.choice([x for x in _METHODS if x not in _HAS[kind]])
                    st = dict(_rand_split(rng, N), c=m) if m in ("to_tenmat", "to_sptenmat") else {"c": m}
                else:
                    ms = [x for x in _HAS[kind] if x in ("to_tenmat", "to_sptenmat")]
                    if not ms:
                        continue
                    st = dict(_rand_split(rng, N, valid=False), c=ms[0])
                steps.append(st)
                break
            m = rng.choice(sorted(_HAS[kind]))
            st = dict(_rand_split(rng, N), c=m) if m in ("to_tenmat", "to_sptenmat") else {"c": m}
            steps.append(st)
            kind = _HAS[kind][m]
        return steps

    def gen(self, rng, tier):
        out = []
        n = 300 if tier == "quick" else 4000
        for _ in range(n):
            s = gen.shape(rng, 1, 4, 4 if rng.random() < 0.8 else 3, distinct=rng.random() < 0.5)
            kind = rng.choice(sorted(_HAS))
            H = rand_holder(rng, kind, s)
            out.append({"H": H, "steps": self._steps(rng, kind, len(s), rng.randint(2, 6), 0.04)})
        hist = [("dense", lb, src) for lb, src in dense_sources(rng, "quick")] + \
               [("sparse", lb, src) for lb, src in sparse_sources(rng, "quick")]
        if tier == "thorough":
            hist += [("dense", "random-history", random_dense_source(rng)) for _ in range(60)]
        picks = hist if tier == "thorough" else rng.sample(hist, min(len(hist), 60))
        for kind, lb, src in picks:
            try:
                N = len((ref_dense(src) if kind == "dense" else ref_sparse(src)).shape)
            except Exception:  # noqa: BLE001
                continue
            if N == 0:
                continue
            out.append({"H": {"kind": kind, "src": src, "label": lb}, "steps": self._steps(rng, kind, N, rng.randint(2, 6), 0.0)})
        return out

    def evaluate(self, cases):
        return _run_chain(cases, lambda c: [c["H"]["kind"], f"len{len(c['steps'])}", "history" if "src" in c["H"] else "direct"])

    def shrink(self, case):
        return _shrink_chain(case)


class KtensorTenmat(Family):
    """ktensor.to_tenmat(rdims, cdims, cdims_cyclic): every ordered partition of the modes for N <= 3 (quick) /
    N <= 4 (thorough), every convention, malformed splits; compared with the model (= K.full().to_tenmat),
    with the Khatri-Rao form (khatrirao(A[r], reverse) * lambda) @ khatrirao(A[c], reverse).T computed by the
    model, and with the sum formula placed by the placement rule"""
    name = "ktensor_tenmat"
    theorems = ("C01_kruskal_tenmat_entry", "C01_kruskal_tenmat_conventions", "C01_kruskal_tenmat_khatrirao",
                "C01_kruskal_tenmat_khatrirao_matrix")

    def gen(self, rng, tier):
        out = []
        lim = 3 if tier == "quick" else 4
        shapes = [[3], [2, 3], [3, 3], [2, 3, 4], [3, 1, 2], [2, 2, 3]] + ([[2, 3, 1, 2], [3, 2, 4, 2]] if tier == "thorough" else [[2, 1, 3, 2]])
        shapes += [gen.shape(rng, 1, 4, 4, distinct=True) for _ in range(2 if tier == "quick" else 12)]
        for s in shapes:
            N = len(s)
            for R in ((1, 3) if tier == "quick" else (1, 2, 3)):
                K = {"weights": gen.int_values(rng, R, -3, 3), "factors": [gen.matrix(rng, m, R) for m in s]}
                parts = ordered_partitions(N)
                if N > lim or (tier == "quick" and len(parts) > 32):
                    parts = rng.sample(parts, 24)
                for r, c_ in parts:
                    out.append({"K": K, "rdims": r, "cdims": c_, "cyc": None})
                for k in range(N):
                    for cyc in ("fc", "bc", "t", None):
                        out.append({"K": K, "rdims": [k], "cdims": None, "cyc": cyc})
                    out.append({"K": K, "rdims": None, "cdims": [k], "cyc": None})
                for bad in ({"rdims": [0], "cdims": [0]}, {"rdims": [N], "cdims": None}, {"rdims": None, "cdims": None},
                            {"rdims": [N], "cdims": None, "cyc": "fc"}):
                    out.append({"K": K, "rdims": bad.get("rdims"), "cdims": bad.get("cdims"), "cyc": bad.get("cyc")})
        return out

    def evaluate(self, cases):
        impls, reqs = [], []
        for c in cases:
            K = gen.mk_ktensor(ttb, c["K"]["weights"], c["K"]["factors"])
            impls.append(call(lambda K=K, c=c: state_j(K.to_tenmat(**_kw(c)))))
            reqs.append({"op": "c01_k_tenmat", "K": c["K"], "rdims": c["rdims"], "cdims": c["cdims"], "cyc": c["cyc"]})
        models = drive(reqs)
        out = []
        for c, impl, m in zip(cases, impls, models):
            ref = _kruskal_ref(c["K"]["weights"], c["K"]["factors"])
            N = len(ref["shape"])
            split = wrap_ref(N, c["rdims"], c["cdims"], c["cyc"])
            tags = [f"N{N}", f"R{len(c['K']['weights'])}", c["cyc"] or ("both" if c["rdims"] is not None and c["cdims"] is not None else "one")]
            bad = None
            if split is None:
                if "ok" in impl:
                    bad = "a split that is not a partition of the modes was accepted"
                elif "ok" in m["model"]:
                    bad = "refused by the implementation and the specification, accepted by the model"
                out.append(Verdict("violation" if bad else "ok", bad or "", strip_exc(impl), m, None, tags + ["refused"], False))
                continue
            if "ok" not in impl:
                bad = f"ktensor.to_tenmat raised on a valid split: {impl.get('exc')} {impl.get('msg')}"
            else:
                sj = impl["ok"]
                bad = check_state(sj, ref, split)
                if not bad:
                    if "ok" not in m["model"]:
                        bad = "accepted by the implementation, refused by the model"
                    elif not deep_eq(sj, m["model"]["ok"]):
                        bad = "ktensor.to_tenmat differs from the proved model"
                    elif "ok" not in m["via_full"] or not deep_eq({k: v for k, v in sj["h"].items() if k != "kind"}, m["via_full"]["ok"]):
                        bad = "ktensor.to_tenmat differs from full().to_tenmat of the model"
                    elif split[0] and split[1] and ("ok" not in m["kr"] or not deep_eq(sj["h"]["data"], m["kr"]["ok"])):
                        bad = "ktensor.to_tenmat differs from the Khatri-Rao form of the matricization"
            out.append(Verdict("violation" if bad else "ok", bad or "", impl, m, {"ref": ref, "split": split}, tags, gen.numel(ref["shape"]) > 1))
        return out


class TenmatCtor(Family):
    """the tenmat constructor tenmat(data, rdims, cdims, tshape): what the object reports must be consistent - tshape,
    the split (a partition of the modes), and a matrix of shape (prod tshape[rdims], prod tshape[cdims]); matrices of
    another shape with the same number of cells (transposed extents, a row, a column, another factorisation) MUST be
    refused, vectors MUST be reshaped to the prescribed shape; 3-way arrays, empty arrays, missing arguments, modes
    out of range"""
    name = "tenmat_ctor"
    theorems = ("C01_tenmat_ctor_reports", "C01_tenmat_ctor_wf", "C01_tenmat_ctor_rejects_shape",
                "C01_tenmat_ctor_pinned_counterexample", "C01_tenmat_toTensor", "C01_double_tenmat")

    def gen(self, rng, tier):
        out = []
        shapes = [[3], [2, 3], [3, 3], [3, 1, 2], [2, 3, 2]] + ([[2, 3, 4], [2, 1, 2, 3]] if tier == "thorough" else [])
        shapes += [gen.shape(rng, 1, 4, 4) for _ in range(3 if tier == "quick" else 20)]
        for s in shapes:
            N = len(s)
            n = gen.numel(s)
            parts = ordered_partitions(N)
            if len(parts) > (8 if tier == "quick" else 30):
                parts = rng.sample(parts, 8 if tier == "quick" else 30)
            for r, c_ in parts:
                R, C = gen.numel([s[m] for m in r]), gen.numel([s[m] for m in c_])
                dshapes = {(R, C), (C, R), (1, n), (n, 1)} | {(a, n // a) for a in range(1, n + 1) if n % a == 0 and rng.random() < 0.4}
                for ds in sorted(dshapes):
                    data = _distinct_data(rng, list(ds))
                    out.append({"dshape": list(ds), "data": data, "rdims": r, "cdims": c_, "tshape": s})
                out.append({"dshape": [n], "data": _distinct_data(rng, [n]), "rdims": r, "cdims": c_, "tshape": s})
                out.append({"dshape": [R, C], "data": _distinct_data(rng, [R, C]), "rdims": r, "cdims": None, "tshape": s})
                out.append({"dshape": [R, C], "data": _distinct_data(rng, [R, C]), "rdims": None, "cdims": c_, "tshape": s})
            # defaults and malformed arguments
            a, b = s[0], n // s[0]
            d2 = _distinct_data(rng, [a, b])
            out.append({"dshape": [a, b], "data": d2, "rdims": [0], "cdims": None, "tshape": None})
            out.append({"dshape": [a, b], "data": d2, "rdims": None, "cdims": None, "tshape": s})
            out.append({"dshape": [a, b], "data": d2, "rdims": [N], "cdims": None, "tshape": s})
            out.append({"dshape": [a, b], "data": d2, "rdims": [0], "cdims": [0], "tshape": s})
            out.append({"dshape": [a, b], "data": d2, "rdims": [0], "cdims": None, "tshape": s + [2]})
            out.append({"dshape": [n], "data": _distinct_data(rng, [n]), "rdims": [0], "cdims": None, "tshape": None})
            out.append({"dshape": [a, b, 1], "data": d2, "rdims": [0], "cdims": None, "tshape": s})
            out.append({"dshape": [0, 3], "data": [], "rdims": [0], "cdims": [1], "tshape": [0, 3]})
            out.append({"dshape": [0], "data": [], "rdims": None, "cdims": None, "tshape": None})
        return out

    def evaluate(self, cases):
        impls, reqs = [], []
        for c in cases:
            def f(c=c):
                A = np.array(c["data"], dtype=float).reshape(tuple(c["dshape"]), order="F")
                kw = _kw(c)
                if c["tshape"] is not None:
                    kw["tshape"] = tuple(c["tshape"])
                M = ttb.tenmat(A, **kw)
                return {"state": state_j(M), "back": read_dense(M.to_tensor()) if M.data.size else None}
            with _quiet():
                impls.append(call(f))
            reqs.append({"op": "c01_tenmat_ctor", "data": {"shape": c["dshape"], "data": c["data"]}, "rdims": c["rdims"],
                         "cdims": c["cdims"], "tshape": c["tshape"]})
        models = drive(reqs)
        out = []
        for c, impl, m in zip(cases, impls, models):
            ds = c["dshape"]
            n = gen.numel(ds)
            tags = [f"d{len(ds)}", "tshape" if c["tshape"] is not None else "default"]
            # specification: the tensor shape, the split, and the matrix - a matrix argument must have the shape
            # (prod tshape[r], prod tshape[c]) the split prescribes, a vector argument is reshaped to it (first index fastest)
            spec_ok, why = True, ""
            mshape = None if len(ds) == 1 else list(ds)
            ts = c["tshape"] if c["tshape"] is not None else mshape
            split = None
            if n == 0:
                spec_ok = c["rdims"] in (None, []) and c["cdims"] in (None, []) and c["tshape"] in (None, [])
                why = "empty"
            elif len(ds) not in (1, 2) or (len(ds) == 1 and c["tshape"] is None):
                spec_ok, why = False, "not a matrix"
            elif gen.numel(ts) != n:
                spec_ok, why = False, "cell count"
            else:
                split = wrap_ref(len(ts), c["rdims"], c["cdims"], None)
                if split is None:
                    spec_ok, why = False, "split"
                else:
                    want = [gen.numel([ts[k] for k in split[0]]), gen.numel([ts[k] for k in split[1]])]
                    if mshape is None:
                        mshape = want  # 1-d data takes the prescribed shape
                    elif mshape != want:
                        spec_ok, why = False, f"matrix shape {mshape} contradicts the split, which prescribes {want}"
            tags.append(("consistent" if len(ds) != 1 else "vector-reshaped") if spec_ok else
                        ("inconsistent-shape" if why.startswith("matrix shape") else "malformed"))
            io, mo = "ok" in impl, "ok" in m
            bad = None
            if io != mo:
                bad = "acceptance by the tenmat constructor differs from the model"
            elif io and not deep_eq(impl["ok"]["state"], m["ok"]):
                bad = "the constructed tenmat differs from the model (stored form / reports / double)"
            elif io and not spec_ok:
                bad = f"the tenmat constructor accepts what it has to refuse: {why}"
            elif spec_ok and not io:
                bad = f"the tenmat constructor raised on consistent arguments: {impl.get('exc')} {impl.get('msg')}"
            elif io and n > 0:
                sj = impl["ok"]["state"]
                ref = _unmatricize(ts, split[0], split[1], {"shape": mshape, "data": c["data"]})
                bad = check_state(sj, ref, split)
                if not bad and not deep_eq(impl["ok"]["back"], ref):
                    bad = "tenmat.to_tensor: entry i is not the matrix entry at (sub2ind rows, sub2ind cols)"
            out.append(Verdict("violation" if bad else "ok", bad or "", strip_exc(impl) if not io else impl, m,
                               {"accept": spec_ok, "why": why}, tags, spec_ok and n > 1))
        return out


def families():
    return [DenseSparse(), TenmatFam(), SptenmatFam(), SptenmatCtor(), KruskalFull(),
            DerivedDense(), DerivedSparse(), DirectMatrices(), DerivedHolders(),
            Reports(), DoubleAll(), Chains(), KtensorTenmat(), TenmatCtor()]


# ---------------------------------------------------------------------------------------------
# Third batch (added after the mutation run, mutants M1458 / M1971): conversions that involve scipy.sparse.
#   spmatrix   sptensor.spmatrix(): a 2-way sptensor -> scipy.sparse.coo_matrix.  The matrix must denote the same array
#              (reference: the dense matrix the operand's history denotes; model: the proved sparse -> dense model `sp_full`
#              applied to the stored form), report the shape and the number of non-zero entries, hold exactly the non-zero
#              entries as triples, and leave the tensor as it was.  Operands: no / one / some / all entries non-zero in
#              sorted / reversed / shuffled stored order, value dtypes, singleton modes, 1x1, and operands with a history
#              (every entry deleted again, filled from empty in unsorted order, grown, transposed, from an all-zero or
#              grown dense tensor).  Sparse tensors that are not 2-way (order 0, 1, 3, also 3-way with singleton modes)
#              have no matrix: the call must be refused.  spmatrix has no Lean model of its own (the result is a scipy
#              object); its denotation is compared with the model of sptensor.full.
#   tucker_sf  a Tucker tensor whose factor matrices are scipy.sparse coo matrices (the constructor accepts them; all /
#              one / some of the modes, empty coo matrices, dense and sparse core, copy and no copy) -> dense through
#              full / double / to_tensor against the sum formula and the proved model (`c02_full`); and - because this
#              is the one family that builds such holders - what the holder answers to reconstruct (everything, index
#              vectors with repeats, scalars, mixing matrices), ttm (+ transpose) followed by full, isequal with its
#              own copy / the same tensor with numpy factors / a tensor that differs in one entry of a sparse factor.
#              (ttm / reconstruct belong to C02, they are asserted here against plain numpy only.)
# Appended as a wrapper around families() so that nothing above had to be edited.
# ---------------------------------------------------------------------------------------------
import scipy.sparse as _sps  # noqa: E402


def _spm_sources(rng, tier):
    out = []

    def add(label, b, steps):
        out.append((label, {"base": b, "steps": steps}))

    def nv():
        return rng.randint(31, 59)

    def stored(s, klass, order):
        subs, vals = gen.sparse_entries(rng, s, klass, order)
        return {"shape": list(s), "subs": subs, "vals": vals}

    quick = tier == "quick"
    shapes = [[1, 1], [1, 4], [4, 1], [2, 3], [3, 2], [3, 3], [2, 2]]
    shapes += [[rng.randint(1, 5), rng.randint(1, 5)] for _ in range(4 if quick else 40)]
    for s in shapes:
        cells = gen.all_subs(s)
        for klass in ("empty", "one", "some", "all"):
            orders = ["-"] if klass in ("empty", "one") else (["sorted", "reversed", "shuffled"] if not quick or len(cells) <= 6
                                                              else [rng.choice(["sorted", "reversed", "shuffled"])])
            for o in orders:
                b = stored(s, klass, None if o == "-" else o)
                b.update(lay=rng.choice(["C", "F", "strided"]), vlay=rng.choice(["C", "strided"]),
                         dtype=rng.choice(["f8", "f8", "i8", "f4"]), copy=rng.random() < 0.7)
                add(f"stored-{klass}-{o}", b, [])
        # operands with a history
        one = stored(s, "one", None)
        add("emptied-one", one, [{"op": "set1", "key": one["subs"][0], "val": 0}])
        if len(cells) >= 2:
            some = stored(s, "some", "shuffled")
            while len(some["subs"]) < 2:
                some = stored(s, "all", "shuffled")
            add("emptied-all", some, [{"op": "set1", "key": k, "val": 0} for k in some["subs"]])
            add("overwrite-delete", some, [{"op": "set1", "key": some["subs"][0], "val": nv()},
                                           {"op": "set1", "key": some["subs"][-1], "val": 0}])
            order = list(cells)
            rng.shuffle(order)
            k = max(2, len(order) // 2)
            add("assign-unsorted", {"shape": list(s)}, [{"op": "set1", "key": key, "val": (-1) ** j * nv()}
                                                        for j, key in enumerate(order[:k])])
            add("assign-subs-array", {"shape": list(s)}, [{"op": "subs", "subs": order[:k],
                                                           "vals": [(-1) ** j * nv() for j in range(k)]}])
            add("grown", some, [{"op": "set1", "key": list(s), "val": nv()}])
            add("grown-first", some, [{"op": "set1", "key": [s[0] + 1, 0], "val": -nv()}])
            add("transposed", some, [{"op": "permute", "order": [1, 0]}])
            add("transposed-empty", {"shape": list(s)}, [{"op": "permute", "order": [1, 0]}])
        zs = {"base": {"shape": list(s), "data": [0] * len(cells), "lay": "F", "dtype": "f8", "copy": True}, "steps": []}
        add("from-dense-zero", {"dense": zs}, [])
        ds = {"base": {"shape": list(s), "data": _distinct_data(rng, s, 0.5), "lay": rng.choice(["F", "C"]), "dtype": "f8",
                       "copy": True}, "steps": []}
        add("from-dense", {"dense": ds}, [])
        add("from-grown-dense", {"dense": {"base": ds["base"], "steps": [{"op": "set1", "key": list(s), "val": nv()}]}}, [])
    add("empty-fill", None, [{"op": "set1", "key": [1, 2], "val": nv()}, {"op": "set1", "key": [0, 1], "val": -nv()},
                             {"op": "set1", "key": [2, 0], "val": nv()}])
    add("empty-fill-subs", None, [{"op": "subs", "subs": [[1, 0], [0, 2]], "vals": [nv(), -nv()]}])
    # not 2-way: no matrix
    add("order0", None, [])
    for s in ([3], [1], [2, 3, 1], [1, 2, 3], [2, 2, 2], [1, 1, 1], [2, 1, 1, 2]):
        for klass in ("empty", "one", "some"):
            add(f"notmatrix-N{len(s)}-{klass}", stored(s, klass, None), [])
    return out


def _tucker_sf_cases(rng, tier):
    out = []
    quick = tier == "quick"
    cshapes = [[2], [2, 3], [3, 1, 2], [2, 2, 2]] + ([] if quick else [[3, 2], [2, 3, 2], [1, 2, 2, 2]])
    cshapes += [gen.shape(rng, 1, 3, 3) for _ in range(3 if quick else 25)]
    for cs in cshapes:
        N = len(cs)
        for rep_ in range(2 if quick else 4):
            data = gen.dense_data(rng, cs, rng.choice([0.0, 0.3, 0.6]))
            if rep_ == 1 and rng.random() < 0.3:
                data = [0] * len(data)
            facs = [gen.matrix(rng, rng.randint(1, 4), m, -3, 3, 0.5) for m in cs]
            if rng.random() < 0.25:
                k = rng.randrange(N)
                facs[k] = [[0] * cs[k] for _ in facs[k]]          # a coo matrix without entries
            pat = rng.choice(["all", "all", "one", "some"])
            if pat == "all":
                sf = [True] * N
            elif pat == "one":
                j = rng.randrange(N)
                sf = [k == j for k in range(N)]
            else:
                sf = [rng.random() < 0.5 for _ in range(N)]
                sf[rng.randrange(N)] = True
            base = {"k": "tucker_sf", "core": {"shape": list(cs), "data": data}, "core_rep": rng.choice(["dense", "sparse"]),
                    "factors": facs, "sf": sf, "pat": pat}
            shape = [len(f) for f in facs]
            for copy in (True, False):
                out.append(dict(base, op="dense", copy=copy))
            # reconstruct: everything / per-mode samples of every kind
            out.append(dict(base, op="reconstruct", copy=True, modes=None, samples=None))
            for _ in range(2 if quick else 4):
                modes = rng.sample(range(N), rng.randint(1, N))
                samples = []
                for k in modes:
                    kind = rng.choice(["idx", "idx", "scalar", "mix"])
                    if k == modes[0] and sf[k] and rng.random() < 0.5:
                        kind = rng.choice(["idx", "mix"])
                    if kind == "scalar":
                        samples.append({"scalar": rng.randrange(shape[k])})
                    elif kind == "idx":
                        samples.append({"idx": [rng.randrange(shape[k]) for _ in range(rng.randint(1, 4))]})
                    else:
                        samples.append({"mix": gen.matrix(rng, rng.randint(1, 3), shape[k], -2, 2, 0.3)})
                out.append(dict(base, op="reconstruct", copy=rng.random() < 0.7, modes=modes, samples=samples))
            # ttm in one mode / several modes, also transposed
            for _ in range(2 if quick else 4):
                modes = sorted(rng.sample(range(N), rng.randint(1, N)))
                tr = rng.random() < 0.4
                mats = [gen.matrix(rng, rng.randint(1, 3), shape[k], -2, 2, 0.3) for k in modes]
                out.append(dict(base, op="ttm", copy=rng.random() < 0.7, modes=modes, mats=mats, transpose=tr))
            for other in ("copy", "numpy-factors", "one-entry-differs"):
                out.append(dict(base, op="isequal", copy=True, other=other))
    return out


def _tucker_sf_build(c, factors=None, sf=None):
    cj = c["core"]
    core = gen.mk_tensor(ttb, cj["shape"], cj["data"])
    if c["core_rep"] == "sparse":
        core = core.to_sptensor()
    factors = c["factors"] if factors is None else factors
    sf = c["sf"] if sf is None else sf
    facs = []
    for k, (F_, on) in enumerate(zip(factors, sf)):
        A = np.asfortranarray(np.array(F_, dtype=float).reshape(len(F_), cj["shape"][k]))
        facs.append(_sps.coo_matrix(A) if on else A)
    return ttb.ttensor(core, facs, copy=c.get("copy", True))


def _tucker_sf_ref(c):
    """the array the Tucker tensor denotes (sum formula, exact integers) as an object ndarray"""
    cj = c["core"]
    A = np.array(cj["data"], dtype=object).reshape(tuple(cj["shape"]), order="F")
    for k, F_ in enumerate(c["factors"]):
        U = np.array(F_, dtype=object).reshape(len(F_), cj["shape"][k])
        A = np.moveaxis(np.tensordot(U, A, axes=(1, k)), 0, k)
    return A


def _obj_j(A):
    A = np.asarray(A, dtype=object)
    return {"shape": [int(v) for v in A.shape], "data": jval([A[tuple(i)] for i in gen.all_subs(list(A.shape))])}


class ScipySparse(Family):
    """conversions that involve scipy.sparse: sptensor.spmatrix, and Tucker tensors with scipy.sparse factor matrices"""
    name = "scipy_sparse"
    theorems = ("C01_sp_full_at", "C01_tucker_full", "C01_double_sptensor", "C01_double_ttensor")

    def gen(self, rng, tier):
        out = [{"k": "spmatrix", "label": lb, "src": src} for lb, src in _spm_sources(rng, tier)]
        out += _tucker_sf_cases(rng, tier)
        return out

    def shrink(self, case):
        if case["k"] == "spmatrix":
            st = case["src"]["steps"]
            for k in range(len(st) - 1, -1, -1):
                yield {**case, "src": {"base": case["src"]["base"], "steps": st[:k] + st[k + 1:]}}
        elif any(case["sf"]) and sum(case["sf"]) > 1:
            for k, on in enumerate(case["sf"]):
                if on:
                    yield {**case, "sf": [o and j != k for j, o in enumerate(case["sf"])]}

    # -- spmatrix -----------------------------------------------------------------------------
    @staticmethod
    def _spm_impl(c):
        with _quiet():
            built = call(build_sparse, c["src"])
            if "ok" not in built:
                return {"operand": built}
            S = built["ok"]
            info = {"operand": call(read_sparse, S), "stored": call(sparse_j, S), "ndims": int(S.ndims)}

            def conv(S=S):
                M = S.spmatrix()
                A = M.toarray()
                M2 = M.tocoo()
                tri = {"shape": [int(v) for v in M.shape],
                       "subs": [[int(a), int(b)] for a, b in zip(M2.row, M2.col)], "vals": jval(np.asarray(M2.data).reshape(-1))}
                return {"sparse": bool(_sps.issparse(M)), "format": getattr(M, "format", None), "shape": [int(v) for v in M.shape],
                        "nnz": int(M.nnz), "array": read_matrix(A), "triples": tri, "after": read_sparse(S)}
            info["res"] = call(conv)
        return info

    def _spm_verdict(self, c, sim, impl, m):
        tags = ["spmatrix", c.get("label", "?")]
        if sim is None:
            return Verdict("ok", "recipe without a meaning", None, None, None, tags + ["void-recipe"], False)
        want = sparse_sorted_j(sim.sparse_j())
        x = sim.dense_j()
        N = len(x["shape"])
        tags += [f"N{N}", f"nnz{min(len(want['subs']), 3)}"]
        if "res" not in impl or "ok" not in impl["operand"] or not deep_eq(sparse_sorted_j(impl["operand"]["ok"]), want):
            return Verdict("ok", "the operand itself is not what its history says (not a conversion)", impl, m, want,
                           tags + ["operand-mismatch"], False)
        res = impl["res"]
        if N != 2:
            if "ok" in res:
                return Verdict("violation", f"spmatrix of a {N}-way sptensor returned a matrix", impl, m, want, tags + ["not-2-way"], False)
            return Verdict("ok", "", strip_exc(res), m, want, tags + ["not-2-way", "refused"], False)
        nt = gen.numel(x["shape"]) > 1
        if "ok" not in res:
            return Verdict("violation", f"sptensor.spmatrix raised on a 2-way sptensor with {len(want['subs'])} non-zero entries: "
                                        f"{res.get('exc')} {res.get('msg')}", impl, m, want, tags, nt)
        r = res["ok"]
        bad = None
        if not r["sparse"] or r["format"] != "coo":
            bad = "sptensor.spmatrix did not return a scipy.sparse COO matrix"
        elif r["shape"] != x["shape"] or r["array"]["shape"] != x["shape"]:
            bad = "the scipy matrix reports another shape than the tensor"
        elif not deep_eq(r["array"], x):
            bad = "sparse tensor -> scipy.sparse matrix does not denote the same array"
        elif m is None or not deep_eq(r["array"], m):
            bad = "the scipy matrix differs from the proved model of sparse -> dense"
        elif r["nnz"] != len(want["subs"]):
            bad = "the scipy matrix reports another number of non-zeros than the array has"
        elif not deep_eq(sparse_sorted_j(r["triples"]), want):
            bad = "the triples of the scipy matrix are not the non-zero entries"
        elif not deep_eq(sparse_sorted_j(r["after"]), want):
            bad = "spmatrix changed the tensor"
        return Verdict("violation" if bad else "ok", bad or "", impl, m, want, tags, nt)

    # -- Tucker tensors with scipy.sparse factor matrices ---------------------------------------
    @staticmethod
    def _tk_impl(c):
        def f():
            X = _tucker_sf_build(c)
            types = [type(F_).__name__ for F_ in X.factor_matrices]
            op = c["op"]
            if op == "dense":
                return {"types": types, "shape": [int(v) for v in X.shape], "full": read_dense(X.full()),
                        "double": read_matrix(X.double()), "to_tensor": read_dense(X.to_tensor())}
            if op == "reconstruct":
                if c["modes"] is None:
                    return {"types": types, "out": read_dense(X.reconstruct())}
                samples = []
                for sm in c["samples"]:
                    if "scalar" in sm:
                        samples.append(int(sm["scalar"]))
                    elif "idx" in sm:
                        samples.append(np.array(sm["idx"], dtype=int))
                    else:
                        samples.append(np.array(sm["mix"], dtype=float).reshape(len(sm["mix"]), -1))
                if len(samples) == 1 and "scalar" not in c["samples"][0]:
                    return {"types": types, "out": read_dense(X.reconstruct(samples[0], c["modes"][0]))}
                return {"types": types, "out": read_dense(X.reconstruct(samples, list(c["modes"])))}
            if op == "ttm":
                mats = [np.array(M, dtype=float).reshape(len(M), -1) for M in c["mats"]]
                if c["transpose"]:
                    mats = [np.asfortranarray(M.T) for M in mats]
                if len(mats) == 1:
                    Y = X.ttm(mats[0], int(c["modes"][0]), transpose=c["transpose"])
                else:
                    Y = X.ttm(mats, np.array(c["modes"], dtype=int), transpose=c["transpose"])
                return {"types": types, "out": read_dense(Y.full())}
            # isequal
            if c["other"] == "copy":
                Y, want = X.copy(), True
            elif c["other"] == "numpy-factors":
                Y, want = _tucker_sf_build(c, sf=[False] * len(c["sf"])), True
            else:
                k = c["sf"].index(True)
                F2 = [[list(r_) for r_ in F_] for F_ in c["factors"]]
                F2[k][-1][-1] += 1
                Y, want = _tucker_sf_build(c, factors=F2), False
            return {"types": types, "eq": bool(X.isequal(Y)), "eq_rev": bool(Y.isequal(X)), "want": want}
        with _quiet():
            return call(f)

    @staticmethod
    def _tk_spec(c):
        A = _tucker_sf_ref(c)
        op = c["op"]
        if op == "reconstruct" and c["modes"] is not None:
            for k, sm in zip(c["modes"], c["samples"]):
                if "scalar" in sm:
                    A = np.take(A, [sm["scalar"]], axis=k)
                elif "idx" in sm:
                    A = np.take(A, sm["idx"], axis=k)
                else:
                    A = np.moveaxis(np.tensordot(np.array(sm["mix"], dtype=object), A, axes=(1, k)), 0, k)
        elif op == "ttm":
            for k, M in zip(c["modes"], c["mats"]):
                A = np.moveaxis(np.tensordot(np.array(M, dtype=object), A, axes=(1, k)), 0, k)
        return _obj_j(A)

    def _tk_verdict(self, c, impl, m):
        op = c["op"]
        tags = ["tucker_sf", "op=" + op, f"N{len(c['sf'])}", "factors-sparse-" + c["pat"], "core-" + c["core_rep"],
                "copy" if c.get("copy", True) else "nocopy"]
        if op == "reconstruct":
            tags.append("samples=" + ("all" if c["modes"] is None else "+".join(sorted({next(iter(s_)) for s_ in c["samples"]}))))
        if op == "isequal":
            tags.append(c["other"])
        spec = self._tk_spec(c) if op != "isequal" else None
        what = {"dense": "Tucker tensor with scipy.sparse factor matrices -> dense",
                "reconstruct": "ttensor.reconstruct with scipy.sparse factor matrices",
                "ttm": "ttensor.ttm with scipy.sparse factor matrices", "isequal": "ttensor.isequal with scipy.sparse factor matrices"}[op]
        if "ok" not in impl:
            return Verdict("violation", f"{what} raised: {impl.get('exc')} {impl.get('msg')}", impl, m, spec, tags, True)
        r = impl["ok"]
        want_types = ["coo_matrix" if on else "ndarray" for on in c["sf"]]
        bad = None
        if r["types"] != want_types:
            return Verdict("ok", "the constructor did not keep the factor matrices as handed over (not a conversion)", impl, m, spec,
                           tags + ["operand-mismatch"], False)
        if op == "dense":
            mj = (m.get("model") or {}).get("ok") if m else None
            for k in ("full", "double", "to_tensor"):
                if not deep_eq(r[k], spec):
                    bad = bad or f"{what} ({k}) is not the array the object denotes"
            if not bad and r["shape"] != spec["shape"]:
                bad = f"{what}: the holder reports another shape"
            if not bad and (mj is None or not deep_eq(r["full"], {"shape": mj["shape"], "data": mj["data"]})):
                bad = "ttensor.full differs from the proved model"
        elif op in ("reconstruct", "ttm"):
            if not deep_eq(r["out"], spec):
                bad = f"{what} is not the " + ("sampled array" if op == "reconstruct" else "mode product of the array") + " the object denotes"
        else:
            if r["eq"] != r["want"] or r["eq_rev"] != r["want"]:
                bad = f"{what}: answers {r['eq']} / {r['eq_rev']} for {c['other']}, the arrays are {'equal' if r['want'] else 'different'}"
        return Verdict("violation" if bad else "ok", bad or "", impl, m, spec, tags, True)

    def evaluate(self, cases):
        sims, impls, reqs = [], [], []
        for c in cases:
            if c["k"] == "spmatrix":
                try:
                    sim = ref_sparse(c["src"])
                except Exception:  # noqa: BLE001
                    sim = None
                sims.append(sim)
                impl = self._spm_impl(c) if sim is not None else None
                impls.append(impl)
                ok = impl is not None and "stored" in impl and "ok" in impl["stored"] and impl.get("ndims") == 2
                reqs.append({"op": "sp_full", "S": impl["stored"]["ok"]} if ok else None)
            else:
                sims.append(None)
                impls.append(self._tk_impl(c))
                reqs.append({"op": "c02_full", "X": {"kind": "tucker", "core": c["core"], "factors": c["factors"]}}
                            if c["op"] == "dense" else None)
        replies = iter(drive([r for r in reqs if r is not None]))
        models = [next(replies) if r is not None else None for r in reqs]
        out = []
        for c, sim, impl, m in zip(cases, sims, impls, models):
            out.append(self._spm_verdict(c, sim, impl, m) if c["k"] == "spmatrix" else self._tk_verdict(c, impl, m))
        return out


_families_before_scipy_sparse = families


def families():  # noqa: F811
    return _families_before_scipy_sparse() + [ScipySparse()]


RULE = RULE + ("; third batch (scipy_sparse): sptensor.spmatrix on 2-way sptensors of every sparsity class x stored order x value "
               "dtype incl. 1x1 / singleton modes and operands with a history (emptied again, filled from empty, grown, transposed, "
               "from an all-zero / grown dense tensor), sptensors of order 0 / 1 / 3 / 4 (must be refused); Tucker tensors with "
               "scipy.sparse coo factor matrices (all / one / some modes, empty coo matrices, dense / sparse core, copy / no copy) "
               "through full / double / to_tensor, reconstruct (all, index vectors, scalars, mixing matrices), ttm (+ transpose), "
               "isequal")


# ---------------------------------------------------------------------------------------------
# Fourth batch (added after the second mutation run, mutant M1537): what the composite holders REPORT.
#   holder_reports  Kruskal, Tucker and sum tensors - sums with exactly ONE, two and three parts, every part class in
#              every position - on shapes of order 1..4 with singleton modes: ndims must be the order of the array the
#              object denotes (= len(shape)), shape its shape, a sum must keep its parts (count, classes, each part's own
#              shape / ndims), and full() / to_tensor() / double() must give the sum of the parts' arrays (reference:
#              defining formulas; model: `c01_chain`, theorem C01_double_sumtensor / C01_double_holder).  The earlier
#              families built one-part sums too but asked the composite classes for `shape` only.
#              A sum is also accepted as DATA by an algorithm that asks for ndims / shape / norm / mttkrp: one sweep of
#              cp_als (property C09) on the sum from a fixed start must be accepted and give the factors of the same
#              sweep on the dense array the sum denotes (cp_als belongs to C09; asserted here against the dense run).
# Appended as a wrapper around families() so that nothing above had to be edited.
# ---------------------------------------------------------------------------------------------
class HolderReports(Family):
    """ndims / shape / parts / full / to_tensor / double of Kruskal, Tucker and sum tensors (sums of 1, 2, 3 parts)"""
    name = "holder_reports"
    theorems = ("C01_double_ktensor", "C01_double_ttensor", "C01_double_sumtensor", "C01_double_holder")
    PART_KINDS = ("dense", "sparse", "kruskal", "tucker")

    def gen(self, rng, tier):
        out = []
        shapes = [[1], [3], [1, 1], [2, 3], [1, 4], [3, 1], [2, 3, 4], [3, 1, 2], [1, 1, 2], [2, 1, 3, 2]]
        shapes += [gen.shape(rng, 1, 4, 4, distinct=rng.random() < 0.5) for _ in range(3 if tier == "quick" else 40)]
        for s in shapes:
            for kind in ("kruskal", "tucker"):
                out.append({"k": "reports", "H": rand_holder(rng, kind, s), "copy": True})
            # sums: ONE part of every class; two / three parts
            for pk in self.PART_KINDS:
                out.append({"k": "reports", "H": {"kind": "sum", "parts": [rand_holder(rng, pk, s)]}, "copy": rng.random() < 0.7})
            for P in (2, 3):
                for _ in range(1 if tier == "quick" else 3):
                    kinds = [rng.choice(self.PART_KINDS) for _ in range(P)]
                    out.append({"k": "reports", "H": {"kind": "sum", "parts": [rand_holder(rng, k_, s) for k_ in kinds]},
                                "copy": rng.random() < 0.7})
        # a sum as the data of one cp_als sweep
        cshapes = [[2, 3], [3, 1], [2, 3, 2], [1, 3, 2]] + ([] if tier == "quick" else [[3, 2, 2, 2], [4, 3], [2, 2, 3]])
        for s in cshapes:
            for P in (1, 1, 2, 3):
                for R in (1,):  # rank one: every system of the sweep is a scalar (a rank-2 sweep on rank-1 data is singular)
                    kinds = [rng.choice(self.PART_KINDS) for _ in range(P)]
                    init = self._well_conditioned_start(rng, s, R)
                    out.append({"k": "cp_als", "H": {"kind": "sum", "parts": [rand_holder(rng, k_, s) for k_ in kinds]},
                                "R": len(init[0][0]), "init": init})
        return out

    @staticmethod
    def _well_conditioned_start(rng, s, R):
        """positive integer start factors whose Gram products (the systems one ALS sweep solves) are far from
        singular, so that the sweep on the sum and on the dense array agree to rounding"""
        for _ in range(200):
            init = [gen.matrix(rng, m, R, 1, 3, 0.0) for m in s]
            grams = [np.array(F_, dtype=float).reshape(len(F_), R) for F_ in init]
            grams = [G.T @ G for G in grams]
            ok = True
            for n in range(len(s)):
                V = np.ones((R, R))
                for k_, G in enumerate(grams):
                    if k_ != n:
                        V = V * G
                ok = ok and np.linalg.cond(V) < 1e3
            if ok:
                return init
        return [[[1] * R for _ in range(m)] for m in s] if R == 1 else [gen.matrix(rng, m, 1, 1, 3, 0.0) for m in s]

    def shrink(self, case):
        parts = case["H"].get("parts") or []
        if len(parts) > 1:
            for k in range(len(parts)):
                yield {**case, "H": {"kind": "sum", "parts": parts[:k] + parts[k + 1:]}}

    @staticmethod
    def _build(c):
        H = c["H"]
        if H["kind"] == "sum":
            return ttb.sumtensor([holder_build(p) for p in H["parts"]], copy=c.get("copy", True))
        return holder_build(H)

    def _impl(self, c):
        def f():
            X = self._build(c)
            if c["k"] == "cp_als":
                init = ttb.ktensor([np.array(F_, dtype=float).reshape(len(F_), c["R"]) for F_ in c["init"]])
                D = ttb.tensor(np.array(holder_ref(c["H"])["data"], dtype=float).reshape(tuple(holder_ref(c["H"])["shape"]), order="F"))
                try:
                    Md, _, _ = ttb.cp_als(D, c["R"], init=init.copy(), maxiters=1, printitn=0)
                except Exception as e:  # noqa: BLE001  (a singular start: no sweep to compare with)
                    return {"skipped": f"{type(e).__name__}: {e}"}
                M, _, _ = ttb.cp_als(X, c["R"], init=init.copy(), maxiters=1, printitn=0)
                return {"shape": [int(v) for v in M.shape], "R": int(M.ncomponents),
                        "full": np.asarray(M.full().data, dtype=float), "full_dense_run": np.asarray(Md.full().data, dtype=float)}
            r = {"ndims": call(lambda: int(X.ndims)), "shape": call(lambda: [int(v) for v in X.shape])}
            for m_ in ("full", "to_tensor"):
                if hasattr(X, m_):
                    r[m_] = call(lambda m_=m_: read_dense(getattr(X, m_)()))
            r["double"] = call(lambda: ndarray_j(X.double()))
            if c["H"]["kind"] == "sum":
                r["parts"] = call(lambda: [{"kind": _kind_of(p), "shape": [int(v) for v in p.shape], "ndims": int(p.ndims)}
                                           for p in X.parts])
            return r
        with _quiet():
            return call(f)

    def evaluate(self, cases):
        impls = [self._impl(c) for c in cases]
        idx = [k for k, c in enumerate(cases) if c["k"] == "reports"]
        replies = drive([{"op": "c01_chain", "H": cases[k]["H"], "steps": [{"c": "full"}]} for k in idx])
        models = dict(zip(idx, replies))
        out = []
        for k, (c, impl) in enumerate(zip(cases, impls)):
            H = c["H"]
            ref = holder_ref(H)
            N = len(ref["shape"])
            nparts = len(H["parts"]) if H["kind"] == "sum" else 0
            tags = [c["k"], H["kind"], f"N{N}", "singleton-mode" if 1 in ref["shape"] else "no-singleton"]
            if H["kind"] == "sum":
                tags += [f"parts{nparts}", "parts:" + "+".join(sorted({p["kind"] for p in H["parts"]})),
                         "copy" if c.get("copy", True) else "nocopy"]
            nt = gen.numel(ref["shape"]) > 1 and any(v != 0 for v in ref["data"])
            what = f"{H['kind']} tensor" + (f" with {nparts} part(s)" if nparts else "")
            if "ok" not in impl:
                out.append(Verdict("violation", f"{c['k']} on a {what} raised: {impl.get('exc')} {impl.get('msg')}", impl, None, ref,
                                   tags, nt))
                continue
            r = impl["ok"]
            bad = None
            if c["k"] == "cp_als" and "skipped" in r:
                out.append(Verdict("ok", "", r, None, ref, tags + ["skipped"], False))
                continue
            if c["k"] == "cp_als":
                A, B = r.pop("full"), r.pop("full_dense_run")
                if r["shape"] != ref["shape"] or r["R"] != c["R"]:
                    bad = f"cp_als on a {what} returned a model of another shape / rank"
                elif not np.all(np.isfinite(B)):
                    out.append(Verdict("ok", "", r, None, ref, tags + ["skipped"], False))   # the dense sweep itself broke down
                    continue
                elif A.shape != B.shape or not np.allclose(A, B, rtol=1e-6, atol=1e-6 * max(1.0, float(np.max(np.abs(B))))):
                    bad = f"one cp_als sweep on a {what} differs from the same sweep on the dense array it denotes"
                out.append(Verdict("violation" if bad else "ok", bad or "", r, None, ref, tags, nt))
                continue
            m = models[k]
            md = m["trace"][1]["ok"]["double"]["ok"] if m.get("valid") and all("ok" in t for t in m["trace"]) else None
            for key in ("ndims", "shape", "full", "to_tensor", "double", "parts"):
                if key in r and "ok" not in r[key]:
                    bad = f"{key} of a {what} raised: {r[key].get('exc')} {r[key].get('msg')}"
                    break
            if bad is None:
                if r["ndims"]["ok"] != N:
                    bad = f"a {what} of shape {ref['shape']} reports ndims {r['ndims']['ok']}"
                elif r["shape"]["ok"] != ref["shape"]:
                    bad = f"a {what} reports shape {r['shape']['ok']}, its array has shape {ref['shape']}"
                elif "parts" in r and r["parts"]["ok"] != [{"kind": p["kind"], "shape": ref["shape"], "ndims": N} for p in H["parts"]]:
                    bad = f"a {what} does not hold the parts it was built from"
                else:
                    for key in ("full", "to_tensor", "double"):
                        if key in r and not deep_eq(r[key]["ok"], ref):
                            bad = f"{key}() of a {what} is not the array the object denotes"
                            break
                if bad is None and (md is None or not deep_eq(r["double"]["ok"], md)):
                    out.append(Verdict("corr", f"double() of a {what} differs from the proved model", r, m, ref, tags, nt))
                    continue
            out.append(Verdict("violation" if bad else "ok", bad or "", r, m, ref, tags, nt))
        return out


_families_before_holder_reports = families


def families():  # noqa: F811
    return _families_before_holder_reports() + [HolderReports()]


RULE = RULE + ("; fourth batch (holder_reports): ndims / shape / parts / full / to_tensor / double of Kruskal, Tucker and sum tensors, "
               "sums with exactly one part of every class and with two / three parts, orders 1..4 with singleton modes, copy / no copy; "
               "one cp_als sweep on such sums against the sweep on the dense array")
