"""C17 — index arithmetic, row-set helpers, Khatri-Rao: correspondence families."""
from __future__ import annotations

import itertools

import numpy as np
import pyttb as ttb
from pyttb import pyttb_utils as U

from harness import gen
from harness.lib import Family, Verdict, call, deep_eq, drive, jval, strip_exc

RULE = ("cases are drawn from random.Random(VERIF_SEED): shapes of order 1..4 (5 in thorough) with extents 1..4, "
        "index vectors with negative, boundary and out-of-range entries, every (N, M, dims|exclude_dims) "
        "combination for N<=3 (4 in thorough) valid and invalid, integer row matrices with repeated rows / "
        "empty operands, matrix tuples with equal and unequal column counts; a case is non-trivial when it "
        "is accepted by the implementation and has a non-empty answer; distinct = distinct case hash")
ASSUMPTIONS = ["np.ravel_multi_index / np.unravel_index / np.unique / np.argsort / np.setdiff1d behave as the "
               "model primitives of the same name (exercised by this very correspondence)"]
ANCHORS = [('pyttb/pyttb_utils.py', 'tt_sub2ind'), ('pyttb/pyttb_utils.py', 'tt_ind2sub'), ('pyttb/pyttb_utils.py', 'tt_dimscheck'), ('pyttb/pyttb_utils.py', 'tt_ismember_rows'), ('pyttb/pyttb_utils.py', 'tt_intersect_rows'), ('pyttb/pyttb_utils.py', 'tt_setdiff_rows'), ('pyttb/pyttb_utils.py', 'tt_union_rows'), ('pyttb/khatrirao.py', 'khatrirao')]
EXHAUSTIVE = {"quick": False, "thorough": False}


def cmp(case, impl, model, spec=None, tags=(), nontrivial=True):
    impl_c = strip_exc(impl)
    if spec is not None and not deep_eq(impl_c, spec):
        return Verdict("violation", "implementation differs from the specification", impl, model, spec, tags, nontrivial)
    if not deep_eq(impl_c, model):
        return Verdict("violation", "implementation differs from the (proved) model", impl, model, spec, tags, nontrivial)
    return Verdict("ok", "", impl, model, spec, tags, nontrivial)


class Sub2Ind(Family):
    name = "sub2ind_ind2sub"
    theorems = ("C17_ind2sub_sub2ind", "C17_sub2ind_ind2sub", "C17_sub2ind_lt", "C17_sub2ind_enum",
                "C17_sub2ind_stride", "C17_tt_roundtrip")

    def gen(self, rng, tier):
        n = 120 if tier == "quick" else 1500
        out = []
        for _ in range(n):
            s = gen.shape(rng, 1, 5 if tier == "thorough" else 4, 4)
            cells = gen.numel(s)
            kind = rng.choice(["sub2ind", "ind2sub", "ind2sub", "allsubs", "roundtrip"])
            if kind == "sub2ind":
                k = rng.randint(0, 5)
                subs = [[rng.randrange(x) for x in s] for _ in range(k)]
                if subs and rng.random() < 0.15:
                    j = rng.randrange(len(s))
                    subs[rng.randrange(k)][j] = s[j] + rng.randint(0, 1)  # out of range
                out.append({"k": "sub2ind", "shape": s, "subs": subs})
            elif kind == "ind2sub":
                k = rng.randint(0, 6)
                lo, hi = (-cells, cells - 1)
                idx = [rng.randint(lo, hi) for _ in range(k)]
                if idx and rng.random() < 0.15:
                    idx[rng.randrange(k)] = rng.choice([cells, cells + 1, -cells - 1])
                out.append({"k": "ind2sub", "shape": s, "idx": idx})
            elif kind == "allsubs":
                out.append({"k": "allsubs", "shape": s})
            else:
                out.append({"k": "roundtrip", "shape": s})
        return out

    def evaluate(self, cases):
        reqs, impls = [], []
        for c in cases:
            s = tuple(c["shape"])
            if c["k"] == "sub2ind":
                subs = np.array(c["subs"], dtype=int).reshape(len(c["subs"]), len(s))
                impls.append(call(lambda: jval(U.tt_sub2ind(s, subs.copy()))))
                reqs.append({"op": "sub2ind", "shape": c["shape"], "subs": c["subs"]})
            elif c["k"] == "ind2sub":
                idx = np.array(c["idx"], dtype=int)
                impls.append(call(lambda: jval(U.tt_ind2sub(s, idx.copy()))))
                reqs.append({"op": "ind2sub", "shape": c["shape"], "idx": c["idx"]})
            elif c["k"] == "allsubs":
                impls.append(call(lambda: jval(U.tt_ind2sub(s, np.arange(gen.numel(s))))))
                reqs.append({"op": "allsubs", "shape": c["shape"]})
            else:
                def rt():
                    n = gen.numel(s)
                    subs = U.tt_ind2sub(s, np.arange(n))
                    back = U.tt_sub2ind(s, subs)
                    return jval(back)
                impls.append(call(rt))
                reqs.append({"op": "allsubs", "shape": c["shape"]})
        models = drive(reqs)
        out = []
        for c, impl, m in zip(cases, impls, models):
            tags = [c["k"], f"N{len(c['shape'])}"]
            if c["k"] == "roundtrip":
                n = gen.numel(c["shape"])
                ok = impl.get("ok") == list(range(n))
                out.append(Verdict("ok" if ok else "violation",
                                   "" if ok else "sub2ind(ind2sub(0..n-1)) is not 0..n-1", impl, list(range(n)), None, tags))
                continue
            if c["k"] == "allsubs":
                m = {"ok": m}
            if impl.get("reject"):
                tags.append("reject")
            if "ok" in impl and isinstance(impl["ok"], list) and len(impl["ok"]) == 0:
                impl = {"ok": []}
            out.append(cmp(c, impl, m, tags=tags, nontrivial=("ok" in impl and len(impl["ok"]) > 0)))
        return out

    def shrink(self, case):
        c = case
        for key in ("subs", "idx"):
            if key in c and len(c[key]) > 1:
                for i in range(len(c[key])):
                    yield {**c, key: c[key][:i] + c[key][i + 1:]}


class DimsCheck(Family):
    name = "dimscheck"
    theorems = ("C17_dimscheck_dims", "C17_dimscheck_exclude", "C17_dimscheck_vidx_P", "C17_dimscheck_vidx_N",
                "C17_dimscheck_rejects")

    def gen(self, rng, tier):
        out = []
        nmax = 3 if tier == "quick" else 4
        for N in range(1, nmax + 1):
            sel = []
            for r in range(1, N + 1):
                for d in itertools.permutations(range(N), r):
                    sel.append(list(d))
            for d in sel:
                for M in [None, len(d), N, N + 1, max(0, len(d) - 1)]:
                    out.append({"N": N, "M": M, "dims": d, "exclude": None})
                    out.append({"N": N, "M": M, "dims": None, "exclude": d})
            for M in [None, N, 1]:
                out.append({"N": N, "M": M, "dims": None, "exclude": None})
            # malformed stream
            out.append({"N": N, "M": None, "dims": [0], "exclude": [0]})
            out.append({"N": N, "M": None, "dims": [-1], "exclude": None})
            out.append({"N": N, "M": None, "dims": None, "exclude": [N]})
            out.append({"N": N, "M": None, "dims": None, "exclude": [-1]})
            out.append({"N": N, "M": None, "dims": [N], "exclude": None})
            out.append({"N": N, "M": N, "dims": [0, N], "exclude": None})
            out.append({"N": N, "M": None, "dims": [0, 0], "exclude": None})
            out.append({"N": N, "M": 2, "dims": [0, 0], "exclude": None})
            out.append({"N": N, "M": None, "dims": None, "exclude": [0, 0]})
        # a few random larger ones
        for _ in range(20 if tier == "quick" else 200):
            N = rng.randint(2, 6)
            r = rng.randint(1, N)
            d = rng.sample(range(N), r)
            M = rng.choice([None, r, N])
            if rng.random() < 0.5:
                out.append({"N": N, "M": M, "dims": d, "exclude": None})
            else:
                out.append({"N": N, "M": M, "dims": None, "exclude": d})
        return out

    def evaluate(self, cases):
        impls, reqs = [], []
        for c in cases:
            def f(c=c):
                kw = {}
                if c["dims"] is not None:
                    kw["dims"] = np.array(c["dims"])
                if c["exclude"] is not None:
                    kw["exclude_dims"] = np.array(c["exclude"])
                sd, vi = U.tt_dimscheck(c["N"], c["M"], **kw)
                return {"sdims": jval(sd), "vidx": None if vi is None else jval(vi)}
            impls.append(call(f))
            reqs.append({"op": "dimscheck", **c})
        models = drive(reqs)
        out = []
        for c, impl, m in zip(cases, impls, models):
            tags = ["dims" if c["dims"] is not None else ("excl" if c["exclude"] is not None else "all"),
                    "M=None" if c["M"] is None else ("M=N" if c["M"] == c["N"] else "M=other")]
            if impl.get("reject"):
                tags.append("reject")
            v = cmp(c, impl, m, tags=tags, nontrivial="ok" in impl)
            # the property itself, on the implementation
            if v.status == "ok" and "ok" in impl:
                sd, vi = impl["ok"]["sdims"], impl["ok"]["vidx"]
                sel = c["dims"] if c["dims"] is not None else [k for k in range(c["N"]) if k not in (c["exclude"] or [])]
                if sd != sorted(sel):
                    v = Verdict("violation", "sdims is not the sorted selection", impl, m, sorted(sel), tags)
                elif vi is not None:
                    if c["M"] == len(sel) and [sel[k] for k in vi] != sd:
                        v = Verdict("violation", "vidx does not pair multiplicand j with dims[j]", impl, m, None, tags)
                    elif c["M"] != len(sel) and vi != sd:
                        v = Verdict("violation", "vidx must equal sdims when one multiplicand per mode is given", impl, m, None, tags)
            out.append(v)
        return out


def _rows(rng, ncols, nmax, vmax, dup_share, vmin=0):
    k = rng.randint(0, nmax)
    rows = [[rng.randint(vmin, vmax) for _ in range(ncols)] for _ in range(k)]
    if rows and rng.random() < dup_share:
        for _ in range(rng.randint(1, 3)):
            rows.insert(rng.randint(0, len(rows)), list(rng.choice(rows)))
    return rows


class Rows(Family):
    name = "rows"
    theorems = ("C17_ismember_spec", "C17_intersect_spec", "C17_setdiff_spec", "C17_union_spec")

    def gen(self, rng, tier):
        out = []
        n = 150 if tier == "quick" else 2500
        for _ in range(n):
            ncols = rng.randint(1, 3)
            vmax = rng.choice([1, 2, 3])
            # integer rows of either sign (the helpers are documented for integer matrices)
            vmin = rng.choice([0, 0, -1, -2, -3])
            A = _rows(rng, ncols, 6, vmax, 0.5, vmin)
            B = _rows(rng, ncols, 6, vmax, 0.5, vmin)
            out.append({"k": rng.choice(["ismember", "intersect", "setdiff", "union"]), "A": A, "B": B, "ncols": ncols})
        return out

    @staticmethod
    def _arr(rows, ncols):
        return np.array(rows, dtype=int).reshape(len(rows), ncols)

    def evaluate(self, cases):
        impls, reqs = [], []
        for c in cases:
            A, B = self._arr(c["A"], c["ncols"]), self._arr(c["B"], c["ncols"])
            if c["k"] == "ismember":
                def f(A=A, B=B):
                    m, loc = U.tt_ismember_rows(A, B)
                    return {"matched": [bool(x) for x in m], "loc": jval(loc)}
                impls.append(call(f))
                reqs.append({"op": "ismember", "search": c["A"], "source": c["B"]})
            elif c["k"] == "intersect":
                impls.append(call(lambda A=A, B=B: jval(np.asarray(U.tt_intersect_rows(A, B)).astype(int))))
                reqs.append({"op": "intersect", "A": c["A"], "B": c["B"]})
            elif c["k"] == "setdiff":
                impls.append(call(lambda A=A, B=B: jval(np.asarray(U.tt_setdiff_rows(A, B)).astype(int))))
                reqs.append({"op": "setdiff", "A": c["A"], "B": c["B"]})
            else:
                impls.append(call(lambda A=A, B=B: jval(np.asarray(U.tt_union_rows(A, B)).astype(int))))
                reqs.append({"op": "union", "A": c["A"], "B": c["B"]})
        models = drive(reqs)
        out = []
        for c, impl, m in zip(cases, impls, models):
            A, B = [tuple(r) for r in c["A"]], [tuple(r) for r in c["B"]]
            dupA = len(set(A)) != len(A)
            neg = any(v < 0 for r in A + B for v in r)
            tags = [c["k"], "dupA" if dupA else "nodupA", "emptyA" if not A else "", "emptyB" if not B else "", "neg" if neg else "nonneg"]
            tags = [t for t in tags if t]
            # the set-algebra specification, computed independently here
            spec = None
            if c["k"] == "intersect":
                seen, spec_rows = set(), []
                for r in B:
                    if r in set(A) and r not in seen:
                        seen.add(r)
                        spec_rows.append(A.index(r))
                spec = {"ok": spec_rows}
            elif c["k"] == "setdiff":
                spec = {"ok": sorted({A.index(r) for r in A if r not in set(B)})}
            elif c["k"] == "ismember":
                spec = {"ok": {"matched": [r in set(B) for r in A],
                               "loc": [max(i for i, b in enumerate(B) if b == r) if r in set(B) else -1 for r in A]}}
            if c["k"] == "union" and "ok" in impl:
                if (not A) or (not B):
                    # np.empty-shaped placeholders of the empty operand: compare as sets of rows
                    got = sorted(set(map(tuple, impl["ok"])))
                    want = sorted(set(A) | set(B))
                    ok = [list(r) for r in got] == [list(r) for r in want]
                    out.append(Verdict("ok" if ok else "violation", "" if ok else "union with empty operand", impl, m, None, tags, False))
                    continue
            out.append(cmp(c, impl, {"ok": m}, spec, tags=tags,
                           nontrivial=("ok" in impl and bool(A) and bool(B))))
        return out

    def shrink(self, case):
        for key in ("A", "B"):
            for i in range(len(case[key])):
                yield {**case, key: case[key][:i] + case[key][i + 1:]}


class KhatriRao(Family):
    name = "khatrirao"
    theorems = ("C17_khatrirao_entry",)

    def gen(self, rng, tier):
        out = []
        n = 60 if tier == "quick" else 800
        for _ in range(n):
            k = rng.randint(1, 4)
            R = rng.randint(1, 3)
            Ms = [gen.matrix(rng, rng.randint(1, 3), R) for _ in range(k)]
            bad = False
            if k > 1 and rng.random() < 0.1:
                j = rng.randrange(1, k)
                Ms[j] = gen.matrix(rng, len(Ms[j]), R + 1)
                bad = True
            out.append({"Ms": Ms, "reverse": rng.random() < 0.4, "bad": bad})
        return out

    def evaluate(self, cases):
        impls, reqs = [], []
        for c in cases:
            mats = [np.array(M, dtype=float) for M in c["Ms"]]
            impls.append(call(lambda mats=mats, c=c: jval(ttb.khatrirao(*mats, reverse=c["reverse"]))))
            reqs.append({"op": "khatrirao", "Ms": c["Ms"], "reverse": c["reverse"]})
        models = drive(reqs)
        out = []
        for c, impl, m in zip(cases, impls, models):
            # column-wise Kronecker product, computed from the definition
            Ms = list(reversed(c["Ms"])) if c["reverse"] else c["Ms"]
            spec = None
            if not c["bad"]:
                R = len(Ms[0][0])
                rows = [[]]
                rows = [[1] * R]
                for M in Ms:
                    rows = [[p[r] * q[r] for r in range(R)] for p in rows for q in M]
                spec = {"ok": rows}
            tags = [f"k{len(Ms)}", "rev" if c["reverse"] else "fwd"] + (["reject"] if impl.get("reject") else [])
            out.append(cmp(c, impl, m, spec, tags=tags, nontrivial="ok" in impl and len(Ms) > 1))
        return out


def families():
    return [Sub2Ind(), DimsCheck(), Rows(), KhatriRao()]
