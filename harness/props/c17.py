"""C17 — index arithmetic, row-set helpers, Khatri-Rao: correspondence families."""
from __future__ import annotations

import itertools

import numpy as np
import pyttb as ttb
from pyttb import pyttb_utils as U

from harness import gen
from harness.lib import Family, Verdict, call, deep_eq, drive, jval, strip_exc

RULE = ("cases are drawn from random.Random(VERIF_SEED): shapes of order 1..4 (5 in thorough) with extents 1..4, "
        "index vectors with negative, boundary and out-of-range entries, every (N, M, dims|exclude_dims) "
        "combination for N<=3 (4 in thorough) valid and invalid, integer row matrices with repeated rows / "
        "empty operands (0 x ncols, and enumerated: 1-d empty int / float, 0x0, 0xk of another width, 1x0, 0xkx1 on either side or both), matrix tuples with equal and unequal column counts; plus two enumerated (not sampled) "
        "streams: (a) shapes whose size is next to 2^31, 2^32, 2^53, 2^62 and 2^63-1 (one to 31 modes, with "
        "singleton modes) with subscripts / linear indices at the extremes, at the stride boundaries, negative, "
        "just out of range, round trips on indices sampled from the whole range, and index / subscript arrays of "
        "dtype int32, int16, uint8 (int8, uint16, uint32 in thorough) on shapes with more than 2^31 cells and on "
        "ordinary shapes; (b) row matrices of width "
        "1..10 built by pattern from a (lo, hi) value pair taken from 0, 1, 2^k-1, 2^k (k in 8,10,16,31,32,40,62) and "
        "large negative entries down to -2^63: the all-lo and all-hi rows together with rows that differ from "
        "them only in the trailing / only in the leading one, two (three in thorough) columns, with repeats, "
        "with empty operands and with the value span present only in the stacked operands; integers are "
        "compared exactly (never through a double); a case is non-trivial when it "
        "is accepted by the implementation and has a non-empty answer; distinct = distinct case hash")
ASSUMPTIONS = ["np.ravel_multi_index / np.unravel_index / np.unique / np.argsort / np.setdiff1d behave as the "
               "model primitives of the same name (exercised by this very correspondence)"]
ANCHORS = [('pyttb/pyttb_utils.py', 'tt_sub2ind'), ('pyttb/pyttb_utils.py', 'tt_ind2sub'), ('pyttb/pyttb_utils.py', 'tt_dimscheck'), ('pyttb/pyttb_utils.py', 'tt_ismember_rows'), ('pyttb/pyttb_utils.py', 'tt_intersect_rows'), ('pyttb/pyttb_utils.py', 'tt_setdiff_rows'), ('pyttb/pyttb_utils.py', 'tt_union_rows'), ('pyttb/khatrirao.py', 'khatrirao')]
EXHAUSTIVE = {"quick": False, "thorough": False}


def cmp(case, impl, model, spec=None, tags=(), nontrivial=True, eq=deep_eq):
    impl_c = strip_exc(impl)
    if spec is not None and not eq(impl_c, spec):
        return Verdict("violation", "implementation differs from the specification", impl, model, spec, tags, nontrivial)
    if not eq(impl_c, model):
        return Verdict("violation", "implementation differs from the (proved) model", impl, model, spec, tags, nontrivial)
    return Verdict("ok", "", impl, model, spec, tags, nontrivial)


def exact_eq(a, b):
    """Equality of canonical JSON values made of Python ints / bools / lists / dicts.  `deep_eq` falls back
    to comparing numbers as doubles, which identifies 2^62 and 2^62+1; the index and row helpers return
    integers only, so they are compared exactly."""
    return a == b


I64_MAX = 2 ** 63 - 1
I64_MIN = -2 ** 63


# ---- specification of the index maps on Python ints (no numpy, no fixed width) ---------------------------
def spec_sub2ind(shape, subs):
    out = []
    for row in subs:
        if len(row) != len(shape) or any(not (0 <= i < s) for i, s in zip(row, shape)):
            return {"reject": True}
        lin, stride = 0, 1
        for i, s in zip(row, shape):
            lin += i * stride
            stride *= s
        out.append(lin)
    return {"ok": out}


def spec_ind2sub(shape, idx):
    n = gen.numel(shape)
    out = []
    for k in idx:
        if k < 0:
            k += n
        if not (0 <= k < n):
            return {"reject": True}
        row = []
        for s in shape:
            k, r = divmod(k, s)
            row.append(r)
        out.append(row)
    return {"ok": out}


def big_shapes(tier):
    """Shapes whose number of cells is next to 2^31, 2^32, 2^53, 2^62 (and the int64 limit 2^63-1): one mode,
    two / three way splits with distinct non-power-of-two extents, singleton modes in every position, many
    small modes.  Every shape has at most 2^63-1 cells (numpy rejects larger ones outright)."""
    out = []
    for e in (31, 32, 53, 62):
        T = 2 ** e
        out += [[T - 1], [T], [T + 1]]
        for a in sorted({1, e // 2, e - 1, e // 3}):
            b = e - a
            out += [[2 ** a, 2 ** b], [2 ** a + 1, 2 ** b - 1], [2 ** b + 1, 2 ** a]]
        a, b = e // 3, e // 4
        c = e - a - b
        out += [[2 ** a, 2 ** b + 1, 2 ** c - 1], [2 ** c + 1, 2 ** a - 1, 2 ** b],
                [1, 2 ** a, 1, 2 ** (e - a)], [2 ** (e - a) + 1, 1, 2 ** a - 1, 1], [1, 1, T - 1], [T + 1, 1],
                [3, T // 3], [T // 3 + 1, 3], [7, 5, T // 35], [T // 35 + 1, 5, 7]]
    out += [[I64_MAX], [I64_MAX, 1], [1, I64_MAX], [2 ** 21, 2 ** 21, 2 ** 21 - 1], [2 ** 21 - 1, 2 ** 21, 2 ** 21],
            [3, 2 ** 61], [2 ** 61, 3], [7, 7, 73, 127, 337, 92737, 649657],  # = 2^63-1
            [4] * 31, [3] * 30 + [9], [2] * 30 + [2 ** 31, 2], [2 ** 32 - 1, 2 ** 31], [2 ** 31 - 1, 2 ** 32]]
    if tier == "thorough":
        for e in range(30, 63):
            out += [[2 ** (e // 2) + 1, 2 ** (e - e // 2) - 1], [3, 2 ** e // 3, 1], [2 ** e - 1], [2 ** e + 1]]
    seen, res = set(), []
    for s in out:
        if all(x >= 1 for x in s) and gen.numel(s) <= I64_MAX and tuple(s) not in seen:
            seen.add(tuple(s))
            res.append(s)
    return res


def big_index_cases(rng, tier):
    """Enumerated extreme subscripts / linear indices of the big shapes + round trips on sampled ones."""
    out = []
    for s in big_shapes(tier):
        n, N = gen.numel(s), len(s)
        last = [x - 1 for x in s]
        zero = [0] * N
        subs = [zero, last]
        modes = range(N) if N <= 4 else [0, 1, N // 2, N - 2, N - 1]
        for k in modes:
            subs.append([last[j] if j == k else 0 for j in range(N)])
            subs.append([0 if j == k else last[j] for j in range(N)])
            subs.append([max(last[j] - 1, 0) if j == k else last[j] for j in range(N)])
            subs.append([min(1, last[j]) if j == k else 0 for j in range(N)])
        out.append({"k": "sub2ind", "shape": s, "subs": subs})
        out.append({"k": "rt_subs", "shape": s, "subs": subs})
        # one subscript just outside, first / last mode (numpy must reject, never wrap)
        for k in {0, N - 1}:
            if s[k] <= I64_MAX - 1:
                out.append({"k": "sub2ind", "shape": s, "subs": [zero, [s[j] if j == k else last[j] for j in range(N)]]})
        strides, p = [], 1
        for x in s:
            strides.append(p)
            p *= x
        idx = {0, min(1, n - 1), n - 1, max(n - 2, 0), n // 2, n // 2 - 1 if n > 1 else 0, -1, -n, 1 - n if n > 1 else -1, -(n // 2) - 1}
        for st in strides:
            idx |= {st % n, (st - 1) % n, -(st % n) - 1}
        for e in (31, 32, 53, 62):
            for d in (-1, 0, 1):
                if 0 <= 2 ** e + d < n:
                    idx |= {2 ** e + d, 2 ** e + d - n}
        idx = sorted(idx)
        out.append({"k": "ind2sub", "shape": s, "idx": idx})
        out.append({"k": "rt_idx", "shape": s, "idx": idx})
        for bad in (n, -n - 1, n + 1):
            if I64_MIN <= bad <= I64_MAX:
                out.append({"k": "ind2sub", "shape": s, "idx": [0, bad]})
        m = 6 if tier == "quick" else 24
        samp = [rng.randrange(n) for _ in range(m)] + [-1 - rng.randrange(n) for _ in range(m // 2)]
        out.append({"k": "rt_idx", "shape": s, "idx": samp})
        out.append({"k": "rt_subs", "shape": s, "subs": [[rng.randrange(x) for x in s] for _ in range(m)]})
    return out


NARROW = {"int32": (-2 ** 31, 2 ** 31 - 1), "int16": (-2 ** 15, 2 ** 15 - 1), "uint8": (0, 255),
          "int8": (-128, 127), "uint16": (0, 2 ** 16 - 1), "uint32": (0, 2 ** 32 - 1)}


def narrow_index_cases(rng, tier):
    """Index / subscript arrays of a narrow integer dtype (int32, int16, uint8; int8, uint16, uint32 in thorough)
    on shapes with more than 2^31 cells (the size does not fit the dtype of the indices) and on ordinary shapes."""
    out = []
    dts = ["int32", "int16", "uint8"] + (["int8", "uint16", "uint32"] if tier == "thorough" else [])
    big = [[2 ** 31 + 1], [2 ** 16, 2 ** 16 + 1], [70000, 70000], [2 ** 31 - 1, 2 ** 31 - 1, 2], [3, 2 ** 40, 5],
           [1, 2 ** 62, 1], [I64_MAX], [200, 250, 255, 256, 1000], [2 ** 15, 2 ** 15 - 1, 2 ** 15 + 1, 7],
           [128, 127, 129, 3, 2 ** 16 + 1]]
    m = 4 if tier == "quick" else 16
    for dt in dts:
        lo, hi = NARROW[dt]
        small = [gen.shape(rng, 1, 4, 4) for _ in range(8 if tier == "quick" else 60)]
        for s in big + small:
            n = gen.numel(s)
            l, h = max(lo, -n), min(hi, n - 1)
            idx = {0, min(1, h), h, max(h - 1, 0), h // 2}
            if l < 0:
                idx |= {-1, l, min(l + 1, -1), l // 2}
            idx = sorted(idx) + [rng.randint(l, h) for _ in range(m)]
            out.append({"k": "ind2sub", "shape": s, "idx": idx, "dtype": dt})
            out.append({"k": "rt_idx", "shape": s, "idx": idx, "dtype": dt})
            # just outside (where the dtype can hold it): must be rejected, not wrapped
            for bad in (n, -n - 1):
                if lo <= bad <= hi:
                    out.append({"k": "ind2sub", "shape": s, "idx": [0, bad], "dtype": dt})
            top = [min(x - 1, hi) for x in s]
            subs = [[0] * len(s), top] + [[top[j] if j == k else 0 for j in range(len(s))] for k in range(len(s))]
            subs += [[rng.randint(0, t) for t in top] for _ in range(m)]
            out.append({"k": "sub2ind", "shape": s, "subs": subs, "dtype": dt})
            out.append({"k": "rt_subs", "shape": s, "subs": subs, "dtype": dt})
            k = rng.randrange(len(s))
            if s[k] <= hi:
                out.append({"k": "sub2ind", "shape": s, "subs": [[s[j] if j == k else 0 for j in range(len(s))]], "dtype": dt})
    return out


class Sub2Ind(Family):
    name = "sub2ind_ind2sub"
    theorems = ("C17_ind2sub_sub2ind", "C17_sub2ind_ind2sub", "C17_sub2ind_injective", "C17_ind2sub_injective", "C17_sub2ind_lt", "C17_sub2ind_enum",
                "C17_sub2ind_stride", "C17_tt_roundtrip")

    def gen(self, rng, tier):
        n = 120 if tier == "quick" else 1500
        out = []
        for _ in range(n):
            s = gen.shape(rng, 1, 5 if tier == "thorough" else 4, 4)
            cells = gen.numel(s)
            kind = rng.choice(["sub2ind", "ind2sub", "ind2sub", "allsubs", "roundtrip"])
            if kind == "sub2ind":
                k = rng.randint(0, 5)
                subs = [[rng.randrange(x) for x in s] for _ in range(k)]
                if subs and rng.random() < 0.15:
                    j = rng.randrange(len(s))
                    subs[rng.randrange(k)][j] = s[j] + rng.randint(0, 1)  # out of range
                out.append({"k": "sub2ind", "shape": s, "subs": subs})
            elif kind == "ind2sub":
                k = rng.randint(0, 6)
                lo, hi = (-cells, cells - 1)
                idx = [rng.randint(lo, hi) for _ in range(k)]
                if idx and rng.random() < 0.15:
                    idx[rng.randrange(k)] = rng.choice([cells, cells + 1, -cells - 1])
                out.append({"k": "ind2sub", "shape": s, "idx": idx})
            elif kind == "allsubs":
                out.append({"k": "allsubs", "shape": s})
            else:
                out.append({"k": "roundtrip", "shape": s})
        # enumerated: shapes next to 2^31 / 2^32 / 2^53 / 2^62 / 2^63-1, extreme subscripts and indices
        out += big_index_cases(rng, tier)
        # index arrays of a narrow integer dtype on shapes whose size does not fit that dtype (and on ordinary ones)
        out += narrow_index_cases(rng, tier)
        return out

    def evaluate(self, cases):
        reqs, impls = [], []
        for c in cases:
            s = tuple(c["shape"])
            dt = np.dtype(c.get("dtype", "int64"))
            if c["k"] == "sub2ind":
                subs = np.array(c["subs"], dtype=dt).reshape(len(c["subs"]), len(s))
                impls.append(call(lambda: jval(U.tt_sub2ind(s, subs.copy()))))
                reqs.append({"op": "sub2ind", "shape": c["shape"], "subs": c["subs"]})
            elif c["k"] == "ind2sub":
                idx = np.array(c["idx"], dtype=dt)
                impls.append(call(lambda: jval(U.tt_ind2sub(s, idx.copy()))))
                reqs.append({"op": "ind2sub", "shape": c["shape"], "idx": c["idx"]})
            elif c["k"] == "rt_idx":
                # linear indices -> subscripts -> linear indices (any size of shape)
                idx = np.array(c["idx"], dtype=dt)

                def rti():
                    subs = U.tt_ind2sub(s, idx.copy())
                    return {"subs": jval(subs), "back": jval(U.tt_sub2ind(s, subs))}
                impls.append(call(rti))
                reqs.append({"op": "ind2sub", "shape": c["shape"], "idx": c["idx"]})
            elif c["k"] == "rt_subs":
                # subscripts -> linear indices -> subscripts
                subs = np.array(c["subs"], dtype=dt).reshape(len(c["subs"]), len(s))

                def rts():
                    lin = U.tt_sub2ind(s, subs.copy())
                    return {"lin": jval(lin), "back": jval(U.tt_ind2sub(s, lin))}
                impls.append(call(rts))
                reqs.append({"op": "sub2ind", "shape": c["shape"], "subs": c["subs"]})
            elif c["k"] == "allsubs":
                impls.append(call(lambda: jval(U.tt_ind2sub(s, np.arange(gen.numel(s))))))
                reqs.append({"op": "allsubs", "shape": c["shape"]})
            else:
                def rt():
                    n = gen.numel(s)
                    subs = U.tt_ind2sub(s, np.arange(n))
                    back = U.tt_sub2ind(s, subs)
                    return jval(back)
                impls.append(call(rt))
                reqs.append({"op": "allsubs", "shape": c["shape"]})
        models = drive(reqs)
        out = []
        for c, impl, m in zip(cases, impls, models):
            n = gen.numel(c["shape"])
            tags = [c["k"], f"N{len(c['shape'])}" if len(c["shape"]) <= 5 else "N>5", c.get("dtype", "int64")]
            for e in (31, 32, 53, 62):
                if n >= 2 ** e - 1:
                    tags.append(f"cells>=2^{e}-1")
            if c["k"] == "roundtrip":
                ok = impl.get("ok") == list(range(n))
                out.append(Verdict("ok" if ok else "violation",
                                   "" if ok else "sub2ind(ind2sub(0..n-1)) is not 0..n-1", impl, list(range(n)), None, tags))
                continue
            if c["k"] == "rt_idx":
                sp = spec_ind2sub(c["shape"], c["idx"])
                want = {"ok": {"subs": sp["ok"], "back": [k % n for k in c["idx"]]}} if "ok" in sp else sp
                mm = {"ok": {"subs": m["ok"], "back": [k % n for k in c["idx"]]}} if "ok" in m else m
                out.append(cmp(c, impl, mm, want, tags=tags, nontrivial="ok" in impl, eq=exact_eq))
                continue
            if c["k"] == "rt_subs":
                sp = spec_sub2ind(c["shape"], c["subs"])
                want = {"ok": {"lin": sp["ok"], "back": c["subs"]}} if "ok" in sp else sp
                mm = {"ok": {"lin": m["ok"], "back": c["subs"]}} if "ok" in m else m
                out.append(cmp(c, impl, mm, want, tags=tags, nontrivial="ok" in impl, eq=exact_eq))
                continue
            spec = None
            if c["k"] == "allsubs":
                m = {"ok": m}
                spec = {"ok": gen.all_subs(c["shape"])}
            elif c["k"] == "sub2ind":
                spec = spec_sub2ind(c["shape"], c["subs"])
            elif c["k"] == "ind2sub":
                spec = spec_ind2sub(c["shape"], c["idx"])
            if impl.get("reject"):
                tags.append("reject")
            if "ok" in impl and isinstance(impl["ok"], list) and len(impl["ok"]) == 0:
                impl = {"ok": []}
            out.append(cmp(c, impl, m, spec, tags=tags, nontrivial=("ok" in impl and len(impl["ok"]) > 0), eq=exact_eq))
        return out

    def shrink(self, case):
        c = case
        for key in ("subs", "idx"):
            if key in c and len(c[key]) > 1:
                for i in range(len(c[key])):
                    yield {**c, key: c[key][:i] + c[key][i + 1:]}


class DimsCheck(Family):
    name = "dimscheck"
    theorems = ("C17_dimscheck_dims", "C17_dimscheck_exclude", "C17_dimscheck_vidx_P", "C17_dimscheck_vidx_N",
                "C17_dimscheck_rejects")

    def gen(self, rng, tier):
        out = []
        nmax = 3 if tier == "quick" else 4
        for N in range(1, nmax + 1):
            sel = []
            for r in range(1, N + 1):
                for d in itertools.permutations(range(N), r):
                    sel.append(list(d))
            for d in sel:
                for M in [None, len(d), N, N + 1, max(0, len(d) - 1)]:
                    out.append({"N": N, "M": M, "dims": d, "exclude": None})
                    out.append({"N": N, "M": M, "dims": None, "exclude": d})
            for M in [None, N, 1]:
                out.append({"N": N, "M": M, "dims": None, "exclude": None})
            # malformed stream
            out.append({"N": N, "M": None, "dims": [0], "exclude": [0]})
            out.append({"N": N, "M": None, "dims": [-1], "exclude": None})
            out.append({"N": N, "M": None, "dims": None, "exclude": [N]})
            out.append({"N": N, "M": None, "dims": None, "exclude": [-1]})
            out.append({"N": N, "M": None, "dims": [N], "exclude": None})
            out.append({"N": N, "M": N, "dims": [0, N], "exclude": None})
            out.append({"N": N, "M": None, "dims": [0, 0], "exclude": None})
            out.append({"N": N, "M": 2, "dims": [0, 0], "exclude": None})
            out.append({"N": N, "M": None, "dims": None, "exclude": [0, 0]})
        # a few random larger ones
        for _ in range(20 if tier == "quick" else 200):
            N = rng.randint(2, 6)
            r = rng.randint(1, N)
            d = rng.sample(range(N), r)
            M = rng.choice([None, r, N])
            if rng.random() < 0.5:
                out.append({"N": N, "M": M, "dims": d, "exclude": None})
            else:
                out.append({"N": N, "M": M, "dims": None, "exclude": d})
        return out

    def evaluate(self, cases):
        impls, reqs = [], []
        for c in cases:
            def f(c=c):
                kw = {}
                if c["dims"] is not None:
                    kw["dims"] = np.array(c["dims"])
                if c["exclude"] is not None:
                    kw["exclude_dims"] = np.array(c["exclude"])
                sd, vi = U.tt_dimscheck(c["N"], c["M"], **kw)
                return {"sdims": jval(sd), "vidx": None if vi is None else jval(vi)}
            impls.append(call(f))
            reqs.append({"op": "dimscheck", **c})
        models = drive(reqs)
        out = []
        for c, impl, m in zip(cases, impls, models):
            tags = ["dims" if c["dims"] is not None else ("excl" if c["exclude"] is not None else "all"),
                    "M=None" if c["M"] is None else ("M=N" if c["M"] == c["N"] else "M=other")]
            if impl.get("reject"):
                tags.append("reject")
            v = cmp(c, impl, m, tags=tags, nontrivial="ok" in impl)
            # the property itself, on the implementation
            if v.status == "ok" and "ok" in impl:
                sd, vi = impl["ok"]["sdims"], impl["ok"]["vidx"]
                sel = c["dims"] if c["dims"] is not None else [k for k in range(c["N"]) if k not in (c["exclude"] or [])]
                if sd != sorted(sel):
                    v = Verdict("violation", "sdims is not the sorted selection", impl, m, sorted(sel), tags)
                elif vi is not None:
                    if c["M"] == len(sel) and [sel[k] for k in vi] != sd:
                        v = Verdict("violation", "vidx does not pair multiplicand j with dims[j]", impl, m, None, tags)
                    elif c["M"] != len(sel) and vi != sd:
                        v = Verdict("violation", "vidx must equal sdims when one multiplicand per mode is given", impl, m, None, tags)
            out.append(v)
        return out


def _rows(rng, ncols, nmax, vmax, dup_share, vmin=0):
    k = rng.randint(0, nmax)
    rows = [[rng.randint(vmin, vmax) for _ in range(ncols)] for _ in range(k)]
    if rows and rng.random() < dup_share:
        for _ in range(rng.randint(1, 3)):
            rows.insert(rng.randint(0, len(rows)), list(rng.choice(rows)))
    return rows


ROW_OPS = ("ismember", "intersect", "setdiff", "union")
#: forms in which "no rows" is handed over besides the 0 x ncols matrix
EMPTY_FORMS = ("1d", "1df", "0x0", "0xk+", "0xk-", "1x0", "0xkx1")


def row_profiles():
    """(lo, hi) value pairs that the columns of a pattern matrix span: 0 / 1 .. 2^k-1 / 2^k, and large
    negative entries down to the int64 limits."""
    out = []
    for k in (8, 10, 16, 31, 32, 40, 62):
        out += [(0, 2 ** k - 1), (0, 2 ** k), (1, 2 ** k)]
    out += [(-2 ** 8, 2 ** 8 - 1), (-2 ** 16, 0), (-2 ** 31, 2 ** 31 - 1), (-2 ** 32, 2 ** 31), (-2 ** 40, 1),
            (-2 ** 62, 2 ** 62), (I64_MIN, I64_MAX), (I64_MIN, 0), (0, I64_MAX),
            (-2 ** 62 - 1, -2 ** 62 + 2), (-2 ** 40, -2 ** 40 + 3)]
    return out


def row_patterns(w, lo, hi, t):
    """Pairs (A, B) of w-column matrices over {lo, lo+1, hi-1, hi}: the all-lo row L and the all-hi row H
    (so every column spans lo..hi) and rows that differ from L / H only in the t trailing ('suf') or only
    in the t leading ('pre') columns.  Some of the variants are in both operands, some in one only."""
    t = min(t, w)
    mid = hi - 1 if hi - 1 > lo else lo
    lo1 = lo + 1 if lo + 1 < hi else hi
    L, H = [lo] * w, [hi] * w

    def suf(base, v):
        return base[:w - t] + [v] * t

    def pre(base, v):
        return [v] * t + base[t:]
    out = []
    for nm, f in (("suf", suf), ("pre", pre)):
        A = [L, H, f(H, lo), f(H, mid), f(L, hi), f(L, lo1)]
        B = [H, f(H, mid), L, f(L, mid), f(H, lo1)]
        out.append((nm, A, B))
        # the same with repeated rows in both operands (first / last occurrence differ)
        out.append((nm + "+rep", [A[2], A[0]] + A + [A[3], A[2], A[1]], [B[1]] + B + [B[0], B[3], B[1]]))
        # the value span is present only in the two operands together
        out.append((nm + "+split", [L, f(L, lo1), f(L, hi), f(L, mid)], [H, f(H, mid), f(L, hi), f(H, lo), f(H, mid)]))
    # mixed rows: alternating lo / hi, equal except in one end
    alt = [lo if j % 2 == 0 else hi for j in range(w)]
    alt2 = [hi if j % 2 == 0 else lo for j in range(w)]
    out.append(("alt", [alt, suf(alt, mid), pre(alt2, lo1), alt2, L], [pre(alt, mid), alt2, suf(alt2, lo1), alt, H, alt2]))
    # empty operands
    full = [L, H, suf(H, mid), pre(H, mid), suf(H, mid)]
    out.append(("emptyA", [], full))
    out.append(("emptyB", full, []))
    return out


def pattern_row_cases(tier):
    """Enumerated (not sampled): every width 1..10 x every value profile x every pattern x every operation."""
    out, seen = [], set()
    for w in range(1, 11):
        for lo, hi in row_profiles():
            for t in ((1, 2) if tier == "quick" else (1, 2, 3)):
                if t > 1 and t >= w:
                    continue
                for nm, A, B in row_patterns(w, lo, hi, t):
                    if tier == "quick" and t > 1 and nm not in ("suf", "pre", "suf+rep", "pre+rep"):
                        continue
                    key =(w, tuple(map(tuple, A)), tuple(map(tuple, B)))
                    if key in seen:
                        continue
                    seen.add(key)
                    for op in ROW_OPS:
                        out.append({"k": op, "A": [list(r) for r in A], "B": [list(r) for r in B], "ncols": w})
    return out


SPECIAL_VALUES = sorted({v for k in (8, 16, 31, 32, 40, 62) for v in (2 ** k - 1, 2 ** k, -2 ** k, -2 ** k + 1)}
                        | {0, 1, 2, -1, I64_MIN, I64_MAX, I64_MIN + 1, I64_MAX - 1})


def random_wide_rows(rng):
    """One sampled pair of wide matrices: rows are a base row with its leading or trailing columns replaced."""
    w = rng.randint(1, 10)
    pool = rng.sample(SPECIAL_VALUES, rng.randint(2, 5))
    bases = [[rng.choice(pool) for _ in range(w)] for _ in range(rng.randint(1, 3))]

    def variant():
        r = list(rng.choice(bases))
        t = rng.randint(0, min(3, w))
        for j in range(t):
            v = rng.choice(pool)
            if rng.random() < 0.3:
                v = max(I64_MIN, min(I64_MAX, v + rng.choice((-1, 1))))
            r[j if rng.random() < 0.5 else w - 1 - j] = v
        return r
    A = [variant() for _ in range(rng.randint(0, 6))]
    B = [variant() for _ in range(rng.randint(0, 6))]
    for M in (A, B):
        if M and rng.random() < 0.5:
            for _ in range(rng.randint(1, 3)):
                M.insert(rng.randint(0, len(M)), list(rng.choice(A + B)))
    return {"k": rng.choice(ROW_OPS), "A": A, "B": B, "ncols": w}


def span_product(rows, ncols):
    """prod over columns of (max - min + 1): the number of cells of the bounding box of the rows."""
    p = 1
    for j in range(ncols):
        col = [r[j] for r in rows]
        p *= (max(col) - min(col) + 1) if col else 1
    return p


class Rows(Family):
    name = "rows"
    theorems = ("C17_ismember_spec", "C17_intersect_spec", "C17_setdiff_spec", "C17_union_spec")

    def gen(self, rng, tier):
        out = []
        n = 150 if tier == "quick" else 2500
        for _ in range(n):
            ncols = rng.randint(1, 3)
            vmax = rng.choice([1, 2, 3])
            # integer rows of either sign (the helpers are documented for integer matrices)
            vmin = rng.choice([0, 0, -1, -2, -3])
            A = _rows(rng, ncols, 6, vmax, 0.5, vmin)
            B = _rows(rng, ncols, 6, vmax, 0.5, vmin)
            out.append({"k": rng.choice(list(ROW_OPS)), "A": A, "B": B, "ncols": ncols})
        # enumerated: wide rows with large entries that differ only in the trailing / leading columns
        out += pattern_row_cases(tier)
        for _ in range(150 if tier == "quick" else 3000):
            out.append(random_wide_rows(rng))
        # enumerated: "no rows" handed over in every form a caller (and the module itself) uses for it - a 1-d empty
        # array (integer and numpy's default float), 0 x 0, 0 x k with another width, 1 x 0, 0 x k x 1 - on either
        # side or both, against operands with and without repeated rows
        for _ in range(1 if tier == "quick" else 6):
            for k in ROW_OPS:
                for form in EMPTY_FORMS:
                    for side in ("A", "B", "AB"):
                        if k == "ismember" and form == "1x0" and "A" in side:
                            continue  # a 1 x 0 search matrix HAS one (empty) row: not "no rows"
                        ncols = rng.randint(1, 3)
                        vmin = rng.choice([0, 0, -2])
                        other = []
                        while not other:
                            other = _rows(rng, ncols, 6, rng.choice([1, 2, 3]), 0.5, vmin)
                        c = {"k": k, "A": other, "B": other, "ncols": ncols}
                        for x in side:
                            c[x] = []
                            c["e" + x] = form
                        out.append(c)
        return out

    @staticmethod
    def _arr(rows, ncols, form=None):
        if not rows and form:
            if form == "1d":
                return np.array([], dtype=np.int64)
            if form == "1df":
                return np.array([])
            if form == "0x0":
                return np.empty((0, 0), dtype=np.int64)
            if form == "0xk+":
                return np.empty((0, ncols + 1), dtype=np.int64)
            if form == "0xk-":
                return np.empty((0, max(ncols - 1, 0)), dtype=np.int64)
            if form == "1x0":
                return np.empty((1, 0), dtype=np.int64)
            if form == "0xkx1":
                return np.empty((0, ncols, 1), dtype=np.int64)
            raise ValueError(form)
        return np.array(rows, dtype=np.int64).reshape(len(rows), ncols)

    def evaluate(self, cases):
        impls, reqs = [], []
        for c in cases:
            A, B = self._arr(c["A"], c["ncols"], c.get("eA")), self._arr(c["B"], c["ncols"], c.get("eB"))
            foreign = bool((not c["A"] and c.get("eA")) or (not c["B"] and c.get("eB")))
            if c["k"] == "ismember":
                def f(A=A, B=B):
                    m, loc = U.tt_ismember_rows(A, B)
                    return {"matched": [bool(x) for x in m], "loc": jval(loc)}
                impls.append(call(f))
                reqs.append({"op": "ismember", "search": c["A"], "source": c["B"]})
            elif c["k"] == "intersect":
                impls.append(call(lambda A=A, B=B: jval(np.asarray(U.tt_intersect_rows(A, B)).astype(int))))
                reqs.append({"op": "intersect", "A": c["A"], "B": c["B"]})
            elif c["k"] == "setdiff":
                impls.append(call(lambda A=A, B=B: jval(np.asarray(U.tt_setdiff_rows(A, B)).astype(int))))
                reqs.append({"op": "setdiff", "A": c["A"], "B": c["B"]})
            else:
                def un(A=A, B=B):
                    # no cast: the union of integer matrices must be an integer matrix (also with an empty operand)
                    u = np.asarray(U.tt_union_rows(A, B))
                    if foreign and u.size == 0:
                        return []  # no rows on both sides: any array without an entry stands for "no rows"
                    if not np.issubdtype(u.dtype, np.integer):
                        return {"dtype": str(u.dtype), "rows": jval(u)}
                    return jval(u)
                impls.append(call(un))
                reqs.append({"op": "union", "A": c["A"], "B": c["B"]})
        models = drive(reqs)
        out = []
        for c, impl, m in zip(cases, impls, models):
            A, B = [tuple(r) for r in c["A"]], [tuple(r) for r in c["B"]]
            setA, setB = set(A), set(B)
            dupA = len(setA) != len(A)
            neg = any(v < 0 for r in A + B for v in r)
            big = max([abs(v) for r in A + B for v in r] or [0])
            tags = [c["k"], "dupA" if dupA else "nodupA", "emptyA" if not A else "", "emptyB" if not B else "",
                    "neg" if neg else "nonneg", "w>=5" if c["ncols"] >= 5 else "w<5",
                    "big>=2^53" if big >= 2 ** 53 else ("big>=2^31" if big >= 2 ** 31 else "small"),
                    "box>=2^63" if span_product(A + B, c["ncols"]) >= 2 ** 63 else "box<2^63"]
            tags += [f"empty{x}-as-{c['e' + x]}" for x in "AB" if not c[x] and c.get("e" + x)]
            tags = [t for t in tags if t]
            # the set-algebra specification, computed independently here on tuples of Python ints
            spec = None
            if c["k"] == "intersect":
                seen, spec_rows = set(), []
                for r in B:
                    if r in setA and r not in seen:
                        seen.add(r)
                        spec_rows.append(A.index(r))
                spec = {"ok": spec_rows}
            elif c["k"] == "setdiff":
                spec = {"ok": sorted({A.index(r) for r in A if r not in setB})}
            elif c["k"] == "ismember":
                spec = {"ok": {"matched": [r in setB for r in A],
                               "loc": [max(i for i, b in enumerate(B) if b == r) if r in setB else -1 for r in A]}}
            if c["k"] == "union" and "ok" in impl:
                if isinstance(impl["ok"], dict):
                    out.append(Verdict("violation", f"union of integer matrices has dtype {impl['ok']['dtype']} (entries beyond 2^53 "
                                       "cannot be exact)", impl, m, None, tags))
                    continue
                got = [tuple(r) for r in impl["ok"]]
                want = sorted(setA | setB)
                # every row of A or B exactly once (C17_union_spec), also with an empty operand; then the model's order
                if len(set(got)) != len(got) or sorted(got) != want:
                    out.append(Verdict("violation", "union is not the set of rows of A or B, each once",
                                       impl, m, [list(r) for r in want], tags))
                    continue
            out.append(cmp(c, impl, {"ok": m}, spec, tags=tags,
                           nontrivial=("ok" in impl and bool(A) and bool(B)), eq=exact_eq))
        return out

    def shrink(self, case):
        for key in ("A", "B"):
            for i in range(len(case[key])):
                yield {**case, key: case[key][:i] + case[key][i + 1:]}
        # drop one column (keeps both operands aligned)
        if case["ncols"] > 1:
            for j in range(case["ncols"]):
                yield {**case, "ncols": case["ncols"] - 1,
                       "A": [r[:j] + r[j + 1:] for r in case["A"]], "B": [r[:j] + r[j + 1:] for r in case["B"]]}


class KhatriRao(Family):
    name = "khatrirao"
    theorems = ("C17_khatrirao_entry", "C17_khatrirao_reverse_entry", "C17_khatrirao_reverse")

    def gen(self, rng, tier):
        out = []
        n = 60 if tier == "quick" else 800
        for _ in range(n):
            k = rng.randint(1, 4)
            R = rng.randint(1, 3)
            Ms = [gen.matrix(rng, rng.randint(1, 3), R) for _ in range(k)]
            bad = False
            if k > 1 and rng.random() < 0.1:
                j = rng.randrange(1, k)
                Ms[j] = gen.matrix(rng, len(Ms[j]), R + 1)
                bad = True
            out.append({"Ms": Ms, "reverse": rng.random() < 0.4, "bad": bad})
        return out

    def evaluate(self, cases):
        impls, reqs = [], []
        for c in cases:
            mats = [np.array(M, dtype=float) for M in c["Ms"]]
            impls.append(call(lambda mats=mats, c=c: jval(ttb.khatrirao(*mats, reverse=c["reverse"]))))
            reqs.append({"op": "khatrirao", "Ms": c["Ms"], "reverse": c["reverse"]})
        models = drive(reqs)
        out = []
        for c, impl, m in zip(cases, impls, models):
            # column-wise Kronecker product, computed from the definition
            Ms = list(reversed(c["Ms"])) if c["reverse"] else c["Ms"]
            spec = None
            if not c["bad"]:
                R = len(Ms[0][0])
                rows = [[]]
                rows = [[1] * R]
                for M in Ms:
                    rows = [[p[r] * q[r] for r in range(R)] for p in rows for q in M]
                spec = {"ok": rows}
            tags = [f"k{len(Ms)}", "rev" if c["reverse"] else "fwd"] + (["reject"] if impl.get("reject") else [])
            out.append(cmp(c, impl, m, spec, tags=tags, nontrivial="ok" in impl and len(Ms) > 1))
        return out


def families():
    return [Sub2Ind(), DimsCheck(), Rows(), KhatriRao()]
